(** C05 — the WHOLE property as one statement over everything the translator reads from math.py (round 4).
    [c05_source] collects the generated objects of Gen/AngleSites_gen.v; [c05_source_ok] is the conjunction of the
    boolean checks that checks/c05.py discharges as named instance obligations on every run; [c05_whole] composes the
    theorems of the parts.  The check evaluates [c05_source_ok] on today's objects as one more obligation
    (whole_property_hypotheses_hold). *)
From Coq Require Import ZArith NArith Reals List String Bool.
From Flocq Require Import Core BinarySingleNaN.
From SV Require Import Num.Mod360 Num.Mod360Proofs Num.AngleSites Num.AngleSitesProofs Num.AngleCtor Num.AngleCtorProofs
                       Num.Dec6 Num.Dec6Proofs Num.Dec6CarveProofs Num.VecText Num.VecTextProofs Num.VecTextFloat
                       Num.AngleText Num.AngleTextProofs Num.SpecStrip Num.SpecStripProofs
                       SM.FrozenOps SM.FrozenOpsProofs SM.FrozenCopy SM.FrozenCopyProofs SM.FrozenCopyValue SM.FrozenCopyValueProofs
                       SM.FrozenHash SM.FrozenHashProofs SM.FrozenEq SM.FrozenEqProofs.
Import ListNotations.

Record c05_source := {
  s_sites : list (string * rhs);            (* every store to an angle slot *)
  s_creations : list (string * creation);   (* every expression that creates an angle object *)
  s_ctors : list string;
  s_ctor_rows : list ctor_row;              (* constructors by argument form *)
  s_events : list mut_event;                (* mutation census *)
  s_results : list result_entry;            (* result kinds of the public methods *)
  s_shapes : list copy_entry;               (* slot transfer of the copy-like methods *)
  s_hash : list hash_row;
  s_inplace : list inplace_row;
  s_eq : list eq_row;                       (* per-slot comparisons of __eq__ per family (round 5) *)
  s_shared : list (string * string * string); (* state kept between calls besides the objects: (function, kind, name) (round 5) *)
  s_fmt : fmt_cfg;                          (* format_float *)
  s_parse : parse_cfg;                      (* parse_vec_str *)
  s_vspec : spec_cfg;                       (* Vec.__format__ *)
  s_aspec : spec_cfg                        (* Angle.__format__ *)
}.

(** The frame, copy and hash models have one kind of state, the objects themselves.  That is adequate for histories of calls
    only if the source keeps nothing else from one call to the next (a cache, an interning table, a class attribute written
    by a method): the census of such places must be empty. *)
Definition no_shared_state (l : list (string * string * string)) : bool := match l with [] => true | _ :: _ => false end.

Definition c05_source_ok (s : c05_source) : bool :=
  all_sites_safe (s_sites s) && all_creations_ok (s_creations s) && ctor_table_ok (s_ctors s) (s_ctor_rows s)
  && table_ok (s_events s) no_carve && copy_results_ok (s_results s) && no_copy_events (s_events s)
  && copy_shapes_ok (s_shapes s) && hash_table_ok (s_hash s) && inplace_ok (s_inplace s) && eq_table_ok (s_eq s) && no_shared_state (s_shared s)
  && cfg_base_ok (s_fmt s) && zero_sign_ok (s_fmt s) && pcfg_ok (s_parse s)
  && spec_cfg_ok (s_vspec s) && spec_cfg_ok (s_aspec s).

Section Whole.
  Variable s : c05_source.
  Hypothesis OK : c05_source_ok s = true.

  Local Ltac split_ok := pose proof OK as H0; unfold c05_source_ok in H0; repeat (apply andb_prop in H0; destruct H0 as [H0 ?]).

  (** (a) every angle slot stays in [0, 360) along every history of stores with finite operands ... *)
  Definition whole_range : Prop :=
    forall es st, Forall in_range st -> finite_inputs es -> Forall in_range (AngleSites.run (s_sites s) es st).
  (** ... and every constructor, for every form of its argument, hands out an angle in range *)
  Definition whole_ctor : Prop :=
    forall c, In c (s_ctors s) -> forall f v, supplied_ok f v ->
      (exists a, In (c, f, a) (s_ctor_rows s)) /\
      (forall a, In (c, f, a) (s_ctor_rows s) -> exists t, ctor_eval a v = Some t /\ in_range3 t).
  (** (b) frozen objects never change, objects that are not the receiver never change, the hash of a frozen object
      never changes and is the same for equal values *)
  Definition whole_frozen : Prop :=
    forall (V : Type) h st i r, good_history V (s_events s) no_carve h st -> nth_error st i = Some r ->
      frozen_class (fst r) = true -> nth_error (FrozenOps.run V (s_events s) h st) i = Some r.
  Definition whole_independent : Prop :=
    forall (V : Type) h st i r, good_history V (s_events s) no_carve h st -> nth_error st i = Some r ->
      Forall (fun x => recv (fst (fst x)) <> i) h -> nth_error (FrozenOps.run V (s_events s) h st) i = Some r.
  Definition whole_hash : Prop :=
    forall (V X H : Type) (get : V -> string -> X) (hf : list X -> H) (ident : nat -> H),
      (forall c a b i j, frozen_class c = true -> same_value V X get c a b ->
         hash_of V X H get hf ident (s_hash s) i (c, a) = hash_of V X H get hf ident (s_hash s) j (c, b)) /\
      (forall h st i r, good_history V (s_events s) no_carve h st -> nth_error st i = Some r -> frozen_class (fst r) = true ->
         exists r', nth_error (FrozenOps.run V (s_events s) h st) i = Some r' /\
                    hash_of V X H get hf ident (s_hash s) i r' = hash_of V X H get hf ident (s_hash s) i r).
  (** the only state a history of calls can carry is the objects themselves (adequacy of the register models below) *)
  Definition whole_no_hidden_state : Prop := s_shared s = [].
  (** == on two objects of one family whose slots hold the same finite values (rationals) answers True: with the copy-value
      clause below, "a copy compares equal to its source" (round 5: the == table is part of the source record) *)
  Definition whole_eq : Prop :=
    forall fam l, In (fam, l) (s_eq s) -> forall a b : string -> QArith_base.Q,
      (forall sl, In sl (family_slots fam) -> QArith_base.Qeq (a sl) (b sl)) -> eq_eval l a b = true.
  (** a copy has the promised class and the value of its source *)
  Definition whole_copy_value : Prop :=
    (forall c m rc sh, In (c, m, rc, sh) (s_shapes s) -> rc = result_class c m) /\
    (forall c m rc t, In (c, m, rc, CSlots t) (s_shapes s) -> angle_family rc = false ->
       forall (V : Type) (norm : V -> V) (dflt : V) (src : string -> V) sl, In sl (slots_of rc) -> built V norm dflt t src sl = src sl) /\
    (forall c m rc t, In (c, m, rc, CSlots t) (s_shapes s) -> angle_family rc = true ->
       forall src : string -> b64, (forall sl, In sl (slots_of rc) -> in_range (src sl)) ->
       forall sl, In sl (slots_of rc) ->
         same64 (built b64 double360 (B754_zero false) t src sl) (src sl) /\ in_range (built b64 double360 (B754_zero false) t src sl)).
  (** (c) the text of a component is a plain decimal, "-0" exactly on the carved-out class, "0" for an exact zero *)
  Definition whole_text_shape : Prop :=
    (forall x, carved (s_fmt s) x = false -> plain_decimal (format6 (s_fmt s) x) = true) /\
    (forall x, format6 (s_fmt s) x = [45; 48]%N <-> carved (s_fmt s) x = true) /\
    (forall x, dm x = 0%N -> format6 (s_fmt s) x = [48]%N).
  (** str(angle) -> from_str: in range again and within 5e-7 + ulp/2 on the circle; str(vec) -> from_str within 5e-7 + ulp/2 *)
  Definition whole_angle_roundtrip : Prop :=
    forall (p y r : b64) ws1 ob wa s1 s2 wb cb ws2,
    all_space ws1 -> all_space wa -> all_space wb -> all_space ws2 ->
    all_space s1 -> s1 <> [] -> all_space s2 -> s2 <> [] ->
    opt_bracket (opens (s_parse s)) ob -> opt_bracket (closes (s_parse s)) cb ->
    in_range p -> in_range y -> in_range r ->
    exists d1 d2 d3,
      parse_vec (s_parse s) (ws1 ++ ob ++ wa ++ format6 (s_fmt s) (dy_of p) ++ s1 ++ format6 (s_fmt s) (dy_of y) ++ s2 ++ format6 (s_fmt s) (dy_of r) ++ wb ++ cb ++ ws2)
        = PFields (Some d1) (Some d2) (Some d3) /\
      forall d x, In (d, x) [(d1, p); (d2, y); (d3, r)] ->
      forall f : b64, is_finite f = true -> B2R f = py_float d ->
        in_range (double360 f) /\
        (Rabs (B2R (double360 f) - B2R x) <= 5 / 10000000 + / 2 * ulp radix2 (FLT_exp (-1074) 53) (dec_R d) \/
         Rabs (B2R (double360 f) + 360 - B2R x) <= 5 / 10000000 + / 2 * ulp radix2 (FLT_exp (-1074) 53) (dec_R d))%R.
  Definition whole_vec_roundtrip : Prop :=
    forall (x y z : b64) ws1 ob wa s1 s2 wb cb ws2,
    all_space ws1 -> all_space wa -> all_space wb -> all_space ws2 ->
    all_space s1 -> s1 <> [] -> all_space s2 -> s2 <> [] ->
    opt_bracket (opens (s_parse s)) ob -> opt_bracket (closes (s_parse s)) cb ->
    is_finite x = true -> is_finite y = true -> is_finite z = true ->
    exists d1 d2 d3,
      parse_vec (s_parse s) (ws1 ++ ob ++ wa ++ format6 (s_fmt s) (dy_of x) ++ s1 ++ format6 (s_fmt s) (dy_of y) ++ s2 ++ format6 (s_fmt s) (dy_of z) ++ wb ++ cb ++ ws2)
        = PFields (Some d1) (Some d2) (Some d3) /\
      forall d v, In (d, v) [(d1, x); (d2, y); (d3, z)] ->
        (Rabs (py_float d - B2R v) <= 5 / 10000000 + / 2 * ulp radix2 (FLT_exp (-1074) 53) (dec_R d))%R.
  (** format(obj, spec): only trailing zeros of a fixed-point fraction are removed; exponent texts are untouched *)
  Definition whole_format_spec : Prop :=
    forall k, k = s_vspec s \/ k = s_aspec s ->
      (spec_neg_zero_fix k = false -> forall pre frac,
         ss_has 46 pre = false -> ss_has 101 pre = false -> ss_has 69 pre = false -> ss_digits frac = true ->
         exists (frac' : list N) n, frac = (frac' ++ repeat 48%N n)%list /\ (forall p x, frac' = (p ++ [x])%list -> x <> 48%N) /\
           spec_post k (pre ++ 46%N :: frac)%list = (pre ++ (match frac' with [] => [] | _ => 46%N :: frac' end))%list) /\
      (forall t, dot_outside k = false \/ (forall p, t <> (p ++ [46%N])%list) -> ss_has 101 t = true \/ ss_has 69 t = true -> spec_post k t = t).

  Theorem c05_whole :
    whole_range /\ whole_ctor /\ whole_no_hidden_state /\ whole_frozen /\ whole_independent /\ whole_hash /\ whole_eq /\ whole_copy_value /\
    whole_text_shape /\ whole_angle_roundtrip /\ whole_vec_roundtrip /\ whole_format_spec.
  Proof.
    split_ok.
    repeat match goal with |- _ /\ _ => split end.
    - unfold whole_range. apply angle_range_invariant. assumption.
    - unfold whole_ctor. apply ctor_range. assumption.
    - unfold whole_no_hidden_state. destruct (s_shared s); [reflexivity|discriminate].
    - intros V h. apply frozen_registers_stable. assumption.
    - intros V h. apply non_receiver_stable. assumption.
    - intros V X HT get hf ident. split.
      + apply hash_same_value. assumption.
      + apply frozen_hash_stable. assumption.
    - unfold whole_eq. apply eq_same_value. assumption.
    - unfold whole_copy_value. split; [|split].
      + apply copy_result_class. assumption.
      + apply copy_value_equal_exact. assumption.
      + apply copy_value_equal_angles. assumption.
    - unfold whole_text_shape. split; [|split].
      + intros x. apply format6_plain_gen. assumption.
      + intros x. apply negative_zero_iff_carved. assumption.
      + intros x. apply exact_zero_prints_zero; assumption.
    - unfold whole_angle_roundtrip. intros. apply angle_text_roundtrip; assumption.
    - unfold whole_vec_roundtrip. intros. apply vec_text_roundtrip; assumption.
    - intros k Hk. assert (Hs : spec_cfg_ok k = true) by (destruct Hk; subst; assumption). split.
      + intros Hf pre frac. apply spec_post_fixed; assumption.
      + intros t Hd He. apply spec_post_exponent; auto.
        unfold spec_cfg_ok in Hs. repeat (apply andb_prop in Hs; destruct Hs as [Hs ?]). assumption.
  Qed.
End Whole.

(** the hypotheses are satisfiable (non-vacuity; the check evaluates them on today's generated objects) *)
Example c05_source_ok_satisfiable :
  c05_source_ok {| s_sites := [("Angle.pitch"%string, Double360)]; s_creations := [("from_str"%string, ViaCtor)];
                   s_ctors := ["C"%string];
                   s_ctor_rows := map (fun f => ("C"%string, f, if form_is_angle f then AStores CopyFromAngle CopyFromAngle CopyFromAngle
                                                                else AStores Double360 Double360 Double360)) all_forms;
                   s_events := []; s_results := []; s_shapes := [];
                   s_hash := [("Vec", HUnhashable); ("FrozenVec", HSlots ["_x"; "_y"; "_z"]); ("Angle", HUnhashable);
                              ("FrozenAngle", HSlots ["_pitch"; "_yaw"; "_roll"]); ("Matrix", HUnhashable); ("FrozenMatrix", HUnhashable)]%string;
                   s_inplace := [("Vec", "__iadd__")]%string;
                   s_eq := [("VecBase"%string, map (fun sl => (sl, CTol true (QArith_base.Qmake 1 1000000))) (family_slots "VecBase"));
                            ("AngleBase"%string, map (fun sl => (sl, CTol false (QArith_base.Qmake 1 1000000))) (family_slots "AngleBase"));
                            ("MatrixBase"%string, map (fun sl => (sl, CExact)) (family_slots "MatrixBase"))];
                   s_shared := [];
                   s_fmt := cfg_pinned;
                   s_parse := {| strips_ws := true; opens := [40]%N; closes := [41]%N; splits_ws := true; uses_float := true |};
                   s_vspec := cfg_guarded; s_aspec := cfg_guarded |} = true.
Proof. vm_compute. reflexivity. Qed.
