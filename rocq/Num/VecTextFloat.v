(** C05 (c) — the last step of reading a number back: Python's float() rounds the exact decimal to binary64.
    float() is an external builtin; it enters as the DEFINITION [py_float] = round-to-nearest-even of the exact
    decimal value (the "correctly rounded" assumption, stated once, here).  Then: the double obtained from a field
    that is within 5e-7 of x (Num/VecText.v [within_5e7]) is within 5e-7 + half an ulp of x.
    Uses Flocq's real-number rounding, hence the classical axioms of Coq's Reals. *)
From Coq Require Import ZArith NArith Reals Lia Lra.
From Flocq Require Import Core.
From SV Require Import Num.Dec6 Num.Dec6Proofs Num.VecText Num.Mod360Proofs.
Open Scope R_scope.

Definition sgnR (b : bool) : R := if b then -1 else 1.
(** real value of a dyadic (a double given as sign, mantissa, exponent) and of a decimal *)
Definition dy_R (x : dyadic) : R := sgnR (dneg x) * IZR (Z.of_N (dm x)) * bpow radix2 (de x).
Definition dec_R (d : decimal) : R :=
  let '(neg, num, k) := d in sgnR neg * IZR (Z.of_N num) / IZR (10 ^ Z.of_nat k).
(** float(text): correctly rounded (round to nearest, ties to even) binary64 *)
Definition py_float (d : decimal) : R := round radix2 fexp64 ZnearestE (dec_R d).

Lemma sgn_R b : IZR (sgn b) = sgnR b.
Proof. destruct b; reflexivity. Qed.

(** |x|·10^6 = num/den *)
Lemma num_den_R x : IZR (Z.of_N (fst (num_den x))) = IZR (Z.of_N (dm x)) * bpow radix2 (de x) * 1000000 * IZR (Z.of_N (snd (num_den x))).
Proof.
  unfold num_den. destruct (0 <=? de x)%Z eqn:E; cbn [fst snd].
  - apply Z.leb_le in E. rewrite !N2Z.inj_mul, N2Z.inj_pow, Z2N.id by lia. rewrite !mult_IZR.
    change (Z.of_N 2) with 2%Z. rewrite (IZR_Zpower radix2) by lia. change (Z.of_N 1000000) with 1000000%Z.
    change (Z.of_N 1) with 1%Z. lra.
  - apply Z.leb_gt in E. rewrite N2Z.inj_mul, N2Z.inj_pow, Z2N.id by lia. rewrite mult_IZR.
    change (Z.of_N 2) with 2%Z. rewrite (IZR_Zpower radix2) by lia. change (Z.of_N 1000000) with 1000000%Z.
    rewrite (Rmult_comm (_ * bpow radix2 (de x)) 1000000), !Rmult_assoc, <- bpow_plus.
    replace (de x + - de x)%Z with 0%Z by lia. simpl. lra.
Qed.

Lemma pow10_split k : (k <= 6)%nat -> (1000000 = 10 ^ Z.of_nat k * 10 ^ Z.of_nat (6 - k))%Z.
Proof. intros H. rewrite <- Z.pow_add_r by lia. replace (Z.of_nat k + Z.of_nat (6 - k))%Z with 6%Z by lia. reflexivity. Qed.

(** the integer statement [within_5e7] says: the decimal is within 5e-7 of x, as real numbers *)
Theorem within_5e7_R d x : within_5e7 d x -> Rabs (dec_R d - dy_R x) <= 5 / 10000000.
Proof.
  destruct d as [[neg num] k]. unfold within_5e7. intros [Hk H].
  pose proof (den_pos x) as Hd.
  set (den := Z.of_N (snd (num_den x))) in *. set (nx := Z.of_N (fst (num_den x))) in *.
  assert (Hden : 0 < IZR den) by (apply IZR_lt; unfold den; lia).
  apply IZR_le in H. rewrite mult_IZR, abs_IZR, minus_IZR, !mult_IZR, !sgn_R in H.
  rewrite N2Z.inj_mul, N2Z.inj_pow, nat_N_Z in H. change (Z.of_N 10) with 10%Z in H. rewrite mult_IZR in H.
  pose proof (num_den_R x) as E. fold nx den in E. rewrite E in H.
  assert (P1 : 0 < IZR (10 ^ Z.of_nat k)) by (apply IZR_lt, Z.pow_pos_nonneg; lia).
  assert (P2 : 0 < IZR (10 ^ Z.of_nat (6 - k))) by (apply IZR_lt, Z.pow_pos_nonneg; lia).
  assert (S : 1000000 = IZR (10 ^ Z.of_nat k) * IZR (10 ^ Z.of_nat (6 - k))).
  { rewrite <- mult_IZR, <- (pow10_split k Hk). reflexivity. }
  set (pk := IZR (10 ^ Z.of_nat k)) in *. set (pr := IZR (10 ^ Z.of_nat (6 - k))) in *.
  unfold dec_R, dy_R. fold pk.
  (* scale the goal by 10^6 * den > 0 *)
  apply Rmult_le_reg_r with (1000000 * IZR den); [nra|].
  rewrite <- (Rabs_pos_eq (1000000 * IZR den)) at 1 by nra. rewrite <- Rabs_mult.
  replace ((sgnR neg * IZR (Z.of_N num) / pk - sgnR (dneg x) * IZR (Z.of_N (dm x)) * bpow radix2 (de x)) * (1000000 * IZR den))
    with (sgnR neg * (IZR (Z.of_N num) * pr) * IZR den - sgnR (dneg x) * (IZR (Z.of_N (dm x)) * bpow radix2 (de x) * 1000000 * IZR den)).
  - match goal with |- Rabs ?t <= _ => set (T := Rabs t) in * end. clearbody T den. clear - H Hden. lra.
  - rewrite S. field. lra.
Qed.

(** THE READ-BACK BOUND: the double that float() returns for a field within 5e-7 of x is within 5e-7 plus half an
    ulp (of the exact decimal) of x.  The 5e-7 alone cannot be claimed: for a tie such as x = 1/128 = 0.0078125 the
    text "0.007812" is exactly 5e-7 away and the nearest double to 0.007812 may lie on the far side. *)
Theorem float_parse_error d x : within_5e7 d x ->
  Rabs (py_float d - dy_R x) <= 5 / 10000000 + / 2 * ulp radix2 fexp64 (dec_R d).
Proof.
  intros W. pose proof (within_5e7_R d x W) as H.
  pose proof (error_le_half_ulp radix2 fexp64 (fun n => negb (Z.even n)) (dec_R d)) as E.
  fold ZnearestE in E.
  unfold py_float.
  replace (round radix2 fexp64 ZnearestE (dec_R d) - dy_R x)
    with ((round radix2 fexp64 ZnearestE (dec_R d) - dec_R d) + (dec_R d - dy_R x)) by ring.
  eapply Rle_trans; [apply Rabs_triang|]. lra.
Qed.

(** an exactly representable decimal is read back exactly: when the text denotes x itself (x has at most six
    decimals), float() returns x *)
Theorem float_parse_exact d x : dec_R d = dy_R x -> generic_format radix2 fexp64 (dy_R x) -> py_float d = dy_R x.
Proof. intros E G. unfold py_float. rewrite E. apply round_generic; [typeclasses eauto|exact G]. Qed.
