(** C05 (a) — the constructors of Angle/FrozenAngle as a dispatch table over ARGUMENT FORMS.
    translate/c05_sites.py runs [Angle.__init__] and [FrozenAngle.__new__] symbolically once for each form of
    the first argument (a number, an object of the class itself, an angle of the twin class, a Vec, a FrozenVec,
    any other iterable) and records what happens on the path that form takes: the argument is handed back, or a
    new object is filled by three stores whose values are classified as in Num/AngleSites.v.  The table is
    [angle_ctor_rows] in Gen/AngleSites_gen.v.  Definitions only. *)
From Coq Require Import ZArith Reals List String Bool.
From Flocq Require Import Core BinarySingleNaN.
From SV Require Import Num.Mod360 Num.AngleSites.
Import ListNotations.

Inductive argform :=
  | FNumber        (* Angle(10, 20.5, 30): int / float / bool, yaw and roll from the other two arguments *)
  | FSameClass     (* an object of the class being constructed *)
  | FOtherAngle    (* an angle of the twin class (Angle <-> FrozenAngle) *)
  | FVec           (* a Vec: three arbitrary floats *)
  | FFrozenVec     (* a FrozenVec *)
  | FIterable.     (* tuple, list, iterator, generator ...: up to three items, then the yaw / roll arguments *)

Definition all_forms : list argform := [FNumber; FSameClass; FOtherAngle; FVec; FFrozenVec; FIterable].

Definition argform_eqb (a b : argform) : bool :=
  match a, b with
  | FNumber, FNumber | FSameClass, FSameClass | FOtherAngle, FOtherAngle | FVec, FVec
  | FFrozenVec, FFrozenVec | FIterable, FIterable => true
  | _, _ => false
  end.

(** the components of an argument of this form are slots of an existing angle (in range by the invariant) *)
Definition form_is_angle (f : argform) : bool :=
  match f with FSameClass | FOtherAngle => true | _ => false end.

Inductive ctor_action :=
  | AReturnArg                      (* `return pitch`: the argument itself is the result *)
  | AStores (p y r : rhs)           (* a new object; kind of the value stored into each slot on this path *)
  | AUnknown.                       (* path not understood, a slot not stored, an exception, a loop ... *)

Definition ctor_row : Type := string * argform * ctor_action.     (* "Class.__init__", form, what happens *)

(** A slot may be taken over unchanged only from an angle; everything else must go through the double modulo. *)
Definition rhs_ok_for (f : argform) (r : rhs) : bool :=
  match r with
  | Double360 | ConstZero => true
  | CopyFromAngle => form_is_angle f
  | Single360 | Other => false
  end.

Definition action_ok (f : argform) (a : ctor_action) : bool :=
  match a with
  | AReturnArg => form_is_angle f
  | AStores p y r => rhs_ok_for f p && rhs_ok_for f y && rhs_ok_for f r
  | AUnknown => false
  end.

Definition row_ok (r : ctor_row) : bool := action_ok (snd (fst r)) (snd r).

Definition has_row (rows : list ctor_row) (c : string) (f : argform) : bool :=
  existsb (fun r => String.eqb (fst (fst r)) c && argform_eqb (snd (fst r)) f) rows.

(** every row is fine and every constructor has a row for every form *)
Definition ctor_table_ok (ctors : list string) (rows : list ctor_row) : bool :=
  forallb row_ok rows && forallb (fun c => forallb (has_row rows c) all_forms) ctors
  && negb (match ctors with [] => true | _ => false end).

Definition bad_ctor_rows (rows : list ctor_row) : list (string * argform) :=
  map fst (filter (fun r => negb (row_ok r)) rows).

(** Meaning of a row.  [v] = the three floats the argument supplies: the numbers themselves (after float()), the
    items of the iterable, the components of the vector, or the slots of the angle. *)
Definition triple : Type := b64 * b64 * b64.

Definition ctor_eval (a : ctor_action) (v : triple) : option triple :=
  match a with
  | AReturnArg => Some v
  | AStores p y r => let '(v1, v2, v3) := v in Some (eval_rhs p v1 v1, eval_rhs y v2 v2, eval_rhs r v3 v3)
  | AUnknown => None
  end.

Definition finite3 (v : triple) : Prop :=
  let '(a, b, c) := v in is_finite a = true /\ is_finite b = true /\ is_finite c = true.
Definition in_range3 (v : triple) : Prop :=
  let '(a, b, c) := v in in_range a /\ in_range b /\ in_range c.

(** what may be assumed of the supplied floats: finite; in range when they are the slots of an angle *)
Definition supplied_ok (f : argform) (v : triple) : Prop :=
  finite3 v /\ (form_is_angle f = true -> in_range3 v).
