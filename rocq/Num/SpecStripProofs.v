(** C05 (c) — the zero stripping of __format__ removes trailing zeros of the FRACTION only. *)
From Coq Require Import NArith List Bool Lia.
From SV Require Import Num.SpecStrip.
Import ListNotations.
Open Scope N_scope.

Lemma rstrip_cons_ne c y r : ss_rstrip c r <> [] -> ss_rstrip c (y :: r) = y :: ss_rstrip c r.
Proof. intros H. cbn [ss_rstrip]. destruct (ss_rstrip c r); [contradiction|reflexivity]. Qed.

Lemma rstrip_ne c x t : N.eqb x c = false -> ss_rstrip c (x :: t) <> [].
Proof. intros Hx. cbn [ss_rstrip]. destruct (ss_rstrip c t); [rewrite Hx|]; discriminate. Qed.

Lemma rstrip_cons_not c x t : N.eqb x c = false -> ss_rstrip c (x :: t) = x :: ss_rstrip c t.
Proof. intros Hx. cbn [ss_rstrip]. destruct (ss_rstrip c t); [rewrite Hx|]; reflexivity. Qed.

Lemma rstrip_app_not c s x t : N.eqb x c = false -> ss_rstrip c (s ++ x :: t) = s ++ ss_rstrip c (x :: t).
Proof.
  intros Hx. pose proof (rstrip_ne c x t Hx) as Hne. induction s as [|y s IH]; [reflexivity|].
  change ((y :: s) ++ x :: t) with (y :: (s ++ x :: t)). rewrite rstrip_cons_ne.
  - rewrite IH. reflexivity.
  - rewrite IH. intro E. apply app_eq_nil in E. tauto.
Qed.

Lemma rstrip_repeat c n : ss_rstrip c (repeat c n) = [].
Proof. induction n as [|n IH]; simpl; auto. rewrite IH. rewrite N.eqb_refl. reflexivity. Qed.

Lemma rstrip_app_repeat c s n : ss_rstrip c (s ++ repeat c n) = ss_rstrip c s.
Proof.
  induction s as [|x s IH]; [apply rstrip_repeat|].
  change ((x :: s) ++ repeat c n) with (x :: (s ++ repeat c n)). cbn [ss_rstrip]. rewrite IH. reflexivity.
Qed.

Lemma rstrip_no_c c s : ss_has c s = false -> ss_rstrip c s = s.
Proof.
  induction s as [|x s IH]; [reflexivity|]. unfold ss_has. cbn [existsb]. intros H.
  apply Bool.orb_false_iff in H. destruct H as [Hx Hs]. rewrite rstrip_cons_not by (rewrite N.eqb_sym; exact Hx).
  f_equal. apply IH. exact Hs.
Qed.

Lemma rstrip_suffix_no_c c a b : ss_has c b = false -> b <> [] -> ss_rstrip c (a ++ b) = a ++ b.
Proof.
  intros Hb Hne. induction a as [|y a IH]; [apply rstrip_no_c; exact Hb|].
  change ((y :: a) ++ b) with (y :: (a ++ b)). rewrite rstrip_cons_ne; rewrite IH; auto.
  intro E. apply app_eq_nil in E. tauto.
Qed.

Lemma rstrip_idem c s : ss_rstrip c (ss_rstrip c s) = ss_rstrip c s.
Proof.
  induction s as [|x s IH]; [reflexivity|]. cbn [ss_rstrip]. destruct (ss_rstrip c s) as [|y r] eqn:E.
  - destruct (N.eqb x c) eqn:Ex; [reflexivity|]. cbn [ss_rstrip]. rewrite Ex. reflexivity.
  - rewrite rstrip_cons_ne; rewrite IH; [reflexivity|discriminate].
Qed.

Lemma rstrip_length c s : (length (ss_rstrip c s) <= length s)%nat.
Proof.
  induction s as [|x s IH]; [simpl; lia|]. cbn [ss_rstrip]. destruct (ss_rstrip c s) as [|y r].
  - destruct (N.eqb x c); simpl; lia.
  - simpl in *. lia.
Qed.

(** every text is its ss_rstrip followed by copies of the stripped character ... *)
Lemma rstrip_decomp c s : exists n, s = ss_rstrip c s ++ repeat c n.
Proof.
  induction s as [|x s IH]; [exists 0%nat; reflexivity|]. destruct IH as [n Hn]. cbn [ss_rstrip].
  destruct (ss_rstrip c s) as [|y r].
  - simpl in Hn. destruct (N.eqb x c) eqn:Ex.
    + apply N.eqb_eq in Ex. subst x. exists (S n). simpl. f_equal. exact Hn.
    + exists n. simpl. f_equal. exact Hn.
  - exists n. simpl. f_equal. exact Hn.
Qed.

(** ... and the ss_rstrip does not end in it *)
Lemma rstrip_last c s p x : ss_rstrip c s = p ++ [x] -> x <> c.
Proof.
  intros E Hx. subst x. pose proof (rstrip_idem c s) as Hi. rewrite E in Hi.
  change [c] with (repeat c 1) in Hi. rewrite rstrip_app_repeat in Hi.
  pose proof (rstrip_length c p) as Hl. rewrite Hi in Hl. rewrite app_length in Hl. simpl in Hl. lia.
Qed.

Lemma has_app c a b : ss_has c (a ++ b) = ss_has c a || ss_has c b.
Proof. unfold ss_has. apply existsb_app. Qed.

Lemma digits_has_not c s : ss_digits s = true -> ss_is_digit c = false -> ss_has c s = false.
Proof.
  unfold ss_digits, ss_has. intros Hd Hc. induction s as [|x s IH]; simpl; auto.
  simpl in Hd. apply andb_prop in Hd. destruct Hd as [Hx Hs]. rewrite IH by auto.
  destruct (N.eqb c x) eqn:E; auto. apply N.eqb_eq in E. subst. congruence.
Qed.

Lemma digits_app a b : ss_digits (a ++ b) = true -> ss_digits a = true /\ ss_digits b = true.
Proof. unfold ss_digits. rewrite forallb_app. apply andb_prop. Qed.

(** ss_rstrip('0') of  pre ++ "." ++ frac  works on the fraction only *)
Lemma rstrip_zero_frac pre frac : ss_rstrip 48 (pre ++ 46 :: frac) = pre ++ 46 :: ss_rstrip 48 frac.
Proof. rewrite rstrip_app_not by reflexivity. rewrite rstrip_cons_not by reflexivity. reflexivity. Qed.

(** ss_rstrip('.') afterwards removes the dot exactly when nothing of the fraction is left *)
Lemma rstrip_dot_frac pre f : ss_has 46 pre = false -> ss_has 46 f = false ->
  ss_rstrip 46 (pre ++ 46 :: f) = pre ++ (match f with [] => [] | _ => 46 :: f end).
Proof.
  intros Hp Hf. destruct f as [|y r].
  - change [46] with (repeat 46 1). rewrite rstrip_app_repeat. rewrite app_nil_r. apply rstrip_no_c. exact Hp.
  - change (pre ++ 46 :: y :: r) with (pre ++ [46] ++ y :: r). rewrite app_assoc.
    rewrite rstrip_suffix_no_c; [rewrite <- app_assoc; reflexivity | exact Hf | discriminate].
Qed.

(** FIXED-POINT TEXTS.  For a configuration that passes [spec_cfg_ok] and a text  pre ++ "." ++ frac  where [pre] (sign
    and integer ss_digits, possibly with padding or thousands separators) contains no '.', 'e', 'E' and [frac] consists
    of ss_digits: the result is the same text with the trailing zeros of [frac] removed, and without the dot when nothing
    of [frac] is left.  Nothing else changes: no character of [pre], no non-zero digit of the fraction. *)
Theorem spec_post_fixed k pre frac :
  spec_cfg_ok k = true -> spec_neg_zero_fix k = false ->
  ss_has 46 pre = false -> ss_has 101 pre = false -> ss_has 69 pre = false -> ss_digits frac = true ->
  exists frac' n, frac = frac' ++ repeat 48 n /\ (forall p x, frac' = p ++ [x] -> x <> 48) /\
    spec_post k (pre ++ 46 :: frac) = pre ++ (match frac' with [] => [] | _ => 46 :: frac' end).
Proof.
  intros Hok Hfix Hp1 Hp2 Hp3 Hfrac.
  unfold spec_cfg_ok in Hok. apply andb_prop in Hok. destruct Hok as [Hok Hdot].
  apply andb_prop in Hok. destruct Hok as [Hok Hsz]. apply andb_prop in Hok. destruct Hok as [Hgd Hge].
  destruct (rstrip_decomp 48 frac) as [n Hs].
  exists (ss_rstrip 48 frac), n. split; [exact Hs|]. split; [intros p x E; exact (rstrip_last 48 frac p x E)|].
  assert (Hf' : ss_digits (ss_rstrip 48 frac) = true) by (rewrite Hs in Hfrac; apply digits_app in Hfrac; tauto).
  assert (Hg : ss_guard k (pre ++ 46 :: frac) = true).
  { assert (H46 : ss_has 46 (pre ++ 46 :: frac) = true).
    { rewrite has_app. change (ss_has 46 (46 :: frac)) with (N.eqb 46 46 || ss_has 46 frac). rewrite N.eqb_refl. apply Bool.orb_true_r. }
    assert (H101 : ss_has 101 (pre ++ 46 :: frac) = false).
    { rewrite has_app, Hp2. change (ss_has 101 (46 :: frac)) with (N.eqb 101 46 || ss_has 101 frac).
      rewrite (digits_has_not 101 frac) by (auto; reflexivity). reflexivity. }
    assert (H69 : ss_has 69 (pre ++ 46 :: frac) = false).
    { rewrite has_app, Hp3. change (ss_has 69 (46 :: frac)) with (N.eqb 69 46 || ss_has 69 frac).
      rewrite (digits_has_not 69 frac) by (auto; reflexivity). reflexivity. }
    unfold ss_guard. rewrite Hgd, Hge, H46, H101, H69. reflexivity. }
  unfold spec_post. rewrite Hg, Hsz, Hfix. cbn [andb]. rewrite rstrip_zero_frac.
  assert (Hd := rstrip_dot_frac pre (ss_rstrip 48 frac) Hp1 (digits_has_not 46 _ Hf' eq_refl)).
  destruct (strip_dot k) eqn:Esd.
  - rewrite Hd. destruct (dot_outside k); [|reflexivity]. rewrite <- Hd. apply rstrip_idem.
  - cbn [orb] in Hdot. rewrite Hdot. exact Hd.
Qed.

Lemma rstrip_last_not c s x : N.eqb x c = false -> ss_rstrip c (s ++ [x]) = s ++ [x].
Proof. intros Hx. rewrite rstrip_app_not by auto. cbn [ss_rstrip]. rewrite Hx. reflexivity. Qed.

(** TEXTS WITH AN EXPONENT are handed on unchanged (the zeros at their end belong to the exponent). *)
Theorem spec_post_exponent k s :
  guard_no_exp k = true -> dot_outside k = false \/ (forall p, s <> p ++ [46]) ->
  ss_has 101 s = true \/ ss_has 69 s = true -> spec_post k s = s.
Proof.
  intros Hg Hdot He. unfold spec_post, ss_guard. rewrite Hg. cbn [negb orb].
  assert (E : ss_has 101 s || ss_has 69 s = true) by (destruct He as [He|He]; rewrite He; auto using Bool.orb_true_r).
  rewrite E. cbn [negb]. rewrite Bool.andb_false_r.
  assert (Hb : (if dot_outside k then ss_rstrip 46 s else s) = s).
  { destruct (dot_outside k); auto. destruct Hdot as [?|Hn]; [discriminate|].
    destruct s as [|a t _] using rev_ind; [reflexivity|].
    apply rstrip_last_not. destruct (N.eqb a 46) eqn:Ea; auto. apply N.eqb_eq in Ea. subst. exfalso. apply (Hn t). reflexivity. }
  rewrite Hb.
  destruct (spec_neg_zero_fix k); auto. cbn [andb].
  destruct s as [|a [|b [|c r]]]; cbn [ss_eq]; auto.
  - rewrite Bool.andb_false_r. reflexivity.
  - destruct (N.eqb a 45) eqn:Ea; cbn [andb]; auto. destruct (N.eqb b 48) eqn:Eb; cbn [andb]; auto.
    apply N.eqb_eq in Ea, Eb. subst. vm_compute in E. discriminate.
  - rewrite !Bool.andb_false_r. reflexivity.
Qed.

(** TEXTS WITHOUT A DOT ("100", "1e+20", "50%") are unchanged as well. *)
Theorem spec_post_no_dot k s :
  guard_dot k = true -> spec_neg_zero_fix k = false -> ss_has 46 s = false -> spec_post k s = s.
Proof.
  intros Hg Hf Hd. unfold spec_post, ss_guard. rewrite Hg, Hf, Hd. cbn [negb orb andb].
  destruct (dot_outside k); auto. apply rstrip_no_c. exact Hd.
Qed.

(** Without the exponent ss_guard (the pinned tree before the repair): "1.5e+20" becomes "1.5e+2". *)
Definition cfg_unguarded : spec_cfg :=
  {| guard_dot := true; guard_no_exp := false; strip_zeros := true; strip_dot := true; dot_outside := false; spec_neg_zero_fix := false |}.
Definition cfg_guarded : spec_cfg :=
  {| guard_dot := true; guard_no_exp := true; strip_zeros := true; strip_dot := true; dot_outside := false; spec_neg_zero_fix := false |}.

Theorem spec_post_unguarded_refuted :
  spec_cfg_ok cfg_unguarded = false /\
  spec_post cfg_unguarded [49; 46; 53; 101; 43; 50; 48] = [49; 46; 53; 101; 43; 50] /\        (* "1.5e+20" -> "1.5e+2" *)
  spec_post cfg_unguarded [48; 46; 48; 101; 43; 48; 48] = [48; 46; 48; 101; 43] /\            (* "0.0e+00" -> "0.0e+" *)
  spec_post cfg_guarded [49; 46; 53; 101; 43; 50; 48] = [49; 46; 53; 101; 43; 50; 48].
Proof. repeat split. Qed.

Example spec_post_examples :
  spec_cfg_ok cfg_guarded = true /\
  spec_post cfg_guarded [49; 48; 48; 46; 48; 48; 48] = [49; 48; 48] /\                        (* "100.000" -> "100" *)
  spec_post cfg_guarded [45; 48; 46; 53; 48] = [45; 48; 46; 53] /\                            (* "-0.50" -> "-0.5" *)
  spec_post cfg_guarded [51; 49; 52; 46; 48; 48; 37] = [51; 49; 52; 46; 48; 48; 37].          (* "314.00%" unchanged *)
Proof. repeat split. Qed.
