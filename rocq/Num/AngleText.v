(** C05 (a)+(c) — the whole text round trip of ONE angle component:

      text  = format_float(self._pitch)              (Num/Dec6.v format6 on the slot, a binary64 double)
      field = the same text, split off by parse_vec_str   (Num/VecText.v parse_decimal)
      y     = float(field)                           (Num/VecTextFloat.v py_float: correctly rounded)
      slot' = y % 360.0 % 360.0                       (Num/Mod360.v double360: Angle.__init__ / FrozenAngle.__new__)

    This file only defines the bridge between the two representations of a double used by the text model (a dyadic
    record: sign, mantissa, exponent) and by the modulo model (Flocq's binary64 record).  Proofs: AngleTextProofs.v. *)
From Coq Require Import ZArith NArith.
From Flocq Require Import Core BinarySingleNaN.
From SV Require Import Num.Mod360 Num.Dec6.

(** the dyadic (sign, mantissa, exponent) of a finite binary64 - exactly what checks/c05.py dbl_parts() hands to the
    format6 correspondence for a Python float *)
Definition dy_of (x : b64) : dyadic :=
  match x with
  | B754_finite s m e _ => {| dneg := s; dm := Npos m; de := e |}
  | B754_zero s => {| dneg := s; dm := 0%N; de := 0%Z |}
  | _ => {| dneg := false; dm := 0%N; de := 0%Z |}
  end.
