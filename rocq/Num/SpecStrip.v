(** C05 (c) — what Vec.__format__ / Angle.__format__ do to ONE component after Python's format(value, spec) ss_has
    produced its text (round 4): under a ss_guard, trailing '0' characters and then a trailing '.' are removed.
    The ss_guard decides which texts are touched; translate/c05_sites.py reads it off the source into a [spec_cfg]
    ([vec_spec_cfg], [angle_spec_cfg] in Gen/AngleSites_gen.v).  Texts are lists of code points.  Definitions only. *)
From Coq Require Import NArith List Bool.
Import ListNotations.
Open Scope N_scope.

Record spec_cfg := {
  guard_dot : bool;        (* touched only if the text contains '.' *)
  guard_no_exp : bool;     (* touched only if the text contains neither 'e' nor 'E' *)
  strip_zeros : bool;      (* .rstrip('0') under the ss_guard *)
  strip_dot : bool;        (* then .rstrip('.') under the ss_guard *)
  dot_outside : bool;      (* .rstrip('.') applied to every text, outside the ss_guard *)
  spec_neg_zero_fix : bool (* '-0' replaced by '0' at the end *)
}.

Definition ss_has (c : N) (s : list N) : bool := existsb (N.eqb c) s.

(** Python's s.rstrip(c) for a single character c *)
Fixpoint ss_rstrip (c : N) (s : list N) : list N :=
  match s with
  | [] => []
  | x :: r => match ss_rstrip c r with
              | [] => if N.eqb x c then [] else [x]
              | r' => x :: r'
              end
  end.

Fixpoint ss_eq (a b : list N) : bool :=
  match a, b with [], [] => true | x :: a', y :: b' => N.eqb x y && ss_eq a' b' | _, _ => false end.

Definition ss_guard (k : spec_cfg) (s : list N) : bool :=
  (negb (guard_dot k) || ss_has 46 s) && (negb (guard_no_exp k) || negb (ss_has 101 s || ss_has 69 s)).

Definition spec_post (k : spec_cfg) (s : list N) : list N :=
  let a := if ss_guard k s
           then (let z := if strip_zeros k then ss_rstrip 48 s else s in if strip_dot k then ss_rstrip 46 z else z)
           else s in
  let b := if dot_outside k then ss_rstrip 46 a else a in
  if spec_neg_zero_fix k && ss_eq b [45; 48] then [48] else b.

(** the ss_guard the property needs: only fixed-point texts lose their trailing zeros, and the dot goes with them *)
Definition spec_cfg_ok (k : spec_cfg) : bool :=
  guard_dot k && guard_no_exp k && strip_zeros k && (strip_dot k || dot_outside k).

Definition ss_is_digit (c : N) : bool := (48 <=? c) && (c <=? 57).
Definition ss_digits (s : list N) : bool := forallb ss_is_digit s.
