(** C05 (a) — Python's float [%] with divisor 360.0 on IEEE binary64, executable on Flocq's
    [BinarySingleNaN] records.  Mirrors CPython's [float_rem] (Objects/floatobject.c):

      mod = fmod(vx, wx);                       (exact, sign of vx)
      if (mod) { if ((wx < 0) != (mod < 0)) mod += wx; }   (one rounded addition)
      else mod = copysign(0.0, wx);             (+0.0 for wx = 360.0)

    [fmod] is exact in IEEE arithmetic; it is computed here with integer arithmetic on the
    mantissa/exponent pair.  This file holds only definitions; proofs are in Mod360Proofs.v. *)
From Coq Require Import ZArith Reals Lia.
From Flocq Require Import Core BinarySingleNaN.
Open Scope Z_scope.

Notation b64 := (binary_float 53 1024).

Lemma Hprec53 : Prec_gt_0 53. Proof. unfold Prec_gt_0; lia. Qed.
Lemma Hemax1024 : Prec_lt_emax 53 1024. Proof. unfold Prec_lt_emax; lia. Qed.
#[global] Existing Instance Hprec53.
#[global] Existing Instance Hemax1024.

(** round-to-nearest-even of the dyadic m·2^e to binary64 *)
Definition norm (m e : Z) : b64 := @binary_normalize 53 1024 Hprec53 Hemax1024 mode_NE m e false.
Definition f360 : b64 := norm 360 0.

(** remainder of the magnitude mx·2^e by 360, as a dyadic (rm, re) with 0 <= rm·2^re < 360 *)
Definition rem360 (mx e : Z) : Z * Z :=
  if 0 <=? e then ((mx * 2 ^ e) mod 360, 0)
  else (mx mod (360 * 2 ^ (- e)), e).

(** exact C fmod(x, 360.0): result has the sign of x; ±0, inf and nan are passed through
    (fmod(inf, 360) is nan in C; non-finite arguments are outside every theorem) *)
Definition fmod360 (x : b64) : b64 :=
  match x with
  | B754_finite s m e _ =>
      let '(rm, re) := rem360 (Z.pos m) e in
      if rm =? 0 then B754_zero s else norm (if s then - rm else rm) re
  | _ => x
  end.

Definition is_neg (x : b64) : bool := match x with B754_finite true _ _ _ => true | _ => false end.
Definition is_zero (x : b64) : bool := match x with B754_zero _ => true | _ => false end.

(** Python: x % 360.0 *)
Definition pymod360 (x : b64) : b64 :=
  let m := fmod360 x in
  if is_zero m then B754_zero false
  else if is_neg m then @Bplus 53 1024 Hprec53 Hemax1024 mode_NE m f360 else m.

(** The two normalisation idioms found in math.py *)
Definition single360 (x : b64) : b64 := pymod360 x.
Definition double360 (x : b64) : b64 := pymod360 (pymod360 x).

(** Interface for the correspondence: doubles as (sign, mantissa, exponent) with value ±m·2^e. *)
Definition mk (s : bool) (m e : Z) : b64 :=
  if m =? 0 then B754_zero s else norm (if s then - m else m) e.
(** canonical output: (0|1 sign, mantissa, exponent); (2,0,0) for inf/nan *)
Definition show (x : b64) : Z * Z * Z :=
  match x with
  | B754_finite s m e _ => (if s then 1 else 0, Z.pos m, e)
  | B754_zero s => (if s then 1 else 0, 0, 0)
  | _ => (2, 0, 0)
  end.

(** -1e-14 = -0x1.6849b86a12b9bp-47 *)
Definition tiny_neg : b64 := mk true 6338253001141147 (-99).
