(** C05 (c) — parse_vec_str (Num/VecText.v) re-reads what format_float wrote: for every formatting pipeline, every
    parsing pipeline accepted by [pcfg_ok], every three dyadics and every bracket / whitespace wrapping, the three
    fields are recognised as plain decimals whose exact values are within 5e-7 of the components. Axiom-free. *)
From Coq Require Import ZArith NArith List Bool Lia ZifyBool.
From SV Require Import Num.Dec6 Num.Dec6Proofs Num.VecText.
Import ListNotations.
Open Scope N_scope.

(** ---------------------------------------------------------------- whitespace *)
Definition all_space (l : list N) : Prop := forallb py_space l = true.
Definition hd_nonspace (l : list N) : Prop := match l with c :: _ => py_space c = false | [] => True end.

Lemma lstrip_spaces a m : all_space a -> hd_nonspace m -> lstrip (a ++ m) = m.
Proof.
  unfold all_space. induction a as [|c a IH]; cbn [app forallb lstrip]; intros Ha Hm.
  - destruct m as [|c r]; [reflexivity|]. cbn [lstrip]. cbn in Hm. rewrite Hm. reflexivity.
  - apply andb_prop in Ha. destruct Ha as [Hc Ha]. rewrite Hc. apply IH; assumption.
Qed.

Lemma all_space_rev a : all_space a -> all_space (rev a).
Proof.
  unfold all_space. rewrite !forallb_forall. intros H x Hx. apply H. apply in_rev. exact Hx.
Qed.

Lemma all_space_app a b : all_space a -> all_space b -> all_space (a ++ b).
Proof. unfold all_space. rewrite forallb_app. intros -> ->. reflexivity. Qed.

(** strip removes exactly the surrounding whitespace of a non-empty core that starts and ends with a non-space *)
Lemma strip_core a m b : all_space a -> all_space b -> m <> [] -> hd_nonspace m -> hd_nonspace (rev m) ->
  strip (a ++ m ++ b) = m.
Proof.
  intros Ha Hb Hne Hm Hr. unfold strip.
  rewrite (lstrip_spaces a (m ++ b) Ha).
  - rewrite rev_app_distr, (lstrip_spaces (rev b) (rev m) (all_space_rev b Hb) Hr). apply rev_involutive.
  - destruct m; [contradiction|exact Hm].
Qed.

(** ---------------------------------------------------------------- split *)
Definition no_space (l : list N) : Prop := forallb (fun c => negb (py_space c)) l = true.

Lemma fields_word w r cur : no_space w -> fields (w ++ r) cur = fields r (rev w ++ cur).
Proof.
  unfold no_space. revert cur. induction w as [|c w IH]; intros cur Hw; cbn [app rev forallb] in *.
  - reflexivity.
  - apply andb_prop in Hw. destruct Hw as [Hc Hw]. apply negb_true_iff in Hc.
    cbn [fields]. rewrite Hc, (IH _ Hw), <- app_assoc. reflexivity.
Qed.

Lemma fields_spaces a r : all_space a -> fields (a ++ r) [] = fields r [].
Proof.
  unfold all_space. induction a as [|c a IH]; cbn [app forallb]; intros Ha; [reflexivity|].
  apply andb_prop in Ha. destruct Ha as [Hc Ha]. cbn [fields]. rewrite Hc. apply IH, Ha.
Qed.

(** a word followed by at least one space *)
Lemma fields_word_sep w sp r : no_space w -> w <> [] -> all_space sp -> sp <> [] ->
  fields (w ++ sp ++ r) [] = w :: fields r [].
Proof.
  intros Hw Hne Hs Hsne. rewrite (fields_word w _ [] Hw), app_nil_r.
  destruct sp as [|c sp]; [contradiction|]. unfold all_space in Hs. cbn [forallb] in Hs.
  apply andb_prop in Hs. destruct Hs as [Hc Hs]. cbn [app fields]. rewrite Hc.
  destruct (rev w) as [|x y] eqn:E.
  - exfalso. apply Hne. rewrite <- (rev_involutive w), E. reflexivity.
  - rewrite <- E, rev_involutive. f_equal. apply fields_spaces, Hs.
Qed.

Lemma fields_last_word w b : no_space w -> w <> [] -> all_space b -> fields (w ++ b) [] = [w].
Proof.
  intros Hw Hne Hb. rewrite (fields_word w _ [] Hw), app_nil_r.
  assert (Hr : rev w <> []) by (intros E; apply Hne; rewrite <- (rev_involutive w), E; reflexivity).
  destruct b as [|c b].
  - cbn [fields]. destruct (rev w) eqn:E; [contradiction|]. rewrite <- E, rev_involutive. reflexivity.
  - unfold all_space in Hb. cbn [forallb] in Hb. apply andb_prop in Hb. destruct Hb as [Hc Hb].
    cbn [fields]. rewrite Hc. destruct (rev w) eqn:E; [contradiction|]. rewrite <- E, rev_involutive.
    f_equal. rewrite <- (app_nil_r b), (fields_spaces b [] Hb). reflexivity.
Qed.

Theorem fields_three a f1 s1 f2 s2 f3 b :
  all_space a -> all_space b -> all_space s1 -> s1 <> [] -> all_space s2 -> s2 <> [] ->
  no_space f1 -> f1 <> [] -> no_space f2 -> f2 <> [] -> no_space f3 -> f3 <> [] ->
  fields (a ++ f1 ++ s1 ++ f2 ++ s2 ++ f3 ++ b) [] = [f1; f2; f3].
Proof.
  intros Ha Hb H1 N1 H2 N2 F1 E1 F2 E2 F3 E3.
  rewrite (fields_spaces a _ Ha), (fields_word_sep f1 s1 _ F1 E1 H1 N1), (fields_word_sep f2 s2 _ F2 E2 H2 N2),
    (fields_last_word f3 b F3 E3 Hb). reflexivity.
Qed.

(** ---------------------------------------------------------------- the printed number *)
Lemma digit_val_ch l : map digit_val (map ch l) = l.
Proof. induction l as [|d r IH]; cbn [map]; [reflexivity|]. rewrite IH. unfold digit_val, ch. f_equal. lia. Qed.

Notation stepd := (fun a d : N => a * 10 + d).
Lemma intval_acc l : forall a, fold_left stepd l a = a * 10 ^ N.of_nat (length l) + fold_left stepd l 0.
Proof.
  induction l as [|d r IH]; intros a; cbn [fold_left length].
  - cbn. lia.
  - rewrite (IH (a * 10 + d)), (IH (0 * 10 + d)), Nat2N.inj_succ, N.pow_succ_r'. lia.
Qed.

Lemma intval_app a b : intval (a ++ b) = intval a * 10 ^ N.of_nat (length b) + intval b.
Proof. unfold intval. rewrite fold_left_app. apply intval_acc. Qed.

(** the fraction digits, read as an integer, scaled to six places *)
Lemma fracval_intval l : forall w, (length l <= w)%nat -> fracval w l = intval l * 10 ^ N.of_nat (w - length l).
Proof.
  induction l as [|d r IH]; intros w Hw.
  - destruct w; reflexivity.
  - destruct w as [|w]; [cbn in Hw; lia|]. cbn [fracval length] in *.
    rewrite (IH w ltac:(lia)). change (d :: r) with ([d] ++ r). rewrite intval_app.
    change (intval [d]) with (0 * 10 + d). replace (S w - S (length r))%nat with (w - length r)%nat by lia.
    assert (E : 10 ^ N.of_nat w = 10 ^ N.of_nat (length r) * 10 ^ N.of_nat (w - length r)).
    { rewrite <- N.pow_add_r. f_equal. lia. }
    rewrite E. lia.
Qed.

Definition dec_of_parts (p : parts) : decimal :=
  (pneg p, intval (pint p ++ pfrac p), length (pfrac p)).

(** parse_decimal inverts render on every well-formed structured result (including "-0") *)
Lemma parse_render p : all_digits (pint p) = true -> all_digits (pfrac p) = true -> pint p <> [] ->
  parse_decimal (render p) = Some (dec_of_parts p).
Proof.
  destruct p as [neg ip fp]. cbn [pint pfrac]. intros Hi Hf Hne.
  rewrite render_eq. cbn [pneg pint pfrac]. unfold dec_of_parts. cbn [pneg pint pfrac].
  set (tail := match fp with [] => [] | _ :: _ => 46 :: map ch fp end).
  assert (Htail : match tail with [] => True | c :: _ => is_digit c = false end).
  { subst tail. destruct fp; [exact I|reflexivity]. }
  assert (Hsplit : (match (if neg then [45] else []) ++ map ch ip ++ tail with
                    | c :: r => if c =? 45 then (true, r) else (false, (if neg then [45] else []) ++ map ch ip ++ tail)
                    | [] => (false, (if neg then [45] else []) ++ map ch ip ++ tail) end) = (neg, map ch ip ++ tail)).
  { destruct neg; [reflexivity|]. cbn [app]. destruct ip as [|d r]; [contradiction|].
    cbn [map app]. cbn [all_digits forallb] in Hi. apply andb_prop in Hi. destruct Hi as [Hd _].
    rewrite (ch_not_minus d Hd). reflexivity. }
  unfold parse_decimal. rewrite Hsplit, (span_digits_app ip tail Hi Htail), nonempty_map.
  replace (nonempty ip) with true by (destruct ip; [contradiction|reflexivity]).
  subst tail. destruct fp as [|f0 fr].
  - rewrite digit_val_ch, app_nil_r. reflexivity.
  - change (46 =? 46) with true. cbv iota.
    rewrite <- (app_nil_r (map ch (f0 :: fr))), (span_digits_app (f0 :: fr) [] Hf I).
    rewrite nonempty_map. cbn [nonempty negb andb].
    rewrite <- map_app, digit_val_ch, map_length. reflexivity.
Qed.

(** value of the decoded decimal, scaled to six places = the value of the structured result *)
Lemma dec_of_parts_scaled p : (length (pfrac p) <= 6)%nat ->
  intval (pint p ++ pfrac p) * 10 ^ N.of_nat (6 - length (pfrac p)) = scaled_value p.
Proof.
  intros Hl. unfold scaled_value. rewrite intval_app, (fracval_intval (pfrac p) 6 Hl).
  assert (E : 1000000 = 10 ^ N.of_nat (length (pfrac p)) * 10 ^ N.of_nat (6 - length (pfrac p))).
  { rewrite <- N.pow_add_r. replace (N.of_nat (length (pfrac p)) + N.of_nat (6 - length (pfrac p))) with 6 by lia. reflexivity. }
  rewrite E. lia.
Qed.

(** facts about fmt_parts for EVERY configuration *)
Lemma frac_of_facts c x : all_digits (frac_of c x) = true /\ (length (frac_of c x) <= 6)%nat.
Proof.
  unfold frac_of. destruct (strips c).
  - split; [apply rstrip0_all_digits, fixed_all_digits|].
    pose proof (rstrip0_length (fixed 6 (scaled6 x mod 1000000))) as L. rewrite fixed_length in L. exact L.
  - split; [apply fixed_all_digits|]. rewrite fixed_length. lia.
Qed.

Lemma fmt_parts_wf c x : all_digits (pint (fmt_parts c x)) = true /\ all_digits (pfrac (fmt_parts c x)) = true /\
  pint (fmt_parts c x) <> [] /\ (length (pfrac (fmt_parts c x)) <= 6)%nat.
Proof.
  destruct (fmt_parts_fields c x) as [-> ->]. destruct (frac_of_facts c x) as [F1 F2].
  destruct (to_digits_shape (scaled6 x / 1000000)) as (D1 & D2 & _).
  repeat split; auto. intros E. rewrite E in D2. discriminate.
Qed.

(** the printed sign agrees with the sign of x unless the printed value is zero *)
Lemma sign_flag_eq c x : scaled6 x <> 0 -> sign_flag c x = dneg x.
Proof.
  intros E. unfold sign_flag. destruct (adds_zero c); [|reflexivity].
  destruct (N.eqb_spec (dm x) 0) as [Hm|Hm]; [|cbn; apply andb_true_r].
  exfalso. apply E. unfold scaled6, num_den. rewrite Hm. destruct (0 <=? de x)%Z; cbn [N.mul]; [reflexivity|].
  assert (0 < 2 ^ Z.to_N (- de x)) by (apply N.neq_0_lt_0, N.pow_nonzero; lia).
  unfold round_half_even. rewrite N.div_0_l, N.mod_0_l by lia.
  destruct (N.compare_spec (2 * 0) (2 ^ Z.to_N (- de x))); try reflexivity; lia.
Qed.

Lemma fmt_parts_sign c x : pneg (fmt_parts c x) = dneg x \/ scaled6 x = 0.
Proof.
  destruct (N.eq_dec (scaled6 x) 0) as [E|E]; [right; exact E|left].
  pose proof (is_zero_parts_scaled c x) as Z. rewrite <- (sign_flag_eq c x E).
  unfold fmt_parts in *. cbv zeta in *. fold (sign_flag c x) in *.
  match goal with |- context [if ?b then _ else _] => destruct b eqn:B end; [|reflexivity].
  exfalso. apply E, Z. apply andb_prop in B. destruct B as [_ B]. exact B.
Qed.

(** every field written by format_float is decoded to a decimal within 5e-7 of the number formatted —
    for every configuration and every input, the carved-out "-0" included *)
Theorem parse_format6 c x : exists d, parse_decimal (format6 c x) = Some d /\ within_5e7 d x.
Proof.
  destruct (fmt_parts_wf c x) as (Hi & Hf & Hne & Hl).
  exists (dec_of_parts (fmt_parts c x)). split; [apply parse_render; assumption|].
  unfold within_5e7, dec_of_parts. split; [exact Hl|].
  rewrite (dec_of_parts_scaled _ Hl), format6_value.
  destruct (scaled6_error x) as [Hd He].
  destruct (fmt_parts_sign c x) as [-> | Ez].
  - unfold sgn. destruct (dneg x); lia.
  - rewrite Ez in *. unfold sgn. destruct (pneg (fmt_parts c x)), (dneg x); lia.
Qed.

(** ---------------------------------------------------------------- characters of a printed number *)
Lemma numchar_render p : all_digits (pint p) = true -> all_digits (pfrac p) = true -> forallb numchar (render p) = true.
Proof.
  intros Hi Hf. rewrite render_eq, !forallb_app.
  assert (D : forall l, all_digits l = true -> forallb numchar (map ch l) = true).
  { induction l as [|d r IH]; cbn [map forallb all_digits]; [reflexivity|]. fold (all_digits r).
    intros H. apply andb_prop in H. destruct H as [Hd Hr]. rewrite (IH Hr). unfold numchar.
    rewrite (is_digit_ch d Hd). reflexivity. }
  rewrite (D _ Hi). destruct (pneg p); destruct (pfrac p) eqn:E; cbn [forallb andb]; try reflexivity;
    try (rewrite <- E in *; rewrite (D _ Hf)); reflexivity.
Qed.

Lemma format6_numchars c x : forallb numchar (format6 c x) = true /\ format6 c x <> [].
Proof.
  destruct (fmt_parts_wf c x) as (Hi & Hf & Hne & _). split; [apply numchar_render; assumption|].
  unfold format6. rewrite render_eq. destruct (pneg (fmt_parts c x)); [discriminate|].
  destruct (pint (fmt_parts c x)); [contradiction|discriminate].
Qed.

Lemma numchar_not_space c : numchar c = true -> py_space c = false.
Proof. unfold numchar, is_digit, py_space. lia. Qed.

Lemma numchars_no_space l : forallb numchar l = true -> no_space l.
Proof.
  unfold no_space. rewrite !forallb_forall. intros H c Hc. rewrite (numchar_not_space c (H c Hc)). reflexivity.
Qed.

(** ---------------------------------------------------------------- brackets *)
Lemma pcfg_ok_facts pc : pcfg_ok pc = true -> strips_ws pc = true /\
  (forall c, In c (opens pc ++ closes pc) -> numchar c = false /\ py_space c = false).
Proof.
  unfold pcfg_ok. intros H. repeat (apply andb_prop in H; destruct H as [H ?]). split; [assumption|].
  intros c Hc. rewrite forallb_forall in H0. specialize (H0 c Hc). apply andb_prop in H0.
  destruct H0 as [A B]. apply negb_true_iff in A, B. auto.
Qed.

Lemma mem_in c l : mem c l = true <-> In c l.
Proof.
  unfold mem. rewrite existsb_exists. split.
  - intros (y & Hy & E). apply N.eqb_eq in E. subst. exact Hy.
  - intros H. exists c. split; [exact H|apply N.eqb_refl].
Qed.

Lemma mem_numchar pc c : (forall c, In c (opens pc ++ closes pc) -> numchar c = false /\ py_space c = false) ->
  numchar c = true -> mem c (opens pc) = false /\ mem c (closes pc) = false.
Proof.
  intros H Hc. split; apply not_true_is_false; intros M; apply mem_in in M.
  - destruct (H c (in_or_app _ _ c (or_introl M))) as [E _]. congruence.
  - destruct (H c (in_or_app _ _ c (or_intror M))) as [E _]. congruence.
Qed.

(** an optional bracket *)
Definition opt_bracket (set b : list N) : Prop := b = [] \/ exists c, b = [c] /\ In c set.

(** head-of-list predicates *)
Definition hdP (P : N -> Prop) (l : list N) : Prop := match l with c :: _ => P c | [] => True end.

Lemma hdP_app P l r : l <> [] -> hdP P l -> hdP P (l ++ r).
Proof. destruct l; [contradiction|]. intros _ H. exact H. Qed.

Lemma hdP_imp (P Q : N -> Prop) l : (forall c, P c -> Q c) -> hdP P l -> hdP Q l.
Proof. destruct l; [auto|]. intros H. apply H. Qed.

Lemma hd_nonspace_hdP l : hdP (fun c => py_space c = false) l -> hd_nonspace l.
Proof. destruct l; auto. Qed.

Lemma drop_open_nomem ops s : hdP (fun c => mem c ops = false) s -> drop_open ops s = s.
Proof. destruct s as [|c r]; [reflexivity|]. cbn. intros ->. reflexivity. Qed.

Lemma drop_open_mem ops c r : mem c ops = true -> drop_open ops (c :: r) = r.
Proof. cbn. intros ->. reflexivity. Qed.

Lemma drop_close_nomem cls s : hdP (fun c => mem c cls = false) (rev s) -> drop_close cls s = s.
Proof.
  unfold drop_close. destruct (rev s) as [|c r] eqn:E.
  - intros _. rewrite <- (rev_involutive s), E. reflexivity.
  - cbn. intros ->. reflexivity.
Qed.

Lemma drop_close_mem cls r c : mem c cls = true -> drop_close cls (r ++ [c]) = r.
Proof. unfold drop_close. rewrite rev_app_distr. cbn [rev app]. intros ->. apply rev_involutive. Qed.

Lemma numchars_hd l : forallb numchar l = true -> hdP (fun c => numchar c = true) l.
Proof. destruct l as [|c r]; [exact (fun _ => I)|]. cbn [forallb hdP]. intros H. apply andb_prop in H. tauto. Qed.

Lemma numchars_last l : forallb numchar l = true -> hdP (fun c => numchar c = true) (rev l).
Proof.
  intros H. apply numchars_hd. rewrite forallb_forall in *. intros c Hc. apply H, in_rev, Hc.
Qed.

Lemma rev_nonnil (l : list N) : l <> [] -> rev l <> [].
Proof. intros H E. apply H. rewrite <- (rev_involutive l), E. reflexivity. Qed.

Section RoundTrip.
  Variable pc : parse_cfg.
  Hypothesis OK : pcfg_ok pc = true.
  Variables f1 f2 f3 : list N.
  Hypothesis N1 : forallb numchar f1 = true. Hypothesis E1 : f1 <> [].
  Hypothesis N2 : forallb numchar f2 = true. Hypothesis E2 : f2 <> [].
  Hypothesis N3 : forallb numchar f3 = true. Hypothesis E3 : f3 <> [].
  Variables ws1 ob wa s1 s2 wb cb ws2 : list N.
  Hypothesis Hws1 : all_space ws1. Hypothesis Hwa : all_space wa. Hypothesis Hwb : all_space wb. Hypothesis Hws2 : all_space ws2.
  Hypothesis Hs1 : all_space s1. Hypothesis Hs1n : s1 <> []. Hypothesis Hs2 : all_space s2. Hypothesis Hs2n : s2 <> [].
  Hypothesis Hob : opt_bracket (opens pc) ob.
  Hypothesis Hcb : opt_bracket (closes pc) cb.

  (** what the three numbers and their separators look like from outside: non-empty, first and last character
      are number characters *)
  Lemma core_ends : let F := f1 ++ s1 ++ f2 ++ s2 ++ f3 in
    F <> [] /\ hdP (fun c => numchar c = true) F /\ hdP (fun c => numchar c = true) (rev F).
  Proof.
    cbv zeta. split; [|split].
    - destruct f1; [contradiction|discriminate].
    - apply hdP_app; [assumption|apply numchars_hd, N1].
    - rewrite !rev_app_distr, <- !app_assoc. apply hdP_app; [apply rev_nonnil, E3|apply numchars_last, N3].
  Qed.

  (** the string handed to split() *)
  Lemma debracket : forall F, F <> [] -> hdP (fun c => numchar c = true) F -> hdP (fun c => numchar c = true) (rev F) ->
    exists a b, all_space a /\ all_space b /\
      drop_close (closes pc) (drop_open (opens pc) (strip (ws1 ++ ob ++ wa ++ F ++ wb ++ cb ++ ws2))) = a ++ F ++ b.
  Proof.
    intros F Fne Fh Fl.
    destruct (pcfg_ok_facts pc OK) as [_ HB].
    assert (Hop : forall c, numchar c = true -> mem c (opens pc) = false) by (intros c Hc; apply (mem_numchar pc c HB Hc)).
    assert (Hcl : forall c, numchar c = true -> mem c (closes pc) = false) by (intros c Hc; apply (mem_numchar pc c HB Hc)).
    assert (Fh_sp : hd_nonspace F) by (apply hd_nonspace_hdP; revert Fh; apply hdP_imp, numchar_not_space).
    assert (Fl_sp : hd_nonspace (rev F)) by (apply hd_nonspace_hdP; revert Fl; apply hdP_imp, numchar_not_space).
    assert (Fh_op : hdP (fun c => mem c (opens pc) = false) F) by (revert Fh; apply hdP_imp, Hop).
    assert (Fl_cl : hdP (fun c => mem c (closes pc) = false) (rev F)) by (revert Fl; apply hdP_imp, Hcl).
    assert (Enil : all_space []) by reflexivity.
    destruct Hob as [-> | (o & -> & Ho)], Hcb as [-> | (c & -> & Hc)].
    - (* no brackets *)
      exists [], []. repeat split; auto.
      replace (ws1 ++ [] ++ wa ++ F ++ wb ++ [] ++ ws2) with ((ws1 ++ wa) ++ F ++ (wb ++ ws2))
        by (cbn [app]; rewrite <- !app_assoc; reflexivity).
      rewrite (strip_core (ws1 ++ wa) F (wb ++ ws2) (all_space_app _ _ Hws1 Hwa) (all_space_app _ _ Hwb Hws2) Fne Fh_sp Fl_sp).
      rewrite (drop_open_nomem _ _ Fh_op), (drop_close_nomem _ _ Fl_cl). cbn [app]. rewrite app_nil_r. reflexivity.
    - (* closing bracket only *)
      destruct (HB c (in_or_app _ _ c (or_intror Hc))) as [_ Sc].
      exists [], wb. repeat split; auto.
      replace (ws1 ++ [] ++ wa ++ F ++ wb ++ [c] ++ ws2) with ((ws1 ++ wa) ++ (F ++ wb ++ [c]) ++ ws2)
        by (cbn [app]; rewrite <- !app_assoc; reflexivity).
      assert (M1 : F ++ wb ++ [c] <> []) by (destruct F; [contradiction|discriminate]).
      assert (M2 : hd_nonspace (F ++ wb ++ [c])).
      { apply hd_nonspace_hdP. apply hdP_app; [assumption|]. revert Fh. apply hdP_imp, numchar_not_space. }
      assert (M3 : hd_nonspace (rev (F ++ wb ++ [c]))) by (rewrite !rev_app_distr; cbn [rev app]; exact Sc).
      rewrite (strip_core (ws1 ++ wa) _ ws2 (all_space_app _ _ Hws1 Hwa) Hws2 M1 M2 M3).
      rewrite drop_open_nomem by (apply hdP_app; assumption).
      replace (F ++ wb ++ [c]) with ((F ++ wb) ++ [c]) by (rewrite <- app_assoc; reflexivity).
      apply mem_in in Hc. rewrite (drop_close_mem _ _ _ Hc). reflexivity.
    - (* opening bracket only *)
      destruct (HB o (in_or_app _ _ o (or_introl Ho))) as [_ So].
      exists wa, []. repeat split; auto.
      replace (ws1 ++ [o] ++ wa ++ F ++ wb ++ [] ++ ws2) with (ws1 ++ ([o] ++ wa ++ F) ++ (wb ++ ws2))
        by (cbn [app]; rewrite <- !app_assoc; reflexivity).
      assert (M1 : [o] ++ wa ++ F <> []) by discriminate.
      assert (M2 : hd_nonspace ([o] ++ wa ++ F)) by exact So.
      assert (M3 : hd_nonspace (rev ([o] ++ wa ++ F))).
      { apply hd_nonspace_hdP. rewrite app_assoc, rev_app_distr.
        apply hdP_app; [apply rev_nonnil, Fne|]. revert Fl. apply hdP_imp, numchar_not_space. }
      rewrite (strip_core ws1 _ (wb ++ ws2) Hws1 (all_space_app _ _ Hwb Hws2) M1 M2 M3).
      cbn [app]. apply mem_in in Ho. rewrite (drop_open_mem _ _ _ Ho).
      rewrite drop_close_nomem; [rewrite app_nil_r; reflexivity|].
      rewrite rev_app_distr. apply hdP_app; [apply rev_nonnil, Fne|exact Fl_cl].
    - (* both brackets *)
      destruct (HB o (in_or_app _ _ o (or_introl Ho))) as [_ So].
      destruct (HB c (in_or_app _ _ c (or_intror Hc))) as [_ Sc].
      exists wa, wb. repeat split; auto.
      replace (ws1 ++ [o] ++ wa ++ F ++ wb ++ [c] ++ ws2) with (ws1 ++ ([o] ++ wa ++ F ++ wb ++ [c]) ++ ws2)
        by (cbn [app]; rewrite <- !app_assoc; reflexivity).
      assert (M1 : [o] ++ wa ++ F ++ wb ++ [c] <> []) by discriminate.
      assert (M2 : hd_nonspace ([o] ++ wa ++ F ++ wb ++ [c])) by exact So.
      assert (M3 : hd_nonspace (rev ([o] ++ wa ++ F ++ wb ++ [c]))).
      { replace ([o] ++ wa ++ F ++ wb ++ [c]) with (([o] ++ wa ++ F ++ wb) ++ [c]) by (rewrite <- !app_assoc; reflexivity).
        rewrite rev_app_distr. cbn [rev app]. exact Sc. }
      rewrite (strip_core ws1 _ ws2 Hws1 Hws2 M1 M2 M3).
      cbn [app]. apply mem_in in Ho. rewrite (drop_open_mem _ _ _ Ho).
      replace (wa ++ F ++ wb ++ [c]) with ((wa ++ F ++ wb) ++ [c]) by (rewrite <- !app_assoc; reflexivity).
      apply mem_in in Hc. rewrite (drop_close_mem _ _ _ Hc). reflexivity.
  Qed.

  Theorem parse_vec_fields :
    parse_vec pc (ws1 ++ ob ++ wa ++ f1 ++ s1 ++ f2 ++ s2 ++ f3 ++ wb ++ cb ++ ws2)
      = PFields (parse_decimal f1) (parse_decimal f2) (parse_decimal f3).
  Proof.
    destruct (pcfg_ok_facts pc OK) as [Hst _].
    destruct core_ends as (Fne & Fh & Fl).
    destruct (debracket _ Fne Fh Fl) as (a & b & Ha & Hb & E).
    unfold parse_vec. rewrite Hst.
    replace (ws1 ++ ob ++ wa ++ f1 ++ s1 ++ f2 ++ s2 ++ f3 ++ wb ++ cb ++ ws2)
      with (ws1 ++ ob ++ wa ++ (f1 ++ s1 ++ f2 ++ s2 ++ f3) ++ wb ++ cb ++ ws2) by (rewrite <- !app_assoc; reflexivity).
    rewrite E.
    replace (a ++ (f1 ++ s1 ++ f2 ++ s2 ++ f3) ++ b) with (a ++ f1 ++ s1 ++ f2 ++ s2 ++ f3 ++ b) by (rewrite <- !app_assoc; reflexivity).
    rewrite fields_three; auto using numchars_no_space.
  Qed.
End RoundTrip.

(** THE ROUND TRIP: parse_vec_str applied to the text of a vector or angle — in any of the bracket styles, with
    any surrounding / inner whitespace and any non-empty whitespace between the numbers — yields three decimals
    each within 5e-7 of the component that was formatted. *)
Theorem parse_format_vec : forall pc c x y z ws1 ob wa s1 s2 wb cb ws2,
  pcfg_ok pc = true ->
  all_space ws1 -> all_space wa -> all_space wb -> all_space ws2 ->
  all_space s1 -> s1 <> [] -> all_space s2 -> s2 <> [] ->
  opt_bracket (opens pc) ob -> opt_bracket (closes pc) cb ->
  exists dx dy dz,
    parse_vec pc (ws1 ++ ob ++ wa ++ format6 c x ++ s1 ++ format6 c y ++ s2 ++ format6 c z ++ wb ++ cb ++ ws2)
      = PFields (Some dx) (Some dy) (Some dz) /\
    within_5e7 dx x /\ within_5e7 dy y /\ within_5e7 dz z.
Proof.
  intros pc c x y z ws1 ob wa s1 s2 wb cb ws2 OK H1 H2 H3 H4 H5 H6 H7 H8 H9 H10.
  destruct (parse_format6 c x) as (dx & Px & Wx). destruct (parse_format6 c y) as (dy & Py & Wy).
  destruct (parse_format6 c z) as (dz & Pz & Wz).
  destruct (format6_numchars c x) as [Nx Ex]. destruct (format6_numchars c y) as [Ny Ey].
  destruct (format6_numchars c z) as [Nz Ez].
  exists dx, dy, dz. split; [|auto].
  rewrite (parse_vec_fields pc OK _ _ _ Nx Ex Ny Ey Nz Ez ws1 ob wa s1 s2 wb cb ws2); auto.
  rewrite Px, Py, Pz. reflexivity.
Qed.

(** str(vec) itself, bare *)
Corollary parse_str_vec : forall pc c x y z, pcfg_ok pc = true ->
  exists dx dy dz, parse_vec pc (vec_text c x y z) = PFields (Some dx) (Some dy) (Some dz) /\
    within_5e7 dx x /\ within_5e7 dy y /\ within_5e7 dz z.
Proof.
  intros pc c x y z OK.
  destruct (parse_format_vec pc c x y z [] [] [] [32] [32] [] [] [] OK) as (dx & dy & dz & E & W);
    try reflexivity; try discriminate; try (left; reflexivity).
  exists dx, dy, dz. split; [|exact W]. unfold vec_text. cbn [app] in E. rewrite app_nil_r in E. exact E.
Qed.

(** with the documented bracket sets accepted, every documented bracket is an [opt_bracket] of the theorem *)
Lemma documented_open pc c : accepts_documented_brackets pc = true -> In c [40; 123; 91; 60] -> opt_bracket (opens pc) [c].
Proof.
  unfold accepts_documented_brackets. intros H Hc. apply andb_prop in H. destruct H as [H _].
  rewrite forallb_forall in H. right. exists c. split; [reflexivity|]. apply mem_in, H, Hc.
Qed.
Lemma documented_close pc c : accepts_documented_brackets pc = true -> In c [41; 125; 93; 62] -> opt_bracket (closes pc) [c].
Proof.
  unfold accepts_documented_brackets. intros H Hc. apply andb_prop in H. destruct H as [_ H].
  rewrite forallb_forall in H. right. exists c. split; [reflexivity|]. apply mem_in, H, Hc.
Qed.

(** the documented forms "(x y z)", "{x y z}", "[x y z]", "<x y z>" (mixed pairs too) of str(vec) *)
Corollary parse_bracketed_vec : forall pc c x y z o cl, pcfg_ok pc = true -> accepts_documented_brackets pc = true ->
  In o [40; 123; 91; 60] -> In cl [41; 125; 93; 62] ->
  exists dx dy dz, parse_vec pc ([o] ++ vec_text c x y z ++ [cl]) = PFields (Some dx) (Some dy) (Some dz) /\
    within_5e7 dx x /\ within_5e7 dy y /\ within_5e7 dz z.
Proof.
  intros pc c x y z o cl OK D Ho Hcl.
  destruct (parse_format_vec pc c x y z [] [o] [] [32] [32] [] [cl] [] OK) as (dx & dy & dz & E & W);
    try reflexivity; try discriminate; [apply documented_open; assumption|apply documented_close; assumption|].
  exists dx, dy, dz. split; [|exact W]. rewrite <- E. f_equal. unfold vec_text. cbn [app].
  f_equal. rewrite <- !app_assoc. cbn [app]. rewrite <- !app_assoc. cbn [app]. reflexivity.
Qed.

(** the source's configuration satisfies the premise; the statement is not vacuous *)
Example pcfg_source_ok : pcfg_ok cfg_source_brackets = true /\ accepts_documented_brackets cfg_source_brackets = true.
Proof. split; reflexivity. Qed.

Example parse_example :
  parse_vec cfg_source_brackets [32; 40; 45; 48; 32; 49; 46; 53; 32; 32; 55; 50; 53; 46; 53; 41; 10]
  = PFields (Some (true, 0, O)) (Some (false, 15, 1%nat)) (Some (false, 7255, 1%nat)).
Proof. vm_compute. reflexivity. Qed.

(** necessary: without strip() a leading space before the bracket breaks the parse; with a bracket set that
    contains a digit a number is eaten *)
Theorem parse_nostrip_refuted :
  parse_vec {| strips_ws := false; opens := [40]; closes := [41]; splits_ws := true; uses_float := true |} [32; 40; 49; 32; 50; 32; 51; 41]
  = PFields None (Some (false, 2, O)) (Some (false, 3, O)).
Proof. vm_compute. reflexivity. Qed.
