#!/venv/bin/python
"""Regenerate the generated parts of DESIGN.md section 11 (per-property status 11.2, seeded-fault table 11.4) from the files that are
the source of truth: MANIFEST.json (technique, level text, trusted-base note), rocq/Props/CNN.v (theorem names), translate/ (translators),
known_findings.d/CNN.json (repaired and recorded defects), evidence/CNN.json (obligation counts, axioms), seeded/<id>/{meta,result}.json.

The text between `<!-- BEGIN GENERATED name -->` and `<!-- END GENERATED name -->` is replaced; everything else in DESIGN.md is
hand-written and left alone.  usage: PYTHONPATH=/verif /venv/bin/python tools/mkdesign11.py
"""
import glob
import json
import os
import re
import textwrap

ROOT = '/verif'


def wrap(s: str, ind: str = '') -> str:
    return '\n'.join(textwrap.wrap(s, 118, initial_indent=ind, subsequent_indent=ind, break_long_words=False, break_on_hyphens=False))


def theorems(pid: str) -> tuple[list[str], list[str]]:
    src = open(f'{ROOT}/rocq/Props/{pid}.v').read()
    names = re.findall(r'^\s*(?:Theorem|Corollary|Example|Lemma)\s+([A-Za-z0-9_\']+)', src, re.M)
    ref = [n for n in names if 'refuted' in n]
    return [n for n in names if 'refuted' not in n], ref


def per_property() -> str:
    m = json.load(open(f'{ROOT}/MANIFEST.json'))
    out = []
    for c in m['checks']:
        pid = c['property_id']
        low = pid.lower()
        th, ref = theorems(pid)
        tr = sorted(os.path.basename(f) for f in glob.glob(f'{ROOT}/translate/{low}_*.py'))
        if pid == 'C03':
            tr = ['c02_tables.py (shared with C02)']
        kf = json.load(open(f'{ROOT}/known_findings.d/{pid}.json')) if os.path.exists(f'{ROOT}/known_findings.d/{pid}.json') else {}
        ev = json.load(open(f'{ROOT}/evidence/{pid}.json')) if os.path.exists(f'{ROOT}/evidence/{pid}.json') else {}
        out.append(f'#### {pid} — built, claimed as `{c["level_claimed"]["category"]}`\n')
        out.append(wrap('*Deciding method.* ' + c['technique']) + '\n')
        out.append(wrap('*What is proved and how it is tied.* ' + c['level_claimed']['text']) + '\n')
        out.append(wrap('*Trusted / not covered.* ' + c['level_note']) + '\n')
        out.append(wrap(f'*Statements in `rocq/Props/{pid}.v`* ({len(th)} theorems and examples, {len(ref)} refutation witnesses): '
                        + ', '.join(f'`{n}`' for n in th) + ('; refuted variants (what the property would be for the defective code shapes): '
                                                              + ', '.join(f'`{n}`' for n in ref) if ref else '') + '.') + '\n')
        out.append(wrap('*Translators (re-run on every check):* ' + (', '.join(f'`translate/{t}`' for t in tr) or 'none')
                        + '. *Check:* `checks/' + low + '.py`' + (f', helpers `harness/{low}_util.py`' if os.path.exists(f'{ROOT}/harness/{low}_util.py') else '')
                        + (f'. *Builder notes with the full theorem-by-theorem description, generator limits and the mutations tried:* `docs/{pid}.md`'
                           if os.path.exists(f'{ROOT}/docs/{pid}.md') else '') + '.') + '\n')
        fx = kf.get('fixed', [])
        if fx:
            out.append(f'*Genuine defects repaired in /repo ({len(fx)} `fix:` commits):*\n')
            for l in fx:
                mm = re.match(rf'fixed: property={pid} (\S+) (.*)', l)
                out.append(wrap(f'`{mm.group(1)}` {mm.group(2)}' if mm else l, '  * ').replace('  * ', '  * ', 1))
            out.append('')
        kn = kf.get('known', [])
        if kn:
            out.append(f'*Recorded, not repaired ({len(kn)} known findings; the check prints `KNOWN-FINDING` for exactly these keys):*\n')
            for k in kn:
                out.append(wrap(f'`{k["key"]}` — {k["what"]}', '  * '))
            out.append('')
        else:
            out.append('*Recorded, not repaired:* none.\n')
    return '\n'.join(out)


def seeded() -> str:
    rows = ['| id | property | what the change does | needs, to manifest | result of `./check` (quick tier) |', '|---|---|---|---|---|']
    for d in sorted(glob.glob(f'{ROOT}/seeded/*/')):
        sid = os.path.basename(d.rstrip('/'))
        if not os.path.exists(d + 'meta.json'):
            continue
        meta = json.load(open(d + 'meta.json'))
        res = json.load(open(d + 'result.json')) if os.path.exists(d + 'result.json') else {}
        pids = meta['property'] if isinstance(meta['property'], list) else [meta['property']]
        cells = []
        for p, v in res.get('checks', {}).items():
            if v.get('caught'):
                keys = []
                for l in v.get('lines', []):
                    mm = re.match(r'VIOLATION property=\S+ replay=\S*/' + p + r'_(.*?)_[0-9a-f]{10}\.json(.*)', l)
                    if mm:
                        keys.append(mm.group(1) + (' (no-failing-input-found)' if 'no-failing-input-found' in mm.group(2) else ''))
                cells.append('caught: ' + '; '.join(dict.fromkeys(keys))[:260])
            else:
                cells.append(f'**missed** (exit {v.get("exit")})')
        note = meta.get('caught_by_note', '')
        if meta.get('void_since'):
            vs = meta['void_since']
            cells = [f'no longer a fault since the repair `{vs["repo_commit"]}`: ' + vs['why']]
        if meta.get('wave'):
            sid_w = f'{sid} (w{meta["wave"]})'
        else:
            sid_w = f'{sid} (w1)'
        def clip(s, n):
            s = ' '.join(str(s).split()).replace('|', '\\|')
            return s if len(s) <= n else s[:n - 1] + '…'
        rows.append(f'| {sid_w} | {",".join(pids)} | {clip(meta.get("title", ""), 200)} | {clip(meta.get("needs", ""), 260)} | '
                    f'{clip(" / ".join(cells) or "not run", 700 if meta.get("void_since") else 300)}{(" — " + clip(note, 300)) if note else ""} |')
    return '\n'.join(rows) + '\n'


def harmless() -> str:
    rows = ['| id | property | kind | what was rewritten | result of `./check` (quick tier; wanted: exit 0) |', '|---|---|---|---|---|']
    n = alarms = 0
    for d in sorted(glob.glob(f'{ROOT}/harmless/*/')):
        sid = os.path.basename(d.rstrip('/'))
        if not os.path.exists(d + 'meta.json'):
            continue
        meta = json.load(open(d + 'meta.json'))
        res = json.load(open(d + 'result.json')) if os.path.exists(d + 'result.json') else {}
        pids = meta['property'] if isinstance(meta['property'], list) else [meta['property']]
        cells = []
        for p, v in res.get('checks', {}).items():
            n += 1
            if v.get('exit') == 0:
                cells.append('exit 0, no alarm')
            else:
                alarms += 1
                kinds = 'no-failing-input-found only' if not v.get('with_input') else 'VIOLATION WITH INPUT (to be investigated)'
                cells.append(f'alarm: {kinds}')
        clip = lambda s, k: (lambda t: t if len(t) <= k else t[:k - 1] + '…')(' '.join(str(s).split()).replace('|', '\\|'))
        rows.append(f'| {sid} | {",".join(pids)} | {clip(meta.get("kind", ""), 40)} | {clip(meta.get("title", meta.get("what", "")), 220)} | {" / ".join(cells) or "not run"} |')
    rows.append('')
    rows.append(f'{n - alarms} of {n} refactorings pass silently; {alarms} raise an alarm of the no-failing-input-found kind.')
    return '\n'.join(rows) + '\n'


def axioms() -> str:
    rows = ['| property | axioms reported by `Print Assumptions` over all theorems of `Props/CNN.v` (from `evidence/CNN.json`) | obligations discharged | tier of that run |', '|---|---|---|---|']
    for f in sorted(glob.glob(f'{ROOT}/evidence/C*.json')):
        e = json.load(open(f))
        tb = e['coverage'].get('trusted_base', [])
        ax = next((t.split(':', 1)[1].strip() for t in tb if t.startswith('axioms reported')), 'not recorded')
        rows.append(f'| {e["property_id"]} | {ax} | {e["coverage"].get("discharged")}/{e["coverage"].get("obligations")} | {e["tier"]} |')
    return '\n'.join(rows) + '\n'


def main() -> None:
    p = f'{ROOT}/DESIGN.md'
    s = open(p).read()
    for name, fn in (('11.2', per_property), ('11.4', seeded), ('11.5', axioms), ('11.6', harmless)):
        b, e = f'<!-- BEGIN GENERATED {name} -->', f'<!-- END GENERATED {name} -->'
        assert b in s and e in s, name
        s = s[:s.index(b) + len(b)] + '\n' + fn() + '\n' + s[s.index(e):]
    open(p, 'w').write(s)
    print('DESIGN.md section 11 regenerated')


if __name__ == '__main__':
    main()
