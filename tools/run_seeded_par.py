#!/venv/bin/python
"""Run the registered checks against seeded faults in parallel, each in a private copy of /verif and a private worktree of /repo.

usage: tools/run_seeded_par.py [--tier quick|thorough] [--jobs N] [--src DIR] [id ...]

Same outcome record as tools/run_seeded.py (seeded/<id>/result.json), but nothing touches /repo's working tree or /verif's build tree:
for each fault a scratch directory /var/tmp/sv/<id>/ holds `verif` (rsync of /verif with its built rocq/ tree) and `repo` (a detached
git worktree of /repo HEAD with patch.diff applied); the check runs with VERIF_ROOT/VERIF_REPO pointing there. Scratch is removed
afterwards. --src DIR reads candidate faults from DIR/<id>/ instead of /verif/seeded (used to vet new candidates before keeping them);
results are then written next to the candidate.
"""
from __future__ import annotations

import json
import os
import shutil
import subprocess
import sys
import time
from concurrent.futures import ThreadPoolExecutor
from pathlib import Path

VERIF = Path('/verif')
REPO = '/repo'
SCR = Path('/var/tmp/sv')


def sh(cmd, **kw):
    return subprocess.run(cmd, capture_output=True, text=True, **kw)


def demo(d: Path, repo: str) -> tuple[int, str]:
    env = dict(os.environ, PYTHONPATH=f'{repo}/src:{VERIF}/shim', PYTHONHASHSEED='0', PYTHONDONTWRITEBYTECODE='1')
    try:
        r = sh(['/venv/bin/python', str(d / 'demo.py')], env=env, timeout=600, cwd='/var/tmp')
    except subprocess.TimeoutExpired:
        return 124, 'timeout'
    return r.returncode, (r.stdout + r.stderr)[-400:]


def one(sid: str, src: Path, tier: str) -> dict:
    d = src / sid
    meta = json.loads((d / 'meta.json').read_text())
    pids = meta['property'] if isinstance(meta['property'], list) else [meta['property']]
    res: dict = {'id': sid, 'property': pids, 'tier': tier, 'repo_head': sh(['git', '-C', REPO, 'rev-parse', '--short', 'HEAD']).stdout.strip(),
                 'verif_head': sh(['git', '-C', str(VERIF), 'rev-parse', '--short', 'HEAD']).stdout.strip()}
    w = SCR / sid
    if w.exists():
        sh(['git', '-C', REPO, 'worktree', 'remove', '--force', str(w / 'repo')])
        shutil.rmtree(w, ignore_errors=True)
    w.mkdir(parents=True)
    try:
        res['demo_clean'] = demo(d, REPO)[0]
        a = sh(['git', '-C', REPO, 'worktree', 'add', '-q', '--detach', str(w / 'repo'), 'HEAD'])
        if a.returncode != 0:
            res['error'] = 'worktree: ' + a.stderr[-300:]
            return res
        a = sh(['git', '-C', str(w / 'repo'), 'apply', str(d / 'patch.diff')])
        if a.returncode != 0:
            res['error'] = 'patch does not apply: ' + a.stderr[-300:]
            return res
        rc, out = demo(d, str(w / 'repo'))
        res['demo_patched'] = rc
        res['demo_patched_out'] = out[-300:]
        sh(['rsync', '-a', '--exclude', '.git', '--exclude', 'replays', '--exclude', 'seeded', f'{VERIF}/', f'{w}/verif/'])
        (w / 'verif' / 'replays').mkdir(exist_ok=True)
        res['checks'] = {}
        env = dict(os.environ, VERIF_ROOT=str(w / 'verif'), VERIF_REPO=str(w / 'repo'))
        for pid in pids:
            t0 = time.time()
            try:
                r = sh([str(w / 'verif' / 'check'), pid, '--tier', tier], timeout=5400, env=env)
                rc, so = r.returncode, r.stdout
            except subprocess.TimeoutExpired:
                rc, so = 124, ''
            lines = [l for l in so.splitlines() if l.startswith(('VIOLATION', 'KNOWN-FINDING', '[' + pid, 'INTERNAL'))]
            res['checks'][pid] = {'exit': rc, 'wall_s': round(time.time() - t0, 1),
                                  'lines': [l[:300].replace(str(w / 'verif'), '/verif') for l in lines][:12],
                                  'caught': rc == 1 and any(l.startswith('VIOLATION') for l in lines),
                                  'with_input': any(l.startswith('VIOLATION') and 'no-failing-input-found' not in l for l in lines)}
        return res
    finally:
        sh(['git', '-C', REPO, 'worktree', 'remove', '--force', str(w / 'repo')])
        shutil.rmtree(w, ignore_errors=True)
        (d / 'result.json').write_text(json.dumps(res, indent=1))


def main() -> int:
    args = sys.argv[1:]
    tier, jobs, src = 'quick', 5, VERIF / 'seeded'
    while args and args[0].startswith('--'):
        if args[0] == '--tier':
            tier = args[1]
        elif args[0] == '--jobs':
            jobs = int(args[1])
        elif args[0] == '--src':
            src = Path(args[1])
        args = args[2:]
    ids = args or sorted(p.name for p in src.iterdir() if (p / 'patch.diff').exists())
    SCR.mkdir(parents=True, exist_ok=True)
    with ThreadPoolExecutor(jobs) as ex:
        for res in ex.map(lambda s: one(s, src, tier), ids):
            c = res.get('checks', {})
            print(res['id'], 'demo clean/patched =', res.get('demo_clean'), res.get('demo_patched'), res.get('error', ''),
                  {p: ('CAUGHT' + ('' if v['with_input'] else '(no-input)')) if v['caught'] else f'MISSED(exit {v["exit"]})'
                   for p, v in c.items()}, flush=True)
    return 0


if __name__ == '__main__':
    sys.exit(main())
