NOTES = 'All checks: ./check CNN --tier quick|thorough. Each regenerates rocq/Gen/*.v from /repo/src with fail-closed ast translators, rebuilds Props/CNN.vo (full .vo), kernel-checks instance obligations over the generated objects, runs the model/implementation correspondence (model evaluated by vm_compute inside coqc) and an oracle search on the implementation. known_findings.json lists genuine defects that are recorded rather than repaired. See DESIGN.md.'
# property id -> reason, for properties that are deliberately not claimed
NOT_APPLICABLE = {}
