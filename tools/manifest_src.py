NOTES = ('All checks: ./check CNN --tier quick|thorough. Each regenerates rocq/Gen/*.v from /repo/src with fail-closed ast translators, '
         'rebuilds Props/CNN.vo (full .vo), kernel-checks instance obligations over the generated objects, runs the model/implementation '
         'correspondence (model evaluated by vm_compute inside coqc) and an oracle search on the implementation. '
         'known_findings.json lists genuine defects that are recorded rather than repaired. See DESIGN.md.')
NOT_APPLICABLE = {}
CHECKS = {
 'C08': dict(
  technique='Rocq proof (allocator freshness/termination, lifecycle NoDup invariant by induction over histories) + ast site census + vm_compute correspondence',
  text='Theorems in Props/C08.v: the IDMan scan terminates and returns a positive unused ID keeping the search_pos invariant; for every history of '
       'create/remove/re-add/gc the IDs of existing objects are pairwise distinct and positive provided IDs are released only by destructors; fixup '
       'indexes stay distinct and positive. The premises (release sites, ID stores, fixup acceptance test) are regenerated from vmf.py/instancing.py on every '
       'run and kernel-checked; IDMan, EntityFixup and the entity lifecycle are compared with the model on random operation sequences; histories over all six '
       'ID kinds are searched on real VMF objects.',
  note='Trusted: Coq kernel + vm_compute, translate/c08_sites.py, hand models SM/IdMan.v and SM/IdLife.v (tied by differential runs), CPython gc/refcount for '
       '__del__ timing. Nav-node IDs (nodeid keyvalue) are searched, not modelled; their known duplicate defect is in known_findings.json. '
       'Maps opened with preserve_ids=True are exempt by definition.'),
}
