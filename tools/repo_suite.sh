#!/bin/bash
# Run the repository's own test suite against /repo/src (pure Python; the pinned baseline command imports the
# site-packages wheel instead) on a scratch copy, and print the pass/fail summary. Reference on the pinned tree:
# 2105 passed, 18 failed (all need a Cython module or are type_tests).
set -e
D=$(mktemp -d /var/tmp/repo_suite.XXXXXX)
trap 'rm -rf "$D"' EXIT
rsync -a --exclude .git --exclude build "${VERIF_REPO:-/repo}/" "$D/repo/"
cd "$D/repo"
PYTHONPATH="$D/repo/src:/verif/shim" PYTHONHASHSEED=0 /venv/bin/python -m pytest -q -p no:cacheprovider -n 8 --timeout=900 \
   -x --co -q >/dev/null 2>&1 || true
PYTHONPATH="$D/repo/src:/verif/shim" PYTHONHASHSEED=0 /venv/bin/python -m pytest -q -p no:cacheprovider -n 8 --timeout=900 \
   --continue-on-collection-errors -rfE 2>&1 | tail -${TAILN:-40}
