#!/bin/bash
# tools/vet_harmless.sh <candidate dir> : a behaviour-preserving refactoring: patch applies, demo passes on both trees, suite unchanged.
set -u
C="$1"; ID=$(basename "$C")
W=/var/tmp/veth_$ID
git -C /repo worktree remove --force $W >/dev/null 2>&1; rm -rf $W
git -C /repo worktree add -q --detach $W HEAD || exit 2
trap 'git -C /repo worktree remove --force '$W' >/dev/null 2>&1; rm -rf '$W EXIT
cd /var/tmp
PYTHONPATH=/repo/src:/verif/shim PYTHONHASHSEED=0 timeout 600 /venv/bin/python $C/demo.py >/dev/null 2>&1; dc=$?
git -C $W apply $C/patch.diff || { echo "$ID: PATCH DOES NOT APPLY"; exit 1; }
files=$(git -C $W diff --name-only | tr '\n' ' ')
PYTHONPATH=$W/src:/verif/shim PYTHONHASHSEED=0 timeout 600 /venv/bin/python $C/demo.py >/dev/null 2>&1; dp=$?
suite=$(VERIF_REPO=$W bash /verif/tools/repo_suite.sh 2>&1 | tail -1)
echo "$ID: demo clean=$dc patched=$dp files=[$files] suite: $suite"
