#!/venv/bin/python
"""Run the registered checks against the seeded faults under /verif/seeded/<id>/.

usage: tools/run_seeded.py [--tier quick|thorough] [id ...]

For each seeded fault: verify the demonstration (passes on the clean tree, fails with the patch), apply the patch to /repo
(git apply), run ./check <property> for the property it breaks, undo the patch (git checkout -- .), and record the outcome in
seeded/<id>/result.json. Evidence files are restored afterwards (they must describe the unchanged tree).
"""
from __future__ import annotations

import json
import os
import subprocess
import sys
import time
from pathlib import Path

VERIF = Path('/verif')
REPO = '/repo'
ENV = dict(os.environ, PYTHONPATH=f'{REPO}/src:{VERIF}/shim', PYTHONHASHSEED='0')


def sh(cmd, **kw):
    return subprocess.run(cmd, capture_output=True, text=True, **kw)


def demo(d: Path) -> tuple[int, str]:
    r = sh(['/venv/bin/python', str(d / 'demo.py')], env=ENV, timeout=600, cwd='/var/tmp')
    return r.returncode, (r.stdout + r.stderr)[-400:]


def main() -> int:
    args = sys.argv[1:]
    tier = 'quick'
    if args[:1] == ['--tier']:
        tier = args[1]
        args = args[2:]
    ids = args or sorted(p.name for p in (VERIF / 'seeded').iterdir() if (p / 'patch.diff').exists())
    assert sh(['git', '-C', REPO, 'status', '--porcelain', '--untracked-files=no']).stdout.strip() == '', '/repo has local edits'
    summary = []
    for sid in ids:
        d = VERIF / 'seeded' / sid
        meta = json.loads((d / 'meta.json').read_text())
        pids = meta['property'] if isinstance(meta['property'], list) else [meta['property']]
        res = {'id': sid, 'property': pids, 'tier': tier}
        res['demo_clean'] = demo(d)[0]
        a = sh(['git', '-C', REPO, 'apply', str(d / 'patch.diff')])
        if a.returncode != 0:
            res['error'] = 'patch does not apply: ' + a.stderr[-300:]
            summary.append(res)
            (d / 'result.json').write_text(json.dumps(res, indent=1))
            continue
        try:
            res['demo_patched'] = demo(d)[0]
            res['checks'] = {}
            for pid in pids:
                t0 = time.time()
                r = sh([str(VERIF / 'check'), pid, '--tier', tier], timeout=3600)
                lines = [l for l in r.stdout.splitlines() if l.startswith(('VIOLATION', 'KNOWN-FINDING', '[' + pid, 'INTERNAL'))]
                res['checks'][pid] = {'exit': r.returncode, 'wall_s': round(time.time() - t0, 1),
                                      'lines': [l[:300] for l in lines][:12],
                                      'caught': r.returncode == 1 and any(l.startswith('VIOLATION') for l in lines),
                                      'with_input': any(l.startswith('VIOLATION') and 'no-failing-input-found' not in l for l in lines)}
        finally:
            sh(['git', '-C', REPO, 'checkout', '--', '.'])
        (d / 'result.json').write_text(json.dumps(res, indent=1))
        summary.append(res)
        c = res.get('checks', {})
        print(sid, 'demo clean/patched =', res['demo_clean'], res.get('demo_patched'),
              {p: ('CAUGHT' + ('' if v['with_input'] else '(no-input)')) if v['caught'] else f'MISSED(exit {v["exit"]})' for p, v in c.items()}, flush=True)
    sh(['git', '-C', str(VERIF), 'checkout', '--', 'evidence'])
    return 0


if __name__ == '__main__':
    sys.exit(main())
