#!/venv/bin/python
"""Self-test of the fast sentence finder of the hygiene scan: it must give exactly the matches of the reference regex _SENT on
every .v file of rocq/ (comments stripped, as the scan sees them) and on adversarial strings. Run by hand after touching
harness/common.py:  PYTHONPATH=/verif /venv/bin/python tools/selftest_hygiene.py"""
import sys, time
from harness import common as C

def sig(it):
    return [(m.group(1), m.group(2), m.start(1), m.end()) for m in it]

adv = ['#[local, x="Variable y"]\nVariable z : nat.', ' ' * 5000 + 'Variable a : nat.', '#[' + 'a' * 900 + '] Hypothesis H : True.',
       'Local Local Global #[a] #[b] Context (x : nat).', 'x.End', '(Variable)', 'Foo.Variable x', 'Section A.\nVariable v : nat.\nEnd A.',
       'Module Type T.\nEnd T.\nModule M := N.', 'Lemma x : True. Proof. exact I. Qed. Variable q : nat.', 'xVariable y', 'Variable']
bad = 0
t_ref = t_fast = 0.0
texts = adv + [C._strip_coq_comments(f.read_text(errors='replace')) for f in sorted(C.ROCQ.rglob('*.v'))]
for t in texts:
    a = time.time(); r = sig(C._SENT.finditer(t)); b = time.time(); f = sig(C.sent_finditer(t)); c = time.time()
    t_ref += b - a; t_fast += c - b
    if r != f:
        bad += 1
        print('DIFFERENT on', repr(t[:80]), r[:3], f[:3])
print(f'{len(texts)} texts, {bad} different; reference {t_ref:.1f}s, fast {t_fast:.1f}s')
sys.exit(1 if bad else 0)
