#!/bin/bash
# tools/integrate_r2.sh cNN — merge a round-5 builder branch: /verif branch r2_cNN into main, cherry-pick its new "fix:" commits
# (those whose patch is not already on /repo main) into /repo main. Stops on anything unexpected.
set -e
B="$1"; R="r5_$B"
cd /verif
echo "== files changed on $R outside the owner's area:"
git diff --name-only main..."$R" | grep -v -E "^(checks/${B}|checks/c03|translate/${B}|translate/c03|rocq/|known_findings\.d/|docs/|corpus/|evidence/|harness/${B}|harness/c03|seeded/)" || echo "(none)"
echo "== merging $R into /verif main"
git merge --no-edit -X theirs "$R" 2>&1 | tail -3
echo "== commits on /repo branch $R not yet on main (by patch id):"
git -C /repo cherry -v main "$R" || true
for h in $(git -C /repo cherry main "$R" | awk '$1=="+"{print $2}'); do
  if git -C /repo cherry-pick "$h" >/dev/null 2>&1; then
    echo "picked $(echo $h | cut -c1-7) -> $(git -C /repo log -1 --format=%h)  $(git -C /repo log -1 --format=%s | cut -c1-100)"
  else
    echo "CONFLICT cherry-picking $h; resolve by hand (git -C /repo status)"; exit 1
  fi
done
