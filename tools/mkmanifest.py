"""Regenerate MANIFEST.json from tools/manifest_src.py (keeps it valid and uniform)."""
import json, sys
sys.path.insert(0, '/verif')
import importlib, os
from tools.manifest_src import NOT_APPLICABLE, NOTES
CHECKS = {}
for f in sorted(os.listdir('/verif/checks')):
    if f.startswith('c') and f.endswith('.py') and f[1:3].isdigit():
        mod = importlib.import_module('checks.' + f[:-3])
        if hasattr(mod, 'MANIFEST'):
            CHECKS[f[:-3].upper()] = mod.MANIFEST
props = [json.loads(l)['id'] for l in open('/verif/properties.jsonl')]
checks = []
for pid in props:
    if pid not in CHECKS:
        continue
    c = CHECKS[pid]
    checks.append({
        'property_id': pid,
        'quick_cmd': f'./check {pid} --tier quick',
        'thorough_cmd': f'./check {pid} --tier thorough',
        'evidence_file': f'/verif/evidence/{pid}.json',
        'replay_cmd_template': f'./check {pid} --replay {{path}}',
        'engine': 'rocq',
        'level_claimed': {'category': c.get('category', 'proof'), 'text': c['text'], 'design_ref': c.get('design_ref', f'DESIGN.md section 6, {pid}')},
        'level_note': c['note'],
        'technique': c['technique'],
    })
na = [{'property_id': p, 'reason': NOT_APPLICABLE.get(p, 'not claimed yet: the Rocq model and its tie for this property are not built at this commit (see DESIGN.md section 6 for the plan)')}
      for p in props if p not in CHECKS]
m = {
    'version': 1,
    'setup_cmd': './setup.sh',
    'hooks': {'guard': 'TEAMSPEN210_SRCTOOLS_VERIF', 'enable': 'no source hooks are needed: checks import /repo/src with PYTHONPATH and observe public attributes; the variable is exported by ./check for completeness',
              'baseline_off_cmd': 'cd /repo && /venv/bin/python -m pytest -ra -q -p no:cacheprovider --timeout=900 --continue-on-collection-errors',
              'source_commits': [], 'add_only': True},
    'engines': [{'name': 'rocq', 'path': '/verif/rocq', 'serves_properties': [c['property_id'] for c in checks],
                 'kind_free_text': 'Coq 8.16.1 development (models, theorems, generated Gen/*.v) + Python harness (translators, vm_compute correspondence, oracles)'}],
    'checks': checks,
    'notes': NOTES,
    'not_applicable': na,
}
json.dump(m, open('/verif/MANIFEST.json', 'w'), indent=1)
print('wrote MANIFEST.json with', len(checks), 'checks,', len(na), 'not claimed')
