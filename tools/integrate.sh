#!/bin/bash
# tools/integrate.sh cNN  — merge a builder branch: /verif branch cNN into main, cherry-pick its "fix:" commits into /repo main.
# Prints what happened; stops on anything unexpected. Evidence/manifest/known_findings are regenerated afterwards by hand.
set -e
B="$1"
cd /verif
echo "== files changed on $B outside the owner's area:"
git diff --name-only main..."$B" | grep -v -E "^(checks/${B}|checks/c03|translate/${B}|translate/c03|rocq/|known_findings\.d/|docs/|corpus/|evidence/|harness/${B}|harness/c03)" || echo "(none)"
echo "== merging $B into /verif main"
git merge --no-edit -X ours "$B" 2>&1 | tail -3
echo "== fix commits on /repo branch $B:"
git -C /repo log --reverse --format='%h %s' main.."$B"
for h in $(git -C /repo log --reverse --format='%h' main.."$B"); do
  if git -C /repo cherry-pick "$h" >/dev/null 2>&1; then
    echo "picked $h -> $(git -C /repo log -1 --format=%h)  $(git -C /repo log -1 --format=%s | cut -c1-90)"
  else
    echo "CONFLICT cherry-picking $h; resolve by hand (git -C /repo status)"; exit 1
  fi
done
