"""tools/fill_hashes.py CNN h1 h2 ...  — put /repo commit hashes into the 'fixed:' lines of known_findings.d/CNN.json, in order."""
import json, re, sys, subprocess
pid = sys.argv[1]; hashes = sys.argv[2:]
p = f'/verif/known_findings.d/{pid}.json'
d = json.load(open(p))
out = []
hs = list(hashes)
for line in d.get('fixed', []):
    m = re.match(rf'fixed: property={pid} ([0-9a-f]{{7,40}}) ', line)
    if m and subprocess.run(['git', '-C', '/repo', 'cat-file', '-e', m.group(1)], capture_output=True).returncode == 0 \
            and subprocess.run(['git', '-C', '/repo', 'merge-base', '--is-ancestor', m.group(1), 'main']).returncode == 0:
        out.append(line); continue
    rest = re.sub(rf'^fixed: property={pid} (?:<[^>]*> |[0-9a-f]{{7,40}} )?', '', line)
    h = hs.pop(0) if hs else '<commit?>'
    subj = subprocess.run(['git', '-C', '/repo', 'log', '-1', '--format=%s', h], capture_output=True, text=True).stdout.strip()
    out.append(f'fixed: property={pid} {h} {rest}')
    print(f'  {h} [{subj[:70]}]  <=  {rest[:90]}')
d['fixed'] = out
json.dump(d, open(p, 'w'), indent=1)
if hs: print('  UNUSED hashes:', hs)
