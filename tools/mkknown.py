"""Assemble known_findings.json from known_findings.d/CNN.json (run by hand at integration time, never by a check)."""
import json, glob, os
root = os.environ.get('VERIF_ROOT', '/verif')
out = {"_comment": "Genuine defects of the pinned tree. 'known' entries are matched on (property, key): the key names the specific failing input class / call site / history, so any other violation of the same property is still reported. 'fixed' lines record repaired defects and suppress nothing. Assembled from known_findings.d/*.json by tools/mkknown.py; never written at run time.",
       "known": [], "fixed": []}
for f in sorted(glob.glob(f'{root}/known_findings.d/C*.json')):
    d = json.load(open(f))
    out['known'] += d.get('known', [])
    out['fixed'] += d.get('fixed', [])
json.dump(out, open(f'{root}/known_findings.json', 'w'), indent=1)
print(len(out['known']), 'known,', len(out['fixed']), 'fixed')
