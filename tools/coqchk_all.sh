#!/bin/bash
# Re-check every compiled Props module and everything it depends on with Coq's independent checker, and list the axioms
# the whole development relies on. Run by hand at integration time (minutes, several GB); output -> docs/coqchk.txt.
cd "$(dirname "$0")/../rocq" || exit 2
mods=$(ls Props/*.v | sed 's/\.v$//; s/\//./; s/^/SV./' | tr '\n' ' ')
( echo "coqchk -silent -o -Q . SV $mods"; echo "run at $(date -u +%FT%TZ) on /verif $(git -C .. rev-parse --short HEAD), /repo $(git -C /repo rev-parse --short HEAD)";
  ulimit -s unlimited; timeout 7200 coqchk -silent -o -Q . SV $mods 2>&1; echo "exit status $?" ) > ../docs/coqchk.txt
tail -40 ../docs/coqchk.txt
