"""C08 — IDs handed out inside one VMF are unique per kind and never reused while live."""
from __future__ import annotations

import gc
import random

from harness.common import Ck, coq_Z_list, coq_list
from translate import c08_sites

MANIFEST = dict(
    technique='Rocq proof (allocator freshness/termination, lifecycle NoDup invariant by induction over histories) + ast site census + vm_compute correspondence',
    text='Theorems in Props/C08.v: the IDMan scan terminates and returns a positive unused ID keeping the search_pos invariant; for every history of create/remove/re-add/gc the IDs of existing objects are pairwise distinct and positive provided IDs are released only by destructors; fixup indexes stay distinct and positive. The premises (release sites, ID stores, fixup acceptance test) are regenerated from vmf.py/instancing.py on every run and kernel-checked; IDMan, EntityFixup and the entity lifecycle are compared with the model on random operation sequences; histories over all six ID kinds are searched on real VMF objects.',
    note='Trusted: Coq kernel + vm_compute, translate/c08_sites.py, hand models SM/IdMan.v and SM/IdLife.v (tied by differential runs), CPython gc/refcount for __del__ timing. Nav-node IDs (nodeid keyvalue) are searched, not modelled; their known duplicate defect is in known_findings.json. Maps opened with preserve_ids=True are exempt by definition.',
)

IMPORTS = ['SV.SM.IdMan', 'SV.SM.IdLife', 'SV.Gen.IdSites_gen', 'SV.Props.C08', 'Coq.ZArith.ZArith', 'Coq.Lists.List']
PRE = '''Import ListNotations. Open Scope Z_scope.
Fixpoint zl_eqb (a b : list Z) : bool := match a, b with [] , [] => true | x :: a', y :: b' => Z.eqb x y && zl_eqb a' b' | _, _ => false end.
Fixpoint bad_idx {A} (f : A -> bool) (n : Z) (l : list A) : list Z := match l with [] => [] | x :: r => (if f x then [] else [n]) ++ bad_idx f (n + 1) r end.
'''


# ------------------------------------------------------------------------------------------------ allocator
def gen_idman_ops(rng: random.Random, n: int) -> list[tuple]:
    ops = []
    hi = rng.choice([3, 6, 12, 40])
    for _ in range(n):
        r = rng.random()
        if r < 0.45:
            d = rng.choice([-1, -1, 0, -7, rng.randint(1, hi), rng.randint(1, hi)])
            ops.append(('Get', d))
        elif r < 0.70:
            ops.append(('Discard', rng.randint(-2, hi)))
        elif r < 0.80:
            ops.append(('Remove', rng.randint(-1, hi)))
        elif r < 0.83:
            ops.append(('Clear',))
        elif r < 0.93:
            ops.append(('Contains', rng.randint(-1, hi)))
        else:
            ops.append(('Len',))
    return ops


def impl_idman(ops) -> list[int]:
    from srctools.vmf import IDMan
    m = IDMan()
    out = []
    for op in ops:
        k = op[0]
        if k == 'Get':
            out.append(m.get_id(op[1]))
        elif k == 'Discard':
            m.discard(op[1]); out.append(-2)
        elif k == 'Remove':
            try:
                m.remove(op[1]); out.append(-2)
            except KeyError:
                out.append(-1)
        elif k == 'Clear':
            m.clear(); out.append(-2)
        elif k == 'Contains':
            out.append(1 if op[1] in m else 0)
        elif k == 'Len':
            out.append(len(m))
    out.append(m.search_pos)
    return out


def coq_op(op) -> str:
    return op[0] if len(op) == 1 else f'{op[0]} ({op[1]})'


def corr_idman(ck: Ck) -> None:
    n = ck.budget(600, 6000)
    cases = []
    corpus = [[('Get', -1), ('Discard', 1), ('Get', -1), ('Discard', 1), ('Get', -1)],
              [('Get', 5), ('Get', 5), ('Discard', 0), ('Get', -1), ('Get', -1)],
              [('Get', 2), ('Get', 1), ('Get', -1), ('Remove', 9), ('Discard', 2), ('Get', 0), ('Len',)]]
    for i in range(n):
        ops = corpus[i] if i < len(corpus) else gen_idman_ops(ck.rng, ck.rng.choice([3, 8, 20, 45]))
        exp = impl_idman(ops)
        cases.append((ops, exp))
        ck.count('idman_sequences')
        ck.hist('idman_len', len(ops) // 10 * 10)
        for op in ops:
            ck.hist('idman_ops', op[0])
        if len(set(exp)) > 3:
            ck.seen(('idman', tuple(ops)))
    ck.sample({'idman_ops': [coq_op(o) for o in cases[3][0]], 'impl_results_then_search_pos': cases[3][1]})
    bad: list[int] = []
    for lo in range(0, len(cases), 500):
        part = cases[lo:lo + 500]
        lit = coq_list(f'({coq_list(coq_op(o) for o in ops)}, {coq_Z_list(exp)})' for ops, exp in part)
        vals = ck.coq_eval(IMPORTS, [f'bad_idx (fun c : list op * list Z => zl_eqb (run idman_lower_guard init (fst c)) (snd c)) 0 {lit}'],
                           name='idman', preamble=PRE)
        if vals is None:
            ck.obligation('correspondence:idman', False, 'model could not be evaluated')
            ck.tie_broken.append('correspondence IDMan: model evaluation failed')
            return
        from harness.common import parse_coq_N_list
        bad += [lo + i for i in parse_coq_N_list(vals[0])]
    ck.obligation('correspondence:idman', not bad,
                  f'{len(cases)} operation sequences, model (vm_compute) vs srctools.vmf.IDMan: {len(bad)} disagreements')
    if bad:
        ops, exp = min((cases[i] for i in bad), key=lambda c: len(c[0]))
        ck.tie_broken.append('correspondence IDMan (SM/IdMan.v run vs srctools.vmf.IDMan)')
        ck.extra['idman_disagreement'] = {'ops': [coq_op(o) for o in ops], 'impl': exp}


# ------------------------------------------------------------------------------------------------ fixups
def corr_fixups(ck: Ck, require_positive: bool) -> None:
    from srctools.vmf import EntityFixup, FixupValue
    n = ck.budget(300, 3000)
    cases = []
    for i in range(n):
        rng = ck.rng
        init = [(rng.randint(0, 5), rng.choice([0, -1, 1, 1, 2, 3, 4, 7, 12])) for _ in range(rng.choice([0, 1, 3, 6]))]
        ops = [(rng.choice(['set', 'set', 'del']), rng.randint(0, 7)) for _ in range(rng.choice([0, 2, 6, 12]))]
        fx = EntityFixup([FixupValue(f'v{v}', 'x', ind) for v, ind in init])
        for o, v in ops:
            if o == 'set':
                fx[f'v{v}'] = 'y'
            else:
                del fx[f'V{v}']
        got = sorted((int(f.var[1:]), f.id) for f in fx._fixup.values())
        cases.append((init, ops, got))
        ck.count('fixup_histories')
        if len(got) > 1:
            ck.seen(('fixup', tuple(init), tuple(ops)))
        ids = [g[1] for g in got]
        if len(set(ids)) != len(ids) or any(x <= 0 for x in ids):
            key = 'fixup-index-nonpositive-from-init' if all(x > 0 for _, x in init) is False and len(set(ids)) == len(ids) else 'fixup-index-duplicate'
            ck.violation(key, 'EntityFixup holds a duplicate or non-positive replaceNN index',
                         {'init': init, 'ops': ops, 'result': got})
    ck.sample({'fixup_init(var,index)': cases[-1][0], 'ops': cases[-1][1], 'impl_result_sorted': cases[-1][2]})
    rp = 'true' if require_positive else 'false'
    pre = PRE + '''
Fixpoint ins (p : Z * Z) (l : list (Z * Z)) := match l with [] => [p] | q :: r => if (fst p <? fst q) then p :: l else q :: ins p r end.
Definition srt (l : list (Z * Z)) := fold_right ins [] l.
Definition fx_run (rp : bool) (c : list (Z * Z) * list (bool * Z)) : list (Z * Z) :=
  srt (fold_left (fun (f : fixups) (o : bool * Z) => if fst o then fx_set (snd o) f else fx_del (snd o) f) (snd c) (fx_init rp (fst c))).
Fixpoint pl_eqb (a b : list (Z * Z)) : bool := match a, b with [], [] => true | (x, y) :: a', (u, v) :: b' => Z.eqb x u && Z.eqb y v && pl_eqb a' b' | _, _ => false end.
'''
    def pairs(l):
        return coq_list(f'({a}, {b})' if b >= 0 else f'({a}, ({b}))' for a, b in l)
    bad = []
    for lo in range(0, len(cases), 500):
        part = cases[lo:lo + 500]
        lit = coq_list(
            f'(({pairs(i)}, {coq_list("(%s, %d)" % ("true" if o == "set" else "false", v) for o, v in ops)}), {pairs(g)})'
            for i, ops, g in part)
        vals = ck.coq_eval(IMPORTS, [f'bad_idx (fun c : (list (Z * Z) * list (bool * Z)) * list (Z * Z) => pl_eqb (fx_run {rp} (fst c)) (snd c)) 0 {lit}'], name='fixup', preamble=pre)
        if vals is None:
            ck.obligation('correspondence:fixup', False, 'model could not be evaluated')
            ck.tie_broken.append('correspondence EntityFixup: model evaluation failed')
            return
        from harness.common import parse_coq_N_list
        bad += [lo + i for i in parse_coq_N_list(vals[0])]
    ck.obligation('correspondence:fixup', not bad,
                  f'{len(cases)} EntityFixup histories, model fx_init/fx_set/fx_del vs implementation: {len(bad)} disagreements')
    if bad:
        ck.tie_broken.append('correspondence EntityFixup (SM/IdLife.v fx_* vs srctools.vmf.EntityFixup)')
        ck.extra['fixup_disagreement'] = {'case': cases[bad[0]]}


# ------------------------------------------------------------------------------------------------ lifecycle
KINDS = ['ent', 'solid', 'group', 'vis']


def scan_map(vmf) -> dict[str, list[int]]:
    """All IDs of objects reachable from the map, per kind."""
    ents = [vmf.spawn, *vmf.entities]
    solids = list(vmf.brushes) + [s for e in vmf.entities for s in e.solids]
    out = {
        'ent': [e.id for e in vmf.entities],
        'solid': [s.id for s in solids],
        'face': [f.id for s in solids for f in s.sides],
        'group': [g.id for g in vmf.groups.values()],
        'vis': [v.id for v in _walk_vis(vmf.vis_tree)],
        'node': [int(e['nodeid']) for e in vmf.entities if 'nodeid' in e and _isint(e['nodeid'])],
    }
    for i, e in enumerate(ents):
        if e._fixup is not None:
            out[f'fixup{i}'] = [f.id for f in e._fixup._fixup.values()]
    return out


def _isint(s) -> bool:
    try:
        int(s)
        return True
    except (TypeError, ValueError):
        return False


def _walk_vis(lst):
    for v in lst:
        yield v
        yield from _walk_vis(v.child_groups)


def dup_report(ids: dict[str, list[int]]):
    for kind, l in ids.items():
        if len(set(l)) != len(l):
            yield kind, 'duplicate', sorted(x for x in set(l) if l.count(x) > 1)
        if any(x <= 0 for x in l):
            yield kind, 'nonpositive', sorted(x for x in l if x <= 0)


def run_history(hist: list[tuple], record_release=None):
    """Execute a lifecycle history on a real VMF. Returns (list of per-step id scans, objects, effective events)."""
    from srctools.vmf import VMF, Entity, Solid, Side, EntityGroup, VisGroup
    from srctools.math import Vec
    vmf = VMF()
    vmf2 = VMF()        # destination of cross-map copies
    for _ in range(3):  # pre-populate so that ID ranges of the two maps overlap
        vmf2.add_brush(vmf2.make_prism(Vec(0, 0, 0), Vec(8, 8, 8)).solid)
        vmf2.create_ent('info_target')
    objs: list = []     # [kind, obj or None, in_map]
    steps = []
    for ev in hist:
        op = ev[0]
        try:
            if op == 'create':
                _, kind, desired = ev
                if kind == 'ent':
                    o = Entity(vmf, {'classname': 'info_target'}, ent_id=desired)
                    vmf.add_ent(o)
                elif kind == 'node':
                    o = vmf.create_ent('info_node', nodeid=str(desired))
                elif kind == 'solid':
                    pr = vmf.make_prism(Vec(0, 0, 0), Vec(8, 8, 8))
                    o = Solid(vmf, id=desired, sides=[Side(vmf, [p.copy() for p in s.planes], des_id=desired + k if desired > 0 else desired)
                                                           for k, s in enumerate(pr.solid.sides)])
                    del pr
                    vmf.add_brush(o)
                elif kind == 'brushent':
                    pr = vmf.make_prism(Vec(0, 0, 0), Vec(8, 8, 8))
                    o = Entity(vmf, {'classname': 'func_detail'}, ent_id=desired, solids=[pr.solid])
                    del pr
                    vmf.add_ent(o)
                elif kind == 'group':
                    o = EntityGroup(vmf, desired)
                    vmf.groups[id(o)] = o
                elif kind == 'vis':
                    o = VisGroup(vmf, 'v', desired)
                    vmf.vis_tree.append(o)
                objs.append([kind, o, True])
            elif op == 'copy':
                k = ev[1] % len(objs) if objs else None
                if k is None or objs[k][1] is None or objs[k][0] in ('group', 'vis'):
                    continue
                kind, src, _ = objs[k]
                if kind in ('ent', 'brushent', 'node'):
                    o = src.copy()
                    vmf.add_ent(o)
                else:
                    o = src.copy()
                    vmf.add_brush(o)
                objs.append([kind, o, True])
            elif op == 'xcopy':     # copy into the other map
                k = ev[1] % len(objs) if objs else None
                if k is None or objs[k][1] is None or objs[k][0] in ('group', 'vis', 'node'):
                    continue
                kind, src, _ = objs[k]
                o = src.copy(vmf_file=vmf2)
                if kind in ('ent', 'brushent'):
                    vmf2.add_ent(o)
                else:
                    vmf2.add_brush(o)
                del o
            elif op == 'remove':
                k = ev[1] % len(objs) if objs else None
                if k is None or objs[k][1] is None or not objs[k][2] or objs[k][0] in ('group', 'vis'):
                    continue
                objs[k][1].remove()
                objs[k][2] = False
            elif op == 'readd':
                k = ev[1] % len(objs) if objs else None
                if k is None or objs[k][1] is None or objs[k][2] or objs[k][0] in ('group', 'vis'):
                    continue
                if objs[k][0] in ('ent', 'brushent', 'node'):
                    vmf.add_ent(objs[k][1])
                else:
                    vmf.add_brush(objs[k][1])
                objs[k][2] = True
            elif op == 'gc':
                k = ev[1] % len(objs) if objs else None
                if k is None or objs[k][1] is None or objs[k][2]:
                    continue
                objs[k][1] = None
                gc.collect(0)
            elif op == 'setnode':
                k = ev[1] % len(objs) if objs else None
                if k is None or objs[k][1] is None or objs[k][0] != 'node':
                    continue
                objs[k][1]['nodeid'] = str(ev[2])
            elif op == 'delnode':
                k = ev[1] % len(objs) if objs else None
                if k is None or objs[k][1] is None or objs[k][0] != 'node':
                    continue
                del objs[k][1]['nodeid']
        except Exception as e:   # an exception in the public API during a legal history is itself reported
            steps.append({'error': f'{type(e).__name__}: {e}'})
            break
        sc = scan_map(vmf)
        sc.update({'map2:' + k: v for k, v in scan_map(vmf2).items()})
        steps.append(sc)
    return steps, objs, vmf


def gen_history(rng: random.Random, n: int, kinds) -> list[tuple]:
    h = []
    for _ in range(n):
        r = rng.random()
        if r < 0.40 or not h:
            h.append(('create', rng.choice(kinds), rng.choice([-1, -1, 0, -4, 1, 2, 2, 3, 5])))
        elif r < 0.46:
            h.append(('copy', rng.randint(0, 9)))
        elif r < 0.52:
            h.append(('xcopy', rng.randint(0, 9)))
        elif r < 0.70:
            h.append(('remove', rng.randint(0, 9)))
        elif r < 0.80:
            h.append(('readd', rng.randint(0, 9)))
        elif r < 0.95:
            h.append(('gc', rng.randint(0, 9)))
        elif r < 0.98:
            h.append(('setnode', rng.randint(0, 9), rng.choice([-3, 0, 1, 2, 3, 9])))
        else:
            h.append(('delnode', rng.randint(0, 9)))
    return h


CORPUS_HIST = [
    [('create', 'ent', -1), ('remove', 0), ('create', 'ent', -1), ('gc', 0), ('create', 'ent', -1)],
    [('create', 'solid', -1), ('remove', 0), ('create', 'solid', -1), ('gc', 0), ('create', 'solid', -1)],
    [('create', 'node', 3), ('create', 'node', 3), ('create', 'node', 3)],
    [('create', 'node', -5), ('create', 'node', -1)],
    [('create', 'ent', 2), ('create', 'ent', 2), ('copy', 0), ('remove', 1), ('readd', 1), ('create', 'ent', 2)],
    [('create', 'brushent', 4), ('copy', 0), ('remove', 0), ('gc', 0), ('create', 'brushent', 1), ('create', 'solid', 1)],
    [('create', 'brushent', -1), ('xcopy', 0), ('create', 'solid', -1), ('xcopy', 1), ('xcopy', 0)],
]


def classify(kind: str, what: str, hist) -> str:
    """Key naming the failing class of histories (used for known_findings matching)."""
    ops = {e[0] for e in hist}
    kinds = {e[1] for e in hist if e[0] == 'create'}
    if kind == 'node':
        if what == 'nonpositive':
            return 'node-id-nonpositive'
        return 'node-id-duplicate'
    if 'remove' in ops and 'gc' in ops and kind in ('ent',):
        return f'{kind}-id-duplicate-after-remove-and-gc' if what == 'duplicate' else f'{kind}-id-{what}'
    if 'remove' in ops and kind in ('ent',) and what == 'duplicate':
        return f'{kind}-id-duplicate-after-remove'
    return f'{kind}-id-{what}'


def shrink(hist, pred):
    cur = list(hist)
    changed = True
    while changed:
        changed = False
        for i in range(len(cur)):
            cand = cur[:i] + cur[i + 1:]
            if cand and pred(cand):
                cur = cand
                changed = True
                break
    return cur


def first_problem(hist):
    steps, _, _ = run_history(hist)
    for i, s in enumerate(steps):
        if 'error' in s:
            return ('api', 'exception', s['error'], i)
        for kind, what, vals in dup_report(s):
            k = kind.replace('map2:', '')
            k = ('xmap-' if kind.startswith('map2:') else '') + ('fixup' if k.startswith('fixup') else k)
            return (k, what, vals, i)
    return None


def search_lifecycle(ck: Ck) -> None:
    n = ck.budget(700, 8000)
    found: dict[str, tuple] = {}
    for i in range(n):
        if i < len(CORPUS_HIST):
            hist = CORPUS_HIST[i]
        else:
            kinds = ck.rng.choice([['ent'], ['solid'], ['ent', 'brushent', 'solid'], ['node', 'ent'], ['group', 'vis', 'ent'],
                                   ['ent', 'solid', 'brushent', 'node', 'group', 'vis']])
            hist = gen_history(ck.rng, ck.rng.choice([4, 8, 16, 30]), kinds)
        ck.count('lifecycle_histories')
        for e in hist:
            ck.hist('lifecycle_events', e[0])
        p = first_problem(hist)
        if {e[0] for e in hist} >= {'create', 'remove'}:
            ck.seen(('life', tuple(hist)))
        if p is None:
            continue
        key = classify(p[0], p[1], hist)
        if key in found and len(found[key][0]) <= 4:
            continue
        def same(h, key=key):
            q = first_problem(h)
            return q is not None and classify(q[0], q[1], h) == key
        small = shrink(hist, same)
        if key not in found or len(small) < len(found[key][0]):
            found[key] = (small, first_problem(small))
    ck.sample({'lifecycle_history': CORPUS_HIST[4], 'id_scan_after_last_step': run_history(CORPUS_HIST[4])[0][-1]})
    for key, (hist, p) in found.items():
        ck.violation(key, f'{p[0]} IDs {p[1]}: {p[2]} after step {p[3]} of history', {'history': hist, 'problem': p,
                     'how': 'checks.c08.run_history(history) then scan_map() after every step'})
    ck.extra['lifecycle_violation_keys'] = sorted(found)


def corr_lifecycle(ck: Ck, release_on_remove: bool) -> None:
    """The entity lifecycle model (SM/IdLife.v lrun) against real VMF entity histories: same IDs, same state."""
    from srctools.vmf import VMF, Entity
    n = ck.budget(250, 3000)
    cases = []
    for _ in range(n):
        rng = ck.rng
        vmf = VMF()
        log = []
        orig = vmf.ent_id.discard
        def spy(e, orig=orig, log=log):
            import sys
            log.append(sys._getframe(1).f_code.co_name)
            return orig(e)
        vmf.ent_id.discard = spy
        objs = [[vmf.spawn, vmf.spawn.id, True, True]]     # the constructor's worldspawn takes the first ID
        evs = ['Create (-1)']
        for _ in range(rng.choice([3, 6, 12, 20])):
            r = rng.random()
            if r < 0.4 or len(objs) < 2:
                d = rng.choice([-1, -1, 0, 1, 2, 3, 3, 6])
                e = Entity(vmf, {'classname': 'x'}, ent_id=d)
                vmf.add_ent(e)
                objs.append([e, e.id, True, True]); evs.append(f'Create ({d})')
                e = None
            else:
                k = rng.randrange(1, len(objs))
                o = objs[k]
                if r < 0.65:
                    if o[0] is not None and o[3]:
                        o[0].remove(); o[3] = False; evs.append(f'RemoveFromMap {k}')
                elif r < 0.8:
                    if o[0] is not None and not o[3]:
                        vmf.add_ent(o[0]); o[3] = True; evs.append(f'ReAdd {k}')
                else:
                    if o[0] is not None and not o[3]:
                        before = log.count('__del__')
                        o[0] = None
                        gc.collect(0)
                        if log.count('__del__') == before + 1:
                            o[2] = False
                            evs.append(f'Gc {k}')
                        else:       # still referenced elsewhere (e.g. a stale index): not an event
                            ck.count('gc_without_del')
        exp = [(o[1], o[2], o[3]) for o in objs]
        # final probe: what ID does the allocator hand out next?
        probe = vmf.ent_id.get_id(-1)
        cases.append((evs, exp, probe))
        ck.count('entity_lifecycle_histories')
        if any(e.startswith('Gc') for e in evs):
            ck.seen(('lc', tuple(evs)))
        vmf.ent_id.discard = orig
        del objs, vmf
    ck.sample({'entity_history': cases[-1][0], 'impl_objects(id,alive,inmap)': cases[-1][1], 'next_id': cases[-1][2]})
    rr = 'true' if release_on_remove else 'false'
    pre = PRE + f'''
Definition obs (w : world) : list Z := flat_map (fun o => [oid o; if alive o then 1 else 0; if inmap o then 1 else 0]) (objs w).
Definition probe (w : world) : Z := match get_id (-1) (man w) with Some (i, _) => i | None => -3 end.
Definition lrun' := lrun {rr}.
'''
    bad = []
    from harness.common import parse_coq_N_list
    for lo in range(0, len(cases), 400):
        part = cases[lo:lo + 400]
        lit = coq_list('(%s, %s)' % (coq_list(evs), coq_Z_list([x for (i, a, m) in exp for x in (i, int(a), int(m))] + [probe]))
                       for evs, exp, probe in part)
        vals = ck.coq_eval(IMPORTS, [f'bad_idx (fun c : list ev * list Z => zl_eqb (obs (lrun\' (fst c)) ++ [probe (lrun\' (fst c))]) (snd c)) 0 {lit}'],
                           name='life', preamble=pre)
        if vals is None:
            ck.obligation('correspondence:lifecycle', False, 'model could not be evaluated')
            ck.tie_broken.append('correspondence entity lifecycle: model evaluation failed')
            return
        bad += [lo + i for i in parse_coq_N_list(vals[0])]
    ck.obligation('correspondence:lifecycle', not bad,
                  f'{len(cases)} entity histories, model lrun(release_on_remove={rr}) vs real VMF/Entity/gc: {len(bad)} disagreements')
    if bad:
        ck.tie_broken.append('correspondence entity lifecycle (SM/IdLife.v lrun vs VMF.add_ent/remove_ent/Entity.__del__)')
        ck.extra['lifecycle_disagreement'] = {'events': cases[bad[0]][0], 'impl': cases[bad[0]][1], 'probe': cases[bad[0]][2]}


# ------------------------------------------------------------------------------------------------ main
def run(ck: Ck) -> None:
    ck.rule = ('IDMan: random operation sequences over a small ID range (collisions frequent), non-trivial = more than 3 '
               'distinct results; lifecycle: random histories of create/copy/remove/re-add/gc/node edits over 6 object kinds, '
               'non-trivial = contains create and remove; fixups: random init lists with colliding/non-positive indexes '
               'followed by set/del, non-trivial = at least two variables left; distinct by full sequence')
    ck.trusted.append('hand-written models SM/IdMan.v, SM/IdLife.v (tied by differential correspondence on every run)')
    ok_t = ck.translate('IdSites_gen', c08_sites.translate)
    side = ck.extra.get('translated', {}).get('IdSites_gen', {})
    built = ok_t and ck.build(['Props/C08.vo'])
    if built:
        ck.theorems('Props/C08.v')
        res = ck.instance_obligations(IMPORTS, {
            'ent_released_only_by_destructor': 'negb (release_on_remove KEnt)',
            'solid_released_only_by_destructor': 'negb (release_on_remove KSolid)',
            'face_released_only_by_destructor': 'negb (release_on_remove KFace)',
            'group_never_released_outside_destructor': 'negb (release_on_remove KGroup)',
            'visgroup_never_released_outside_destructor': 'negb (release_on_remove KVis)',
            'every_id_store_is_a_get_id_result': 'all_id_stores_from_get_id',
            'fixup_constructor_tests_positivity': 'fixup_init_requires_positive',
            'fixup_set_searches_from_1': 'Z.eqb fixup_set_start 1',
            'idman_hint_lowered_only_by_positive_ids': 'idman_lower_guard',
            'each_class_uses_the_manager_of_its_kind': 'class_kind_consistent',
            'no_unclassified_release_site': 'forallb (fun x : kind * site * String.string => match snd (fst x) with SOther => false | _ => true end) release_sites',
        })
        corr_idman(ck)
        corr_fixups(ck, bool(side.get('fixup_init_requires_positive')))
        ror = any(r[0] == 'KEnt' and r[1] != 'SDel' for r in side.get('releases', []))
        corr_lifecycle(ck, ror)
    search_lifecycle(ck)
    # Failed instance obligations are explained when the search exhibits the corresponding concrete history.
    keys = {v['key'] for v in ck.violations}
    if any(k.startswith('ent-id-duplicate') for k in keys):
        ck.explain('instance:ent_released_only_by_destructor')
    if any(k.startswith('solid-id-duplicate') for k in keys):
        ck.explain('instance:solid_released_only_by_destructor')
    if any(k.startswith('face-id-duplicate') for k in keys):
        ck.explain('instance:face_released_only_by_destructor')
    if any(k.startswith('fixup-index') for k in keys):
        ck.explain('instance:fixup_constructor_tests_positivity')
        ck.explain('instance:fixup_set_searches_from_1')


def replay(data: dict) -> int:
    r = data['replay']
    if 'history' in r:
        steps, _, _ = run_history([tuple(e) for e in r['history']])
        for i, s in enumerate(steps):
            print(i, s, list(dup_report(s)) if 'error' not in s else '')
        return 0
    print(r)
    return 0
