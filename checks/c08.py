"""C08 — IDs handed out inside one VMF are unique per kind and never reused while live."""
from __future__ import annotations

import gc
import random

from harness.common import Ck, coq_Z_list, coq_list
from translate import c08_sites

MANIFEST = dict(
    technique='Rocq proof (allocator refinement to a finite set, lifecycle NoDup invariants by induction over histories of several maps incl. copy/parse/collapse, nested Entity/Solid/Side world with bundled events incl. collapse_one and VMF.parse as a program read from the source, nav-node ID lifecycle in one and several maps, fixup indexes over whole histories, constructors that raise half-way as step lists read from the source incl. the attrs-generated __init__) + ast site censuses with semantic normalisation + vm_compute correspondences',
    text='Theorems in Props/C08.v: the IDMan scan terminates and returns a positive unused ID keeping the search_pos invariant; from every invariant state IDMan is observationally equal to a plain finite set that hands out the desired ID if positive and free, else the least free positive ID (search_pos is unobservable); for every history over any number of maps of construction with arbitrary desired IDs, copy() within and across maps, removal, re-adding, destruction, VMF.parse of documents with colliding/missing/non-positive IDs and collapse_one, the existing objects of one kind that belong to one map have pairwise distinct positive IDs, provided IDs are released only by destructors and every copy site passes the destination map down; the same for entities, their brushes and the faces of those as ONE world whose events are the bundles of constructor/copy/remove/destructor calls made for a top-level object and its parts (order and desired IDs of the nested calls are part of the model), VMF.parse of any document being one such event: the steps of VMF.parse that touch these IDs (placeholder worldspawn of the constructor, world block, re-binding of map.spawn = the moment the destructor of the placeholder runs under CPython reference counting, entity blocks) are read off its body on every run and interpreted by the model, and the theorem holds for every such program that contains no explicit release -- so parse-then-allocate histories are covered, and a parse that hands the ID of the placeholder back itself is refuted by a computed witness (entity IDs 1, 1); nav-node IDs held by existing entities are distinct and positive after every history of key set/delete/copy/remove/re-add/destroy provided remove_ent does not release them and copies register their node ID, in one map and over several maps incl. cross-map copies, IDs reserved by Instance.fixup_key and collapse_one of node entities (copy all, then reserve and reassign every copied node ID); replaceNN indexes of one entity are distinct and positive after the constructor on any list and every sequence of set/setdefault/update, del/pop, clear, rebuild by Entity.copy and copy/deepcopy/pickle. Constructor calls that FAIL: the constructor of every ID-bearing class is read off the source as a step list (for attrs classes the generated __init__: one store per field in declaration order, converters and factories inside the stores, validators after them, then __attrs_post_init__; self.id = <requested value> is a raw store, self.id = <manager>.get_id(..) a registration), together with the shape of the destructor (releases self.id / only under an ownership flag the constructor sets); for EVERY step list that passes the boolean ctor_ok, after every history of constructor calls with arbitrary desired IDs that complete or raise at any step that can raise, and of destructor calls of complete and half-built objects at any later time, the complete objects that exist have pairwise distinct positive IDs handed out to them (c08_failed_constructors_unique); the shape of seeded fault c08_8 / of the Solid class of the pinned tree (raw store, converter, registration, unguarded destructor) is refuted by a computed witness (brush IDs 1, 2, 2), and so is copy.copy() left to the default protocol (1, 1). The premises (release sites, ID stores, map argument of every constructor/copy call inside copy() methods and collapse_one, every write into Entity._keys and into the fixup index table, node-ID shapes, fixup acceptance test / deferral / start index, hint guard, the program of VMF.parse, the map argument of every constructor call in helpers such as make_prism, the manager class chosen when preserve_ids is false) are regenerated from the source on every run by a fail-closed translator that normalises names, test spellings, branch order, single-use locals, helper functions and loop forms, and are kernel-checked; IDMan, EntityFixup histories, the entity lifecycle, three-map histories of entities/brushes/faces/brush groups/visgroups (per kind and as bundled events), node-ID histories in one map and over three maps (with the real collapse_one) and VMF.parse results are compared with the models on random inputs (exact IDs); the half-built objects that junk constructor arguments and corrupted parse blocks really leave behind (found through the traceback: id slot set? registered by this call? flag? released when it died?) must be states of the step list read from the source; constructor and parse calls that fail on maps whose live objects hold the requested IDs (every class, every parameter with junk values, every leaf of an exported block corrupted or removed, the half-built object dropped at once or kept alive by the exception for a while) and copy.copy() of live objects are followed by allocations and a scan; histories over all ID kinds including collapse_one (visgroup False / True / a VisGroup), make_prism / make_hollow and maps that start as parsed documents (world id 1, small colliding IDs) are searched on real VMF objects, the worldspawn included in every entity scan, with a full gc.collect() at every step boundary.',
    note='Trusted: Coq kernel + vm_compute, translate/c08_sites.py, c08_keys.py, c08_norm.py (which call sites matter: copy() methods of the five ID classes and collapse_one; other functions that build objects from a foreign map are not in the census), hand models SM/IdMan.v, SM/IdLife.v, SM/IdFixupHist.v, SM/IdWorld.v, SM/IdNest.v, SM/IdNode.v, SM/IdNodeMaps.v (tied by differential runs), CPython refcount/gc for __del__ timing (observed, not assumed, for the placeholder worldspawn of VMF.parse: weak references record at which constructor call it is gone; a full collection runs at every step boundary of the histories). Brush groups and visgroups are independent single-kind models (each class uses the manager of its kind: census obligation); their IDs are never released (no destructor: leak, modelled as such). collapse_one is an event of the nested model (which brushes and entities it copies, in which order, is computed by the model and compared with the real function; hidden objects, visgroup handling and the keyvalue rewriting are searched, not modelled). Node IDs reserved by Instance.fixup_key are never released (a leak; modelled as the events NReserve / MReserve and compared). In the several-maps node model a nodeid key is a node ID for the entity classes whose FGD type says so (the correspondence sets it on info_node only). The deprecated Entity.keys dict (returned by reference) and a table handed to EntityFixup.__setstate__ bypass the censuses (listed as exposures). Round 5: translate/c08_ctor.py is trusted for which statements of a constructor can raise (everything except `self.x = <name or constant>`; converters, validators, non-constant factories, on_setattr hooks) and for the order in which attrs runs them (tied to reality only through the observed half-built states); get_id itself is taken not to raise; the destructor of a half-built object is modelled as running at any later time (the traceback keeps it alive), an unset slot makes it raise AttributeError, which CPython ignores. Objects created behind the back of the constructor other than by copy.copy() (object.__new__, a hand-made __setstate__) are not covered; pickling a whole map recreates the managers together with the objects and is consistent. Maps opened with preserve_ids=True are exempt by definition: they use NullIDMan, which hands desired IDs out without looking; C08 assumes NullIDMan is used for nothing else, and the census obligation maps_get_idman_unless_preserve_ids checks that VMF.__init__ gives all six managers the class IDMan when preserve_ids is false, that it defaults to False in VMF.__init__ and VMF.parse and that parse hands its parameter on. A stage in which the implementation loops or raises ends as a VIOLATION with the stage and seed as replay (alarm timer around every stage).',
)

IMPORTS = ['SV.SM.IdMan', 'SV.SM.IdManSpec', 'SV.SM.IdLife', 'SV.SM.IdFixupHist', 'SV.SM.IdWorld', 'SV.SM.IdNest', 'SV.SM.IdNode', 'SV.SM.IdNodeMaps', 'SV.SM.IdCtor', 'SV.Gen.IdSites_gen', 'SV.Props.C08',
           'Coq.ZArith.ZArith', 'Coq.Lists.List']
PRE = '''Import ListNotations. Open Scope Z_scope.
Fixpoint zl_eqb (a b : list Z) : bool := match a, b with [] , [] => true | x :: a', y :: b' => Z.eqb x y && zl_eqb a' b' | _, _ => false end.
Fixpoint bad_idx {A} (f : A -> bool) (n : Z) (l : list A) : list Z := match l with [] => [] | x :: r => (if f x then [] else [n]) ++ bad_idx f (n + 1) r end.
'''


def eval_bad(ck: Ck, name: str, preamble: str, exprs: list[str], per_call: int = 8) -> list[list[int]] | None:
    """Evaluate `bad_idx ...` expressions, several per coqc process (starting a process that loads the development costs
    more than evaluating a few hundred cases).  Returns the list of disagreeing indexes per expression, or None."""
    from harness.common import parse_coq_N_list
    out: list[list[int]] = []
    for lo in range(0, len(exprs), per_call):
        vals = ck.coq_eval(IMPORTS, exprs[lo:lo + per_call], name=name, preamble=preamble)
        if vals is None:
            return None
        out += [parse_coq_N_list(v) for v in vals]
    return out


# ------------------------------------------------------------------------------------------------ allocator
def gen_idman_ops(rng: random.Random, n: int) -> list[tuple]:
    ops = []
    hi = rng.choice([3, 6, 12, 40])
    for _ in range(n):
        r = rng.random()
        if r < 0.45:
            d = rng.choice([-1, -1, 0, -7, rng.randint(1, hi), rng.randint(1, hi)])
            ops.append(('Get', d))
        elif r < 0.70:
            ops.append(('Discard', rng.randint(-2, hi)))
        elif r < 0.80:
            ops.append(('Remove', rng.randint(-1, hi)))
        elif r < 0.83:
            ops.append(('Clear',))
        elif r < 0.93:
            ops.append(('Contains', rng.randint(-1, hi)))
        else:
            ops.append(('Len',))
    return ops


def impl_idman(ops, existing=(), problems=None) -> list[int]:
    """Results of the operations on a real IDMan.  `problems` collects direct breaches seen on the way: an ID handed
    out that is not positive or was in use, and a search hint that skips a free positive ID (the invariant under
    which the hint is unobservable, SM/IdManSpecProofs.v)."""
    from srctools.vmf import IDMan
    m = IDMan(existing)
    out = []
    for n_op, op in enumerate(ops):
        k = op[0]
        if problems is not None:
            hint = getattr(m, 'search_pos', 1)
            if hint < 1 or any(j not in m for j in range(1, min(hint, 64))):
                problems.append(('idman-hint-skips-free-id', n_op, hint))
        if k == 'Get':
            before = set(m)
            r = m.get_id(op[1])
            out.append(r)
            if problems is not None and r <= 0:
                problems.append(('idman-nonpositive-id', n_op, r))
            if problems is not None and r in before:
                problems.append(('idman-id-in-use', n_op, r))
        elif k == 'Discard':
            m.discard(op[1]); out.append(-2)
        elif k == 'Remove':
            try:
                m.remove(op[1]); out.append(-2)
            except KeyError:
                out.append(-1)
        elif k == 'Clear':
            m.clear(); out.append(-2)
        elif k == 'Contains':
            out.append(1 if op[1] in m else 0)
        elif k == 'Len':
            out.append(len(m))
    return out


def coq_op(op) -> str:
    return op[0] if len(op) == 1 else f'{op[0]} ({op[1]})'


def corr_idman(ck: Ck) -> None:
    n = ck.budget(600, 6000)
    cases = []
    reported: dict[str, int] = {}
    corpus = [[('Get', -1), ('Discard', 1), ('Get', -1), ('Discard', 1), ('Get', -1)],
              [('Get', 5), ('Get', 5), ('Discard', 0), ('Get', -1), ('Get', -1)],
              [('Get', 2), ('Get', 1), ('Get', -1), ('Remove', 9), ('Discard', 2), ('Get', 0), ('Len',)]]
    todo = []
    for i in range(n):
        ops = corpus[i] if i < len(corpus) else gen_idman_ops(ck.rng, ck.rng.choice([3, 8, 20, 45]))
        # IDMan(existing): any starting set (also non-positive members); then a sweep of __contains__ over the range
        existing = [] if i < len(corpus) or ck.rng.random() < 0.5 else [ck.rng.randint(-2, 9) for _ in range(ck.rng.choice([1, 3, 6]))]
        todo.append((list(ops) + [('Contains', x) for x in range(-2, 14)] + [('Len',)], existing))
    if ck.budget(0, 1):
        # thorough tier (or a broken tie): EVERY sequence of up to 4 operations over a small alphabet, from the empty manager
        import itertools
        alpha = [('Get', d) for d in (-1, 0, 1, 2, 3)] + [('Discard', e) for e in (0, 1, 2, 3)] + [('Remove', 1), ('Remove', 2), ('Clear',)]
        for length in range(5):
            for seq in itertools.product(alpha, repeat=length):
                todo.append((list(seq) + [('Contains', x) for x in range(0, 5)] + [('Len',)], []))
                ck.hist('idman_exhaustive', length)
    for ops, existing in todo:
        problems: list = []
        exp = impl_idman(ops, existing, problems)
        cases.append((ops, exp, existing))
        for key, n_op, val in problems[:1]:
            if key not in reported or len(ops) < reported[key]:
                reported[key] = len(ops)
                ck.violation(key, f'IDMan: {key} (value {val}) at operation {n_op}',
                             {'existing': existing, 'ops': [coq_op(o) for o in ops[:n_op + 1]], 'results': exp[:n_op + 1],
                              'how': 'checks.c08.impl_idman(ops, existing)'})
        ck.hist('idman_existing', len(existing))
        ck.count('idman_sequences')
        ck.hist('idman_len', len(ops) // 10 * 10)
        for op in ops:
            ck.hist('idman_ops', op[0])
        if len(set(exp)) > 3:
            ck.seen(('idman', tuple(ops)))
    ck.sample({'idman_ops': [coq_op(o) for o in cases[3][0]], 'impl_results': cases[3][1]})
    bad: list[int] = []
    exprs = []
    for lo in range(0, len(cases), 500):
        part = cases[lo:lo + 500]
        lit = coq_list(f'(({coq_Z_list(ex)}, {coq_list(coq_op(o) for o in ops)}), {coq_Z_list(exp)})' for ops, exp, ex in part)
        exprs.append(f'bad_idx (fun c : (list Z * list op) * list Z => zl_eqb (run_res idman_lower_guard (init_from (fst (fst c))) (snd (fst c))) (snd c)) 0 {lit}')
    res = yield ('idman', PRE, exprs, 12)
    if res is None:
        ck.obligation('correspondence:idman', False, 'model could not be evaluated')
        ck.tie_broken.append('correspondence IDMan: model evaluation failed')
        return
    for c, idxs in enumerate(res):
        bad += [c * 500 + i for i in idxs]
    ck.obligation('correspondence:idman', not bad,
                  f'{len(cases)} operation sequences ({n} random' + (f' + all {len(cases) - n} of length <= 4 over 12 operations' if len(cases) > n else '')
                  + f'), model (vm_compute) vs srctools.vmf.IDMan: {len(bad)} disagreements')
    if bad:
        ops, exp, ex = min((cases[i] for i in bad), key=lambda c: len(c[0]))
        ck.tie_broken.append('correspondence IDMan (SM/IdMan.v run vs srctools.vmf.IDMan)')
        ck.extra['idman_disagreement'] = {'existing': ex, 'ops': [coq_op(o) for o in ops], 'impl': exp}


# ------------------------------------------------------------------------------------------------ fixups
def run_fixup_case(init, ops, via_entity: bool):
    """One EntityFixup history on the implementation -> sorted [(variable number, index)].

    ops: ('set'|'setdefault'|'update'|'del'|'pop'|'clear'|'rebuild'|'copy'|'deepcopy'|'pickle', variable number)."""
    import copy as _copy
    import pickle
    from srctools.vmf import VMF, Entity, EntityFixup, FixupValue
    vals = [FixupValue(f'v{v}', 'x', ind) for v, ind in init]
    ent = None
    if via_entity:
        ent = Entity(VMF(), {'classname': 'func_instance'}, fixup=vals)
        fx = ent.fixup
    else:
        fx = EntityFixup(vals)
    for o, v in ops:
        if o == 'set':
            fx[f'v{v}'] = 'y'
        elif o == 'setdefault':
            fx.setdefault(f'$V{v}', 'z')
        elif o == 'update':
            fx.update({f'v{v}': 'u'})
        elif o == 'del':
            del fx[f'V{v}']
        elif o == 'pop':
            fx.pop(f'v{v}', None)
        elif o == 'clear':
            fx.clear()
        elif o == 'rebuild':        # what Entity.copy() does with the fixups
            if ent is not None:
                ent = ent.copy()
                fx = ent.fixup
            else:
                fx = EntityFixup(fx.copy_values())
        elif o == 'copy':
            fx = _copy.copy(fx)
            ent = None
        elif o == 'deepcopy':
            fx = _copy.deepcopy(fx)
            ent = None
        elif o == 'pickle':
            fx = pickle.loads(pickle.dumps(fx))
            ent = None
    return sorted((int(f.var.lstrip('$')[1:]), f.id) for f in fx._fixup.values())


_FX_COQ = {'set': 'FSet', 'setdefault': 'FSet', 'update': 'FSet', 'del': 'FDel', 'pop': 'FDel'}


def corr_fixups(ck: Ck, require_positive: bool, defer: bool = True) -> None:
    n = ck.budget(300, 3000)
    cases = []
    todo = []
    for i in range(n):
        rng = ck.rng
        init = [(rng.randint(0, 5), rng.choice([0, -1, 1, 1, 2, 3, 4, 7, 12])) for _ in range(rng.choice([0, 1, 3, 6]))]
        ops = []
        for _ in range(rng.choice([0, 2, 6, 12])):
            r = rng.random()
            if r < 0.45:
                ops.append((rng.choice(['set', 'set', 'setdefault', 'update']), rng.randint(0, 7)))
            elif r < 0.70:
                ops.append((rng.choice(['del', 'del', 'pop']), rng.randint(0, 7)))
            elif r < 0.74:
                ops.append(('clear', 0))
            elif r < 0.88:
                ops.append(('rebuild', 0))
            else:
                ops.append((rng.choice(['copy', 'deepcopy', 'pickle']), 0))
        todo.append((init, ops, rng.random() < 0.4))
    if ck.budget(0, 1):
        # thorough tier (or a broken tie): EVERY constructor argument of up to 2 values over 2 variables x indexes {-1, 0, 1, 2}
        # followed by EVERY sequence of up to 2 operations, and every argument of 3 values followed by at most one operation
        import itertools
        vals = [(v, i) for v in (0, 1) for i in (-1, 0, 1, 2)]
        alpha = [('set', 0), ('set', 2), ('del', 0), ('del', 1), ('clear', 0), ('rebuild', 0), ('copy', 0)]
        for n_init, n_ops in ((0, 2), (1, 2), (2, 2), (3, 1)):
            for init_t in itertools.product(vals, repeat=n_init):
                for k in range(n_ops + 1):
                    for ops_t in itertools.product(alpha, repeat=k):
                        todo.append((list(init_t), list(ops_t), False))
                        ck.hist('fixup_exhaustive(init,ops)', (n_init, k))
    for init, ops, via_entity in todo:
        got = run_fixup_case(init, ops, via_entity)
        cases.append((init, ops, got))
        ck.count('fixup_histories')
        for o, _ in ops:
            ck.hist('fixup_ops', o)
        if len(got) > 1:
            ck.seen(('fixup', tuple(init), tuple(ops)))
        ids = [g[1] for g in got]
        if len(set(ids)) != len(ids) or any(x <= 0 for x in ids):
            key = 'fixup-index-nonpositive-from-init' if all(x > 0 for _, x in init) is False and len(set(ids)) == len(ids) else 'fixup-index-duplicate'
            ck.violation(key, 'EntityFixup holds a duplicate or non-positive replaceNN index',
                         {'init': init, 'ops': ops, 'via_entity': via_entity, 'result': got,
                          'how': 'checks.c08.run_fixup_case(init, ops, via_entity)'})
    ck.sample({'fixup_init(var,index)': cases[-1][0], 'ops': cases[-1][1], 'impl_result_sorted': cases[-1][2]})
    rp = ('true' if require_positive else 'false') + (' true' if defer else ' false')
    pre = PRE + '''
Fixpoint ins (p : Z * Z) (l : list (Z * Z)) := match l with [] => [p] | q :: r => if (fst p <? fst q) then p :: l else q :: ins p r end.
Definition srt (l : list (Z * Z)) := fold_right ins [] l.
Definition fx_run (rp df : bool) (c : list (Z * Z) * list fxop) : list (Z * Z) := srt (fx_hist rp df (fst c) (snd c)).
Fixpoint pl_eqb (a b : list (Z * Z)) : bool := match a, b with [], [] => true | (x, y) :: a', (u, v) :: b' => Z.eqb x u && Z.eqb y v && pl_eqb a' b' | _, _ => false end.
'''
    def pairs(l):
        return coq_list(f'({a}, {b})' if b >= 0 else f'({a}, ({b}))' for a, b in l)

    def cop(o, v):
        if o in _FX_COQ:
            return f'{_FX_COQ[o]} {v}'
        return {'clear': 'FClear', 'rebuild': 'FRebuild'}.get(o, 'FCopy')
    exprs = []
    for lo in range(0, len(cases), 500):
        part = cases[lo:lo + 500]
        lit = coq_list(f'(({pairs(i)}, {coq_list(cop(o, v) for o, v in ops)}), {pairs(g)})' for i, ops, g in part)
        exprs.append(f'bad_idx (fun c : (list (Z * Z) * list fxop) * list (Z * Z) => pl_eqb (fx_run {rp} (fst c)) (snd c)) 0 {lit}')
    res = yield ('fixup', pre, exprs, 12)
    if res is None:
        ck.obligation('correspondence:fixup', False, 'model could not be evaluated')
        ck.tie_broken.append('correspondence EntityFixup: model evaluation failed')
        return
    bad = [c * 500 + i for c, idxs in enumerate(res) for i in idxs]
    ck.obligation('correspondence:fixup', not bad,
                  f'{len(cases)} EntityFixup histories ({n} random' + (f' + all {len(cases) - n} small ones' if len(cases) > n else '')
                  + ': constructor, set/setdefault/update, del/pop, clear, rebuild via copy_values/Entity.copy, '
                  f'copy/deepcopy/pickle), model fx_hist vs implementation: {len(bad)} disagreements')
    if bad:
        ck.tie_broken.append('correspondence EntityFixup (SM/IdFixupHist.v fx_hist vs srctools.vmf.EntityFixup)')
        ck.extra['fixup_disagreement'] = {'case': cases[bad[0]]}


# ------------------------------------------------------------------------------------------------ lifecycle
KINDS = ['ent', 'solid', 'group', 'vis']


def gc_begin() -> None:
    """Destructor timing is part of the oracle: a FULL collection runs at every step boundary of a history, so an object
    that is only kept alive by a reference cycle releases its ID at a defined time (objects freed by reference counting
    release theirs at once).  To keep full collections cheap, everything that exists when a history starts is moved to
    the permanent generation first; `gc_end` undoes that."""
    gc.collect()
    gc.freeze()


def gc_step() -> None:
    gc.collect()


def gc_end() -> None:
    gc.unfreeze()


def scan_map(vmf) -> dict[str, list[int]]:
    """All IDs of objects reachable from the map, per kind."""
    ents = [vmf.spawn, *vmf.entities]
    solids = list(vmf.brushes) + [s for e in vmf.entities for s in e.solids]
    out = {
        'ent': [e.id for e in ents],       # the worldspawn is an entity too: its "id" is exported next to the others
        'solid': [s.id for s in solids],
        'face': [f.id for s in solids for f in s.sides],
        'group': [g.id for g in vmf.groups.values()],
        'vis': [v.id for v in _walk_vis(vmf.vis_tree)],
        'node': [int(e['nodeid']) for e in vmf.entities if 'nodeid' in e and _isint(e['nodeid'])],
    }
    for i, e in enumerate(ents):
        if e._fixup is not None:
            out[f'fixup{i}'] = [f.id for f in e._fixup._fixup.values()]
    return out


def _isint(s) -> bool:
    try:
        int(s)
        return True
    except (TypeError, ValueError):
        return False


def _walk_vis(lst):
    for v in lst:
        yield v
        yield from _walk_vis(v.child_groups)


def dup_report(ids: dict[str, list[int]]):
    for kind, l in ids.items():
        if len(set(l)) != len(l):
            yield kind, 'duplicate', sorted(x for x in set(l) if l.count(x) > 1)
        if any(x <= 0 for x in l):
            yield kind, 'nonpositive', sorted(x for x in l if x <= 0)


def run_history(hist: list[tuple], record_release=None):
    """Execute a lifecycle history on a real VMF. Returns (list of per-step id scans, objects, effective events)."""
    from srctools.vmf import VMF, Entity, Solid, Side, EntityGroup, VisGroup
    from srctools.math import Vec
    from srctools.keyvalues import Keyvalues
    # ('parse', 0|1, text): the map starts as VMF.parse(text) instead of VMF() -- whatever the position of the event in the list
    texts = {ev[1]: ev[2] for ev in hist if ev[0] == 'parse'}
    steps = []
    gc_begin()
    try:
        vmf = VMF.parse(Keyvalues.parse(texts[0])) if 0 in texts else VMF()
        vmf2 = VMF.parse(Keyvalues.parse(texts[1])) if 1 in texts else VMF()        # destination of cross-map copies
    except Exception as e:
        return [{'error': f'VMF.parse: {type(e).__name__}: {e}'}], [], None
    gc_step()
    for _ in range(3):  # pre-populate so that ID ranges of the two maps overlap
        vmf2.add_brush(vmf2.make_prism(Vec(0, 0, 0), Vec(8, 8, 8)).solid)
        vmf2.create_ent('info_target')
        vmf2.create_ent('info_node', nodeid='1')
        g2 = EntityGroup(vmf2)
        vmf2.groups[g2.id] = g2
        vmf2.vis_tree.append(VisGroup(vmf2, 'own'))
    objs: list = []     # [kind, obj or None, in_map]
    for ev in hist:
        op = ev[0]
        try:
            if op == 'parse':
                if ev[1] == 0:      # the parsed objects of the first map take part in the history like created ones
                    for b in vmf.brushes:
                        objs.append(['solid', b, True])
                    for e in vmf.entities:
                        objs.append(['node' if e['classname'] == 'info_node' else 'brushent' if e.solids else 'ent', e, True])
                    b = e = None
            elif op == 'create':
                _, kind, desired = ev
                if kind == 'ent':
                    o = Entity(vmf, {'classname': 'info_target'}, ent_id=desired)
                    vmf.add_ent(o)
                elif kind == 'node':
                    o = vmf.create_ent('info_node', nodeid=str(desired))
                elif kind == 'solid':
                    pr = vmf.make_prism(Vec(0, 0, 0), Vec(8, 8, 8))
                    o = Solid(vmf, id=desired, sides=[Side(vmf, [p.copy() for p in s.planes], des_id=desired + k if desired > 0 else desired)
                                                           for k, s in enumerate(pr.solid.sides)])
                    del pr
                    vmf.add_brush(o)
                elif kind == 'prism':       # the helpers that build whole brushes for the map they are called on
                    o = vmf.make_prism(Vec(0, 0, 0), Vec(8, 8, 8)).solid
                    vmf.add_brush(o)
                    kind = 'solid'
                elif kind == 'hollow':
                    rest = vmf.make_hollow(Vec(0, 0, 0), Vec(64, 64, 64))
                    vmf.add_brushes(rest)
                    o = rest.pop()
                    for r_ in rest:
                        objs.append(['solid', r_, True])
                    r_ = rest = None
                    kind = 'solid'
                elif kind == 'brushent':
                    pr = vmf.make_prism(Vec(0, 0, 0), Vec(8, 8, 8))
                    o = Entity(vmf, {'classname': 'func_detail'}, ent_id=desired, solids=[pr.solid])
                    del pr
                    vmf.add_ent(o)
                elif kind == 'group':
                    o = EntityGroup(vmf, desired)
                    vmf.groups[id(o)] = o
                elif kind == 'vis':
                    o = VisGroup(vmf, 'v', desired)
                    vmf.vis_tree.append(o)
                elif kind == 'vischild':    # nested under the most recent visgroup (or top level when there is none)
                    o = VisGroup(vmf, 'c', desired)
                    parents = [x[1] for x in objs if x[0] in ('vis', 'vischild')]
                    (parents[-1].child_groups if parents else vmf.vis_tree).append(o)
                objs.append([kind, o, True])
            elif op == 'copy':
                k = ev[1] % len(objs) if objs else None
                if k is None or objs[k][1] is None or objs[k][0] in ('group', 'vis', 'vischild'):
                    continue
                kind, src, _ = objs[k]
                if kind in ('ent', 'brushent', 'node'):
                    o = src.copy()
                    vmf.add_ent(o)
                else:
                    o = src.copy()
                    vmf.add_brush(o)
                objs.append([kind, o, True])
            elif op == 'xcopy':     # copy into the other map
                k = ev[1] % len(objs) if objs else None
                if k is None or objs[k][1] is None or objs[k][0] == 'vischild':
                    continue
                kind, src, _ = objs[k]
                if kind == 'group':
                    o = src.copy(vmf2)
                    vmf2.groups[id(o)] = o
                    del o
                    continue
                if kind == 'vis':
                    o = src.copy(vmf2, {})
                    vmf2.vis_tree.append(o)
                    del o
                    continue
                o = src.copy(vmf_file=vmf2)
                if kind in ('ent', 'brushent', 'node'):
                    vmf2.add_ent(o)
                else:
                    vmf2.add_brush(o)
                del o
            elif op == 'collapse':  # the whole first map is collapsed into the second one as an instance
                from srctools import instancing
                from srctools.math import Matrix
                inst = instancing.Instance('inst', '', Vec(16 * ev[1], 0, 0), Matrix())
                instancing.collapse_one(vmf2, inst, instancing.InstanceFile(vmf), visgroup=vmf2.vis_tree[0] if ev[2] == 2 else bool(ev[2]))
                del inst
            elif op == 'remove':
                k = ev[1] % len(objs) if objs else None
                if k is None or objs[k][1] is None or not objs[k][2] or objs[k][0] in ('group', 'vis', 'vischild'):
                    continue
                objs[k][1].remove()
                objs[k][2] = False
            elif op == 'readd':
                k = ev[1] % len(objs) if objs else None
                if k is None or objs[k][1] is None or objs[k][2] or objs[k][0] in ('group', 'vis', 'vischild'):
                    continue
                if objs[k][0] in ('ent', 'brushent', 'node'):
                    vmf.add_ent(objs[k][1])
                else:
                    vmf.add_brush(objs[k][1])
                objs[k][2] = True
            elif op == 'gc':
                k = ev[1] % len(objs) if objs else None
                if k is None or objs[k][1] is None or objs[k][2]:
                    continue
                objs[k][1] = None
                gc.collect(0)
            elif op == 'setnode':
                k = ev[1] % len(objs) if objs else None
                if k is None or objs[k][1] is None or objs[k][0] != 'node':
                    continue
                objs[k][1]['nodeid'] = str(ev[2])
            elif op == 'delnode':
                k = ev[1] % len(objs) if objs else None
                if k is None or objs[k][1] is None or objs[k][0] != 'node':
                    continue
                del objs[k][1]['nodeid']
        except Exception as e:   # an exception in the public API during a legal history is itself reported
            steps.append({'error': f'{type(e).__name__}: {e}'})
            break
        gc_step()
        sc = scan_map(vmf)
        sc.update({'map2:' + k: v for k, v in scan_map(vmf2).items()})
        steps.append(sc)
    return steps, objs, vmf


def gen_history(rng: random.Random, n: int, kinds) -> list[tuple]:
    h = []
    # parse-then-allocate: in a quarter of the histories the first map (sometimes the second one too) starts as a parsed
    # document with small, colliding, missing IDs; the world block has id 1 in most of them, as Hammer writes it
    if rng.random() < 0.25:
        h.append(('parse', 0, gen_vmf_doc(rng, small=True)[0]))
        if rng.random() < 0.3:
            h.append(('parse', 1, gen_vmf_doc(rng, small=True)[0]))
    n_parse = len(h)
    for _ in range(n):
        r = rng.random()
        if r < 0.40 and n_parse and rng.random() < 0.5:
            h.append(('create', rng.choice(kinds), -1))     # a plain allocation right after the parse
        elif r < 0.40 or not h:
            h.append(('create', rng.choice(kinds), rng.choice([-1, -1, 0, -4, 1, 2, 2, 3, 5])))
        elif r < 0.46:
            h.append(('copy', rng.randint(0, 9)))
        elif r < 0.50:
            h.append(('xcopy', rng.randint(0, 9)))
        elif r < 0.53:
            h.append(('collapse', rng.randint(0, 3), rng.randint(0, 2)))     # visgroup=False / True / a VisGroup of the destination
        elif r < 0.70:
            h.append(('remove', rng.randint(0, 9)))
        elif r < 0.80:
            h.append(('readd', rng.randint(0, 9)))
        elif r < 0.95:
            h.append(('gc', rng.randint(0, 9)))
        elif r < 0.98:
            h.append(('setnode', rng.randint(0, 9), rng.choice([-3, 0, 1, 2, 3, 9])))
        else:
            h.append(('delnode', rng.randint(0, 9)))
    return h


HAMMER_DOC = ('versioninfo\n{\n"formatversion" "100"\n}\nworld\n{\n"id" "1"\n"classname" "worldspawn"\n}\n'
              'entity\n{\n"id" "2"\n"classname" "info_target"\n}\n')
CORPUS_HIST = [
    [('parse', 0, HAMMER_DOC), ('create', 'ent', -1), ('copy', 0), ('create', 'brushent', -1)],
    [('parse', 0, HAMMER_DOC), ('parse', 1, HAMMER_DOC), ('collapse', 0, 1), ('xcopy', 0), ('create', 'node', -1)],
    [('create', 'ent', -1), ('remove', 0), ('create', 'ent', -1), ('gc', 0), ('create', 'ent', -1)],
    [('create', 'solid', -1), ('remove', 0), ('create', 'solid', -1), ('gc', 0), ('create', 'solid', -1)],
    [('create', 'node', 3), ('create', 'node', 3), ('create', 'node', 3)],
    [('create', 'node', -5), ('create', 'node', -1)],
    [('create', 'ent', 2), ('create', 'ent', 2), ('copy', 0), ('remove', 1), ('readd', 1), ('create', 'ent', 2)],
    [('create', 'brushent', 4), ('copy', 0), ('remove', 0), ('gc', 0), ('create', 'brushent', 1), ('create', 'solid', 1)],
    [('create', 'brushent', -1), ('xcopy', 0), ('create', 'solid', -1), ('xcopy', 1), ('xcopy', 0)],
    [('create', 'brushent', 2), ('create', 'solid', 1), ('create', 'vis', 1), ('create', 'node', 1), ('collapse', 0, 1), ('collapse', 1, 0),
     ('create', 'solid', -1), ('collapse', 2, 1)],
    [('create', 'vis', 1), ('create', 'vischild', 1), ('create', 'vischild', 2), ('create', 'group', 1), ('xcopy', 0), ('xcopy', 3), ('xcopy', 0),
     ('collapse', 0, 1)],
]


def classify(kind: str, what: str, hist) -> str:
    """Key naming the failing class of histories (used for known_findings matching)."""
    ops = {e[0] for e in hist}
    kinds = {e[1] for e in hist if e[0] == 'create'}
    if kind == 'node':
        if what == 'nonpositive':
            return 'node-id-nonpositive'
        return 'node-id-duplicate'
    if 'parse' in ops:      # the map was built by VMF.parse: parse-then-allocate
        return f'{kind}-id-{what}-after-parse'
    if 'remove' in ops and 'gc' in ops and kind in ('ent',):
        return f'{kind}-id-duplicate-after-remove-and-gc' if what == 'duplicate' else f'{kind}-id-{what}'
    if 'remove' in ops and kind in ('ent',) and what == 'duplicate':
        return f'{kind}-id-duplicate-after-remove'
    return f'{kind}-id-{what}'


def shrink(hist, pred):
    cur = list(hist)
    changed = True
    while changed:
        changed = False
        for i in range(len(cur)):
            cand = cur[:i] + cur[i + 1:]
            if cand and pred(cand):
                cur = cand
                changed = True
                break
        if changed:
            continue
        for i, e in enumerate(cur):     # a parsed starting map: try the smallest Hammer-like document instead
            if e[0] == 'parse' and e[2] != HAMMER_DOC:
                cand = cur[:i] + [(e[0], e[1], HAMMER_DOC)] + cur[i + 1:]
                if pred(cand):
                    cur = cand
                    changed = True
                    break
    return cur


def first_problem(hist):
    steps, _, _ = run_history(hist)
    for i, s in enumerate(steps):
        if 'error' in s:
            return ('api', 'exception', s['error'], i)
        for kind, what, vals in dup_report(s):
            k = kind.replace('map2:', '')
            k = ('xmap-' if kind.startswith('map2:') else '') + ('fixup' if k.startswith('fixup') else k)
            return (k, what, vals, i)
    return None


def search_lifecycle(ck: Ck) -> None:
    n = ck.budget(700, 8000)
    found: dict[str, tuple] = {}
    for i in range(n):
        if i < len(CORPUS_HIST):
            hist = CORPUS_HIST[i]
        else:
            kinds = ck.rng.choice([['ent'], ['solid'], ['ent', 'brushent', 'solid'], ['node', 'ent'], ['group', 'vis', 'vischild', 'ent'],
                                   ['solid', 'prism', 'hollow', 'brushent'],
                                   ['ent', 'solid', 'brushent', 'node', 'group', 'vis', 'vischild', 'prism']])
            hist = gen_history(ck.rng, ck.rng.choice([4, 8, 16, 30]), kinds)
        ck.count('lifecycle_histories')
        for e in hist:
            ck.hist('lifecycle_events', e[0])
        p = first_problem(hist)
        if {e[0] for e in hist} >= {'create', 'remove'}:
            ck.seen(('life', tuple(hist)))
        if p is None:
            continue
        key = classify(p[0], p[1], hist)
        if key in found and len(found[key][0]) <= 4:
            continue
        def same(h, key=key):
            q = first_problem(h)
            return q is not None and classify(q[0], q[1], h) == key
        small = shrink(hist, same)
        if key not in found or len(small) < len(found[key][0]):
            found[key] = (small, first_problem(small))
    ck.sample({'lifecycle_history': CORPUS_HIST[6], 'id_scan_after_last_step': run_history(CORPUS_HIST[6])[0][-1]})
    gc_end()
    for key, (hist, p) in found.items():
        ck.violation(key, f'{p[0]} IDs {p[1]}: {p[2]} after step {p[3]} of history', {'history': hist, 'problem': p,
                     'how': 'checks.c08.run_history(history) then scan_map() after every step'})
    ck.extra['lifecycle_violation_keys'] = sorted(found)


def corr_lifecycle(ck: Ck, release_on_remove: bool) -> None:
    """The entity lifecycle model (SM/IdLife.v lrun) against real VMF entity histories: same IDs, same state."""
    from srctools.vmf import VMF, Entity
    n = ck.budget(250, 3000)
    cases = []
    for _ in range(n):
        rng = ck.rng
        vmf = VMF()
        log = []
        orig = vmf.ent_id.discard
        def spy(e, orig=orig, log=log):
            import sys
            log.append(sys._getframe(1).f_code.co_name)
            return orig(e)
        vmf.ent_id.discard = spy
        objs = [[vmf.spawn, vmf.spawn.id, True, True]]     # the constructor's worldspawn takes the first ID
        evs = ['Create (-1)']
        for _ in range(rng.choice([3, 6, 12, 20])):
            r = rng.random()
            if r < 0.4 or len(objs) < 2:
                d = rng.choice([-1, -1, 0, 1, 2, 3, 3, 6])
                e = Entity(vmf, {'classname': 'x'}, ent_id=d)
                vmf.add_ent(e)
                objs.append([e, e.id, True, True]); evs.append(f'Create ({d})')
                e = None
            else:
                k = rng.randrange(1, len(objs))
                o = objs[k]
                if r < 0.65:
                    if o[0] is not None and o[3]:
                        o[0].remove(); o[3] = False; evs.append(f'RemoveFromMap {k}')
                elif r < 0.8:
                    if o[0] is not None and not o[3]:
                        vmf.add_ent(o[0]); o[3] = True; evs.append(f'ReAdd {k}')
                else:
                    if o[0] is not None and not o[3]:
                        before = log.count('__del__')
                        o[0] = None
                        gc.collect(0)
                        if log.count('__del__') == before + 1:
                            o[2] = False
                            evs.append(f'Gc {k}')
                        else:       # still referenced elsewhere (e.g. a stale index): not an event
                            ck.count('gc_without_del')
        exp = [(o[1], o[2], o[3]) for o in objs]
        # final probe: what ID does the allocator hand out next?
        probe = vmf.ent_id.get_id(-1)
        cases.append((evs, exp, probe))
        ck.count('entity_lifecycle_histories')
        if any(e.startswith('Gc') for e in evs):
            ck.seen(('lc', tuple(evs)))
        vmf.ent_id.discard = orig
        del objs, vmf
    ck.sample({'entity_history': cases[-1][0], 'impl_objects(id,alive,inmap)': cases[-1][1], 'next_id': cases[-1][2]})
    rr = 'true' if release_on_remove else 'false'
    pre = PRE + f'''
Definition obs (w : world) : list Z := flat_map (fun o => [oid o; if alive o then 1 else 0; if inmap o then 1 else 0]) (objs w).
Definition probe (w : world) : Z := match get_id (-1) (man w) with Some (i, _) => i | None => -3 end.
Definition lrun' := lrun {rr}.
'''
    exprs = []
    for lo in range(0, len(cases), 400):
        part = cases[lo:lo + 400]
        lit = coq_list('(%s, %s)' % (coq_list(evs), coq_Z_list([x for (i, a, m) in exp for x in (i, int(a), int(m))] + [probe]))
                       for evs, exp, probe in part)
        exprs.append(f'bad_idx (fun c : list ev * list Z => zl_eqb (obs (lrun\' (fst c)) ++ [probe (lrun\' (fst c))]) (snd c)) 0 {lit}')
    res = yield ('life', pre, exprs, 4)
    if res is None:
        ck.obligation('correspondence:lifecycle', False, 'model could not be evaluated')
        ck.tie_broken.append('correspondence entity lifecycle: model evaluation failed')
        return
    bad = [c * 400 + i for c, idxs in enumerate(res) for i in idxs]
    ck.obligation('correspondence:lifecycle', not bad,
                  f'{len(cases)} entity histories, model lrun(release_on_remove={rr}) vs real VMF/Entity/gc: {len(bad)} disagreements')
    if bad:
        ck.tie_broken.append('correspondence entity lifecycle (SM/IdLife.v lrun vs VMF.add_ent/remove_ent/Entity.__del__)')
        ck.extra['lifecycle_disagreement'] = {'events': cases[bad[0]][0], 'impl': cases[bad[0]][1], 'probe': cases[bad[0]][2]}


# ------------------------------------------------------------------------------------------------ several maps
WORLD_PRE = PRE + '''
Definition wobs (w : wworld) : list Z :=
  flat_map (fun o => [wid o; if walive o then 1 else 0; if winmap o then 1 else 0; Z.of_nat (whome o)]) (wobjs w).
Definition wprobe (w : wworld) (m : nat) : Z := match get_id (-1) (man_of w m) with Some (i, _) => i | None => -3 end.
Definition wfull (k : kind) (es : list wev) : list Z :=
  let w := wrun (release_on_remove k) (copy_to_dest k) es in wobs w ++ [wprobe w 0%nat; wprobe w 1%nat; wprobe w 2%nat].
Definition wobs3 (w : wworld) : list Z := wobs w ++ [wprobe w 0%nat; wprobe w 1%nat; wprobe w 2%nat].
Definition tfull (es : list tev) : list Z * list Z * list Z :=
  let w := trun (release_on_remove KEnt) (release_on_remove KSolid) (release_on_remove KFace)
                (copy_to_dest KEnt) (copy_to_dest KSolid) (copy_to_dest KFace) parse_program es in
  let lists m := List.map Z.of_nat (tlisted_of w m false) ++ [-1] ++ List.map Z.of_nat (tlisted_of w m true) ++ [-2] in
  (wobs3 (tE w), wobs3 (tS w), wobs3 (tF w) ++ [-5] ++ lists 0%nat ++ lists 1%nat ++ lists 2%nat).
'''


WORLD_KINDS = ('KEnt', 'KSolid', 'KFace', 'KGroup', 'KVis')


class _Tracked:
    """One ID-bearing object followed by the harness, with the facts the model must reproduce."""
    __slots__ = ('ref', 'id', 'alive', 'inmap', 'home', 'wr')

    def __init__(self, obj, home):
        import weakref
        self.ref = obj
        self.id = obj.id
        self.alive = True
        self.inmap = True
        self.home = home
        try:
            self.wr = weakref.ref(obj)
        except TypeError:       # Side has __slots__ without __weakref__: its destructor is observed instead
            self.wr = None


def _zs(d: int) -> str:
    return f'({d})' if d < 0 else str(d)


_PDOC_ENT_IDS = [None, None, 0, 1, 1, 2, 2, 3, 5]
_PDOC_IDS = [None, -1, 0, 1, 1, 2, 2, 3, 4]


def gen_parse_doc(rng: random.Random):
    """A small VMF document for the nested model's TParse: (text, doc) with doc = {'world': desired ID of the world block,
    'brushes': [(hidden, desired, [desired face IDs])], 'ents': [(hidden, desired, [(desired, [faces])])]}; a missing id is
    desired -1.  The world block has id 1 in half of the documents (what Hammer writes); IDs are small and collide."""
    def des(d):
        return -1 if d is None else d

    def idline(d):
        return '' if d is None else f'"id" "{d}"\n'

    def solid():
        sd = rng.choice(_PDOC_IDS)
        fds = [rng.choice(_PDOC_IDS) for _ in range(rng.choice([1, 2]))]
        txt = 'solid\n{\n' + idline(sd) + ''.join('side\n{\n' + idline(fd) + '"plane" "(0 0 0) (1 0 0) (0 1 0)"\n"material" "A"\n}\n' for fd in fds) + '}\n'
        return txt, (des(sd), [des(fd) for fd in fds])

    wd = 1 if rng.random() < 0.5 else rng.choice(_PDOC_ENT_IDS)
    doc = {'world': des(wd), 'brushes': [], 'ents': []}
    world = 'world\n{\n' + idline(wd) + '"classname" "worldspawn"\n'
    for _ in range(rng.choice([0, 1, 2])):
        txt, sd = solid()
        hidden = rng.random() < 0.25
        world += 'hidden\n{\n' + txt + '}\n' if hidden else txt
        doc['brushes'].append((hidden, sd[0], sd[1]))
    out = ['versioninfo\n{\n"formatversion" "100"\n}\n', world + '}\n']
    for _ in range(rng.choice([0, 1, 2, 3])):
        ed = rng.choice(_PDOC_ENT_IDS)
        txt = 'entity\n{\n' + idline(ed)
        sds = []
        if rng.random() < 0.4:
            txt += '"classname" "func_detail"\n'
            for _ in range(rng.choice([1, 2])):
                t2, sd = solid()
                txt += t2
                sds.append(sd)
        else:
            txt += '"classname" "info_target"\n'
        txt += '}\n'
        hidden = rng.random() < 0.2
        out.append('hidden\n{\n' + txt + '}\n' if hidden else txt)
        doc['ents'].append((hidden, des(ed), sds))
    return ''.join(out), doc


def coq_pdoc(doc) -> str:
    def b(x):
        return 'true' if x else 'false'

    def sd(d, fds):
        return f'({_zs(d)}, {coq_list(_zs(x) for x in fds)})'
    return ('{| pd_world := %s; pd_brushes := %s; pd_ents := %s |}' % (
        _zs(doc['world']), coq_list(f'({b(h)}, {sd(d, fds)})' for h, d, fds in doc['brushes']),
        coq_list(f'({b(h)}, ({_zs(d)}, {coq_list(sd(*x) for x in sds)}))' for h, d, sds in doc['ents'])))


def observed_parse(text: str):
    """VMF.parse with every Entity / Solid / Side constructed on the way recorded in construction order.  Entities are held
    weakly, with their ID and with the indexes of the earlier entities whose destructor had run by then: the time at which
    the placeholder worldspawn dies is part of what is compared."""
    import weakref
    import srctools.vmf as V
    from srctools.keyvalues import Keyvalues
    log: dict = {'ent': [], 'solid': [], 'face': []}
    orig = {c: c.__init__ for c in (V.Entity, V.Solid, V.Side)}

    def ent_init(self, *a, **k):
        orig[V.Entity](self, *a, **k)
        log['ent'].append((weakref.ref(self), self.id, [i for i, (r, _, _) in enumerate(log['ent']) if r() is None]))

    def solid_init(self, *a, **k):
        orig[V.Solid](self, *a, **k)
        log['solid'].append(self)

    def side_init(self, *a, **k):
        orig[V.Side](self, *a, **k)
        log['face'].append(self)
    V.Entity.__init__, V.Solid.__init__, V.Side.__init__ = ent_init, solid_init, side_init
    try:
        vmf = V.VMF.parse(Keyvalues.parse(text))
    finally:
        for c, f in orig.items():
            c.__init__ = f
    gc_step()
    return vmf, log


def parse_mirror(prog: list[str], doc):
    """The order in which the steps of VMF.parse (read from the source: side['parse_program']) construct and destroy objects,
    as flat per-kind event lists for SM/IdWorld.v -- the bookkeeping the harness needs to know which Python object is which
    object of the models.  -> [(step, ...)] with ('ent', desired, role) / ('solid', desired) / ('face', desired) / ('drop',)."""
    out = []
    for st in prog:
        if st == 'GPPlaceholder':
            out.append(('ent', -1, 'placeholder'))
        elif st == 'GPWorld':
            for h, d, fds in doc['brushes']:
                out += [('face', fd) for fd in fds] + [('solid', d), ('top-brush', h, len(fds))]
            out.append(('ent', doc['world'], 'world'))
        elif st == 'GPDropPlaceholder':
            out.append(('drop',))
        elif st == 'GPEntities':
            for h, d, sds in doc['ents']:
                for sd, fds in sds:
                    out += [('face', fd) for fd in fds] + [('solid', sd)]
                out.append(('ent', d, 'entity', h, [len(fds) for _, fds in sds]))
        elif st == 'GPReleasePlaceholder':
            out.append(('release',))
    return out


def gen_world_case(rng: random.Random, n_ev: int, parse_prog: list[str] | None = None):
    """A random history over three real maps with point entities, brush entities and world brushes.

    Returns ({kind: [event strings]}, {kind: expected observation list}, description, per-map ID scans).  Every
    nested object gets its own events in the stream of its kind, in the order the implementation constructs them."""
    from srctools.vmf import VMF, Entity, Solid, Side, EntityGroup, VisGroup
    from srctools.math import Vec
    maps: list = []
    ev: dict = {k: [] for k in WORLD_KINDS}
    tr: dict[str, list[_Tracked]] = {k: [] for k in WORLD_KINDS}
    face_dels: list[int] = []             # face IDs released by Side.__del__ (in whichever map)
    tev: list[str] = []                   # the same history as bundled events on top-level objects (SM/IdNest.v)
    nest_ok = True
    nest_flag: list[str] = []
    # top-level objects: kind, obj, ent index or None, [(solid index, [face indexes])], home, inmap.  The worldspawns (the
    # constructor's, a parsed one, the placeholder a parse throws away) are top-level objects no event picks: obj = None.
    tops: list[dict] = []
    desc: list[tuple] = []
    timing: list[tuple] = []              # per parsed map: (observed, expected) time of the placeholder's destructor
    for m in range(3):
        if parse_prog is None or rng.random() >= 0.4:
            # the constructor's worldspawn takes an entity ID
            v = VMF()
            maps.append(v)
            ev['KEnt'].append(f'WCreate {m}%nat (-1)')
            tev.append(f'TCreateSpawn {m}%nat')
            tr['KEnt'].append(_Tracked(v.spawn, m))
            tops.append({'kind': 'spawn', 'obj': None, 'ent': len(tr['KEnt']) - 1, 'solids': [], 'home': m, 'inmap': False})
            continue
        # the map starts as a parsed document (round 4): the model's TParse runs the program read from VMF.parse
        text, doc = gen_parse_doc(rng)
        v, log = observed_parse(text)
        maps.append(v)
        desc.append(('parse', m, text))
        tev.append(f'TParse {m}%nat {coq_pdoc(doc)}')
        e0, s0, f0 = len(tr['KEnt']), len(tr['KSolid']), len(tr['KFace'])
        n_e = n_s = n_f = 0
        placeholder = None
        roles = {}
        for st in parse_mirror(parse_prog, doc):
            if st[0] == 'ent':
                ev['KEnt'].append(f'WCreate {m}%nat {_zs(st[1])}')
                roles[st[2]] = n_e
                if st[2] == 'placeholder':
                    placeholder = e0 + n_e
                    tops.append({'kind': 'spawn', 'obj': None, 'ent': e0 + n_e, 'solids': [], 'home': m, 'inmap': False})
                elif st[2] == 'world':
                    tops.append({'kind': 'spawn', 'obj': None, 'ent': e0 + n_e, 'solids': [], 'home': m, 'inmap': False})
                else:
                    parts, k_s, k_f = [], n_s - len(st[4]), n_f - sum(st[4])
                    for nf in st[4]:
                        parts.append((s0 + k_s, [f0 + k_f + j for j in range(nf)]))
                        k_s, k_f = k_s + 1, k_f + nf
                    tops.append({'kind': 'ent', 'obj': ('ent', n_e), 'ent': e0 + n_e, 'solids': parts, 'home': m, 'inmap': True})
                n_e += 1
            elif st[0] == 'solid':
                ev['KSolid'].append(f'WCreate {m}%nat {_zs(st[1])}')
                n_s += 1
            elif st[0] == 'face':
                ev['KFace'].append(f'WCreate {m}%nat {_zs(st[1])}')
                n_f += 1
            elif st[0] == 'top-brush':
                tops.append({'kind': 'solid', 'obj': ('solid', n_s - 1), 'ent': None,
                             'solids': [(s0 + n_s - 1, [f0 + n_f - st[2] + j for j in range(st[2])])], 'home': m, 'inmap': True})
            elif st[0] == 'drop' and placeholder is not None:
                ev['KEnt'].append(f'WDestroy {placeholder}%nat')
        # which Python object is which: construction order, as observed
        if len(log['ent']) != n_e or len(log['solid']) != n_s or len(log['face']) != n_f:
            nest_flag.append(f'VMF.parse constructed {len(log["ent"])}/{len(log["solid"])}/{len(log["face"])} entities/brushes/faces, '
                             f'the program read from the source says {n_e}/{n_s}/{n_f}')
        for i, (ref, oid, dead) in enumerate(log['ent']):
            o = ref()
            if o is not None:
                tr['KEnt'].append(_Tracked(o, m))
            else:
                t = _Tracked.__new__(_Tracked)
                t.ref, t.id, t.alive, t.inmap, t.home, t.wr = None, oid, False, False, m, None
                tr['KEnt'].append(t)
        for o in log['solid']:
            tr['KSolid'].append(_Tracked(o, m))
        for o in log['face']:
            tr['KFace'].append(_Tracked(o, m))
        for t in tops:
            if isinstance(t['obj'], tuple):
                kind_, k_ = t['obj']
                lst = log['ent'] if kind_ == 'ent' else log['solid']
                t['obj'] = (lst[k_][0]() if kind_ == 'ent' else lst[k_]) if k_ < len(lst) else None
        # the time of the placeholder's destructor, observed through weak references, against the program
        if 'placeholder' in roles and 'world' in roles and len(log['ent']) == n_e:
            p, wi = roles['placeholder'], roles['world']
            first_ent = next((roles_i for roles_i in range(n_e) if roles_i not in (p, wi)), None)
            obs = (p in log['ent'][wi][2], None if first_ent is None else p in log['ent'][first_ent][2], log['ent'][p][0]() is None)
            prog = [x for x in parse_prog if x != 'GPReleasePlaceholder']
            di = prog.index('GPDropPlaceholder') if 'GPDropPlaceholder' in prog else len(prog)
            exp_t = (di < prog.index('GPWorld'), None if first_ent is None else di < prog.index('GPEntities'), 'GPDropPlaceholder' in prog)
            timing.append((obs, exp_t, text))
        del log
        o = t = lst = ref = None        # no stray reference may keep a parsed object alive
    for v in maps:
        def spy(e, orig=v.face_id.discard):
            import sys
            if sys._getframe(1).f_code.co_name == '__del__':
                face_dels.append(e)
            return orig(e)
        v.face_id.discard = spy

    def new_solid(m, d, fds):
        sides = []
        fidx = []
        for fd in fds:
            sd = Side(maps[m], [Vec(0, 0, 0), Vec(1, 0, 0), Vec(0, 1, 0)], des_id=fd)
            ev['KFace'].append(f'WCreate {m}%nat {_zs(fd)}')
            tr['KFace'].append(_Tracked(sd, m))
            fidx.append(len(tr['KFace']) - 1)
            sides.append(sd)
        so = Solid(maps[m], id=d, sides=sides)
        ev['KSolid'].append(f'WCreate {m}%nat {_zs(d)}')
        tr['KSolid'].append(_Tracked(so, m))
        return so, (len(tr['KSolid']) - 1, fidx)

    def track_copy(kind, src_idx, obj, dest, d):
        ev[kind].append(f'WCopy {src_idx}%nat {dest}%nat {_zs(d)}')
        tr[kind].append(_Tracked(obj, dest))
        return len(tr[kind]) - 1

    def streams(t):
        return (('KEnt', [t['ent']] if t['ent'] is not None else []), ('KSolid', [s for s, _ in t['solids']]),
                ('KFace', [f for _, fs in t['solids'] for f in fs]))

    # brush groups and visgroups (round 3).  No destructor releases their IDs: dropping the last reference is not an
    # event of the model, the ID stays taken (leak) -- the probes of the next free ID at the end observe exactly that.
    gtops: list[dict] = []      # kind 'group': tree = (index, []); kind 'vis': tree = (index, [child trees])

    def new_vis(m, d, depth):
        kids = [new_vis(m, rng.choice([-1, -1, 1, 2, 3]), depth + 1) for _ in range(rng.choice([0, 0, 1, 2]) if depth < 2 else 0)]
        v = VisGroup(maps[m], f'vis{len(tr["KVis"])}', d, Vec(255, 255, 255), [k[0] for k in kids])
        ev['KVis'].append(f'WCreate {m}%nat {_zs(d)}')
        tr['KVis'].append(_Tracked(v, m))
        return v, (len(tr['KVis']) - 1, [k[1] for k in kids])

    def track_vis_copy(src_tree, cobj, dest, d):
        # VisGroup.copy builds the copies of the children (fresh IDs) before the constructor of the copy runs
        kids = [track_vis_copy(st, cc, dest, -1) for st, cc in zip(src_tree[1], cobj.child_groups)]
        return track_copy('KVis', src_tree[0], cobj, dest, d), kids

    def flat(tree):
        for k in tree[1]:
            yield from flat(k)
        yield tree[0]

    def listed(t, on: bool, emit: bool = True):
        h = maps[t['home']]
        if t['kind'] == 'group':
            if on:
                h.groups[t['obj'].id] = t['obj']
            else:
                for key in [key for key, g in h.groups.items() if g is t['obj']]:
                    del h.groups[key]
        elif on:
            h.vis_tree.append(t['obj'])
        else:
            h.vis_tree[:] = [x for x in h.vis_tree if x is not t['obj']]
        t['inmap'] = on
        kind = 'KGroup' if t['kind'] == 'group' else 'KVis'
        for i in flat(t['tree']):
            if emit:
                ev[kind].append(f'{"WReAdd" if on else "WRemove"} {i}%nat')
            tr[kind][i].inmap = on

    def group_event():
        r = rng.random()
        glive = [t for t in gtops if t['obj'] is not None]
        if r < 0.40 or not glive:
            m = rng.randrange(3)
            d = rng.choice([-1, -1, 0, -3, 1, 2, 2, 3, 5])
            if rng.random() < 0.5:
                g = EntityGroup(maps[m], d)
                ev['KGroup'].append(f'WCreate {m}%nat {_zs(d)}')
                tr['KGroup'].append(_Tracked(g, m))
                t = {'kind': 'group', 'obj': g, 'tree': (len(tr['KGroup']) - 1, []), 'home': m, 'inmap': False}
                maps[m].groups[g.id] = g
            else:
                v, tree = new_vis(m, d, 0)
                t = {'kind': 'vis', 'obj': v, 'tree': tree, 'home': m, 'inmap': False}
                maps[m].vis_tree.append(v)
            t['inmap'] = True
            gtops.append(t)
            desc.append(('gcreate', t['kind'], m, d, len(list(flat(t['tree'])))))
        elif r < 0.70:
            t = rng.choice(glive)
            dest = rng.randrange(3)
            explicit = dest != t['home'] or rng.random() < 0.5
            if not explicit:
                dest = t['home']
            if t['kind'] == 'group':
                d = tr['KGroup'][t['tree'][0]].id          # EntityGroup.copy asks for the source's own ID
                c = t['obj'].copy(maps[dest]) if explicit else t['obj'].copy()
                tree = (track_copy('KGroup', t['tree'][0], c, dest, d), [])
            else:
                d = rng.choice([-1, -1, 2, 4])
                c = t['obj'].copy(maps[dest] if explicit else None, {}, d) if rng.random() < 0.7 else \
                    t['obj'].copy(vmf=maps[dest] if explicit else None, des_id=d)
                tree = track_vis_copy(t['tree'], c, dest, d)
            nt = {'kind': t['kind'], 'obj': c, 'tree': tree, 'home': dest, 'inmap': False}
            listed(nt, True, emit=False)       # WCopy lists the copy in the destination map
            gtops.append(nt)
            desc.append(('gcopy', t['kind'], dest, d, explicit))
        elif r < 0.85:
            t = rng.choice(glive)
            listed(t, not t['inmap'])
            desc.append(('gremove' if not t['inmap'] else 'greadd', t['kind']))
        else:
            off = [t for t in glive if not t['inmap']]
            if not off:
                return
            t = rng.choice(off)
            if rng.random() < 0.5:
                listed(t, True)
                desc.append(('greadd', t['kind']))
                return
            t['obj'] = None
            kind = 'KGroup' if t['kind'] == 'group' else 'KVis'
            for i in flat(t['tree']):
                tr[kind][i].ref = None
            gc.collect(0)
            desc.append(('gforget', t['kind']))

    def track_top_copy(t, c, dest, d, explicit):
        nt = {'kind': t['kind'], 'obj': c, 'ent': None, 'solids': [], 'home': dest, 'inmap': True}
        csolids = c.solids if t['kind'] == 'ent' else [c]
        # construction order: for every solid its sides, then the solid; the entity last
        for (si, fis), cs in zip(t['solids'], csolids):
            nf = []
            for fi, cf in zip(fis, cs.sides):
                # Side.copy asks for the source's own ID when a map is passed, otherwise for a fresh one
                nf.append(track_copy('KFace', fi, cf, dest, tr['KFace'][fi].id if explicit else -1))
            nt['solids'].append((track_copy('KSolid', si, cs, dest, d if t['kind'] == 'solid' else -1), nf))
        if t['kind'] == 'ent':
            nt['ent'] = track_copy('KEnt', t['ent'], c, dest, d)
        return nt

    def collapse_event():
        # the real collapse_one: map s is used as an instance and collapsed into map dest.  The harness only reads which
        # objects appeared in the destination's lists; which ones are copied, and in which order, is the model's business.
        from srctools import instancing
        from srctools.math import Matrix
        s, dest = rng.sample(range(3), 2)
        keep_vis = rng.random() < 0.45      # visgroup=True: the visgroup trees of the instance map are copied as well
        # ... which is legal only while every visgroup ID the instance map's brushes and entities refer to is one of its listed
        # visgroups (collapse_one looks each of them up); the histories unlist visgroups, so look first
        refs: set = set()
        for o in list(maps[s].brushes) + list(maps[s].entities) + [b for e in maps[s].entities for b in e.solids]:
            refs |= set(o.visgroup_ids)
        if not refs <= {v.id for v in _walk_vis(maps[s].vis_tree)}:
            keep_vis = False
        o = None
        # visgroup=<VisGroup of the destination map>: the copied trees become children of that visgroup (and brushes / entities
        # keep their visibility as with True)
        parent = None
        if keep_vis and rng.random() < 0.7:
            cands = [t for t in gtops if t['kind'] == 'vis' and t['obj'] is not None and t['home'] == dest and t['inmap']]
            parent = rng.choice(cands) if cands else None
        nb0, ne0, nv0 = len(maps[dest].brushes), len(maps[dest].entities), len(maps[dest].vis_tree)
        nc0 = len(parent['obj'].child_groups) if parent else 0
        vsrcs = list(maps[s].vis_tree)
        inst = instancing.Instance('inst', '', Vec(16, 0, 0), Matrix())
        instancing.collapse_one(maps[dest], inst, instancing.InstanceFile(maps[s]), visgroup=parent['obj'] if parent else keep_vis)
        new_b, new_e = maps[dest].brushes[nb0:], maps[dest].entities[ne0:]
        news = new_b + new_e
        new_v = parent['obj'].child_groups[nc0:] if parent else maps[dest].vis_tree[nv0:]
        for vo, vc in zip(vsrcs, new_v):
            gt = next(t for t in gtops if t['obj'] is vo)
            tree = track_vis_copy(gt['tree'], vc, dest, -1)
            if parent:
                parent['tree'][1].append(tree)      # from now on part of the parent's tree (copied / unlisted with it)
            else:
                gtops.append({'kind': 'vis', 'obj': vc, 'tree': tree, 'home': dest, 'inmap': True})
        vo = vc = None
        # which source a new object was copied from is read from the tables collapse_one fills in (old ID -> new ID)
        back_b = {new: old for old, new in inst.brush_ids.items()}
        back_e = {new: old for old, new in inst.ent_ids.items()}
        srcs = [next((o for o in maps[s].brushes if o.id == back_b.get(c.id)), None) for c in new_b] + \
               [next((o for o in maps[s].entities if o.id == back_e.get(c.id)), None) for c in new_e]
        for so, c in zip(srcs, news):
            t = next((t for t in tops if t['obj'] is so), None) if so is not None else None
            if t is None:
                nest_flag.append('collapse_one produced an object whose source is not a tracked top-level object')
                continue
            tops.append(track_top_copy(t, c, dest, -1, True))
        desc.append(('collapse', s, dest, len(news), len(srcs), 'into-visgroup' if parent else keep_vis, len(new_v)))
        tev.append(f'TCollapse {s}%nat {dest}%nat {"true" if keep_vis else "false"}')

    def hide_event():
        live = [t for t in tops if t['obj'] is not None]
        if not live:
            return
        t = rng.choice(live)
        b = rng.random() < 0.6
        if b and rng.random() < 0.5:
            t['obj'].hidden = True
        elif b:
            t['obj'].vis_shown = False
        else:
            t['obj'].hidden = False
            t['obj'].vis_shown = True
        desc.append(('hide', tops.index(t), b))
        tev.append(f'THide {tops.index(t)}%nat {"true" if b else "false"}')

    for _ in range(n_ev):
        if rng.random() < 0.25:
            group_event()
            continue
        if rng.random() < 0.10:
            collapse_event()
            continue
        if rng.random() < 0.07:
            hide_event()
            continue
        r = rng.random()
        live = [t for t in tops if t['obj'] is not None]
        if r < 0.30 or not live:
            m = rng.randrange(3)
            d = rng.choice([-1, -1, 0, -3, 1, 2, 2, 3, 5])
            what = rng.choice(['ent', 'ent', 'solid', 'brushent'])
            if what == 'ent':
                o = Entity(maps[m], {'classname': 'info_target'}, ent_id=d)
                ev['KEnt'].append(f'WCreate {m}%nat {_zs(d)}')
                tr['KEnt'].append(_Tracked(o, m))
                maps[m].add_ent(o)
                tops.append({'kind': 'ent', 'obj': o, 'ent': len(tr['KEnt']) - 1, 'solids': [], 'home': m, 'inmap': True})
                tev.append(f'TCreateEnt {m}%nat {_zs(d)} []')
            elif what == 'solid':
                fds = [rng.choice([-1, 0, 1, 2, 4, d]) for _ in range(2)]
                o, si = new_solid(m, d, fds)
                tev.append(f'TCreateBrush {m}%nat ({_zs(d)}, {coq_list(_zs(x) for x in fds)})')
                maps[m].add_brush(o)
                tops.append({'kind': 'solid', 'obj': o, 'ent': None, 'solids': [si], 'home': m, 'inmap': True})
            else:
                sd = rng.choice([-1, 1, 2])
                fds = [-1, rng.choice([-1, 1, 3])]
                so, si = new_solid(m, sd, fds)
                tev.append(f'TCreateEnt {m}%nat {_zs(d)} [({_zs(sd)}, {coq_list(_zs(x) for x in fds)})]')
                o = Entity(maps[m], {'classname': 'func_detail'}, ent_id=d, solids=[so])
                ev['KEnt'].append(f'WCreate {m}%nat {_zs(d)}')
                tr['KEnt'].append(_Tracked(o, m))
                maps[m].add_ent(o)
                tops.append({'kind': 'ent', 'obj': o, 'ent': len(tr['KEnt']) - 1, 'solids': [si], 'home': m, 'inmap': True})
                so = None
            o = None
            desc.append(('create', what, m, d))
        elif r < 0.50:
            t = rng.choice(live)
            dest = rng.randrange(3)
            d = rng.choice([-1, -1, 2, 4])
            explicit = dest != t['home'] or rng.random() < 0.5
            if not explicit:
                dest = t['home']
            c = t['obj'].copy(des_id=d, vmf_file=maps[dest] if explicit else None)
            nt = track_top_copy(t, c, dest, d, explicit)
            if t['kind'] == 'ent':
                maps[dest].add_ent(c)
            else:
                maps[dest].add_brush(c)
            tops.append(nt)
            desc.append(('copy', tops.index(t), dest, d, explicit))
            tev.append(f'TCopy {tops.index(t)}%nat {dest}%nat {_zs(d)} {"true" if explicit else "false"}')
            c = csolids = cs = cf = None
        elif r < 0.68:
            t = rng.choice(live)
            if not t['inmap']:
                continue
            t['obj'].remove()
            t['inmap'] = False
            for kind, idxs in streams(t):
                for i in idxs:
                    ev[kind].append(f'WRemove {i}%nat')
                    tr[kind][i].inmap = False
            desc.append(('remove', tops.index(t)))
            tev.append(f'TRemove {tops.index(t)}%nat')
        elif r < 0.80:
            t = rng.choice(live)
            if t['inmap']:
                continue
            if t['kind'] == 'ent':
                maps[t['home']].add_ent(t['obj'])
            else:
                maps[t['home']].add_brush(t['obj'])
            t['inmap'] = True
            for kind, idxs in streams(t):
                for i in idxs:
                    ev[kind].append(f'WReAdd {i}%nat')
                    tr[kind][i].inmap = True
            desc.append(('readd', tops.index(t)))
            tev.append(f'TReAdd {tops.index(t)}%nat')
        else:
            t = rng.choice(live)
            if t['inmap']:
                continue
            del face_dels[:]
            t['obj'] = None
            for kind, idxs in streams(t):
                for i in idxs:
                    tr[kind][i].ref = None
            gc.collect(0)
            for kind, idxs in streams(t):
                for i in idxs:
                    if tr[kind][i].wr is None and tr[kind][i].id in face_dels:
                        face_dels.remove(tr[kind][i].id)
                        dead = True
                    else:
                        dead = tr[kind][i].wr is not None and tr[kind][i].wr() is None
                    if dead:
                        ev[kind].append(f'WDestroy {i}%nat')
                        tr[kind][i].alive = False
                        tr[kind][i].inmap = False
                    else:
                        desc.append(('still-referenced', kind, i))
                        nest_ok = False         # a part outlived its owner: not an event of the nested model
            desc.append(('destroy', tops.index(t)))
            tev.append(f'TDestroy {tops.index(t)}%nat')
        t = None
    exp = {}
    scans = [scan_map(v) for v in maps]
    for kind, attr in (('KEnt', 'ent_id'), ('KSolid', 'solid_id'), ('KFace', 'face_id'), ('KGroup', 'group_id'), ('KVis', 'vis_id')):
        l = []
        for x in tr[kind]:
            l += [x.id, int(x.alive), int(x.inmap), x.home]
        l += [getattr(v, attr).get_id(-1) for v in maps]
        exp[kind] = l
    for v in maps:
        del v.face_id.discard
    ev['T'] = tev if nest_ok else None
    exp['T_flag'] = nest_flag
    # the lists of every map as the model must have them: indexes of the top-level objects in maps[m].brushes, then -1,
    # those in maps[m].entities, then -2
    order: list[int] = []
    for v in maps:
        for lst, mark in ((v.brushes, -1), (v.entities, -2)):
            order += [next((i for i, t in enumerate(tops) if t['obj'] is o), -7) for o in lst] + [mark]
    exp['T_order'] = order
    exp['T_timing'] = timing
    return ev, exp, desc, scans


def corr_world(ck: Ck, parse_prog: list[str] | None = None) -> None:
    """SM/IdWorld.v against real histories over three maps (entities, brushes, faces; copy within and across maps)."""
    from harness.common import parse_coq_N_list
    n = ck.budget(120, 1500)
    cases = []
    nested = []
    flagged: list = []
    timing_bad: list = []
    n_timing = 0
    gc_begin()
    for i in range(n):
        ev, exp, desc, scans = gen_world_case(ck.rng, ck.rng.choice([4, 8, 14, 22]), parse_prog)
        ck.count('world_histories')
        for d in desc:
            ck.hist('world_events', d[0])
            if d[0] == 'collapse':
                ck.hist('world_collapse_visgroup', str(d[5]))
        ck.hist('world_maps_parsed', sum(d[0] == 'parse' for d in desc))
        if any(d[0] in ('collapse', 'parse') or (d[0] in ('copy', 'gcopy') and d[4]) for d in desc):
            ck.seen(('world', tuple(desc)))
        if exp['T_flag']:
            flagged.append((exp['T_flag'], desc))
        for obs, exp_t, text in exp['T_timing']:
            n_timing += 1
            ck.hist('parse_placeholder_dead(at world, at first entity, after parse)', str(obs))
            if obs != exp_t:
                timing_bad.append({'observed': obs, 'program_says': exp_t, 'vmf_text': text})
        for m, sc in enumerate(scans):
            for kind, what, vals in dup_report(sc):
                if kind == 'ent':       # scan_map leaves the worldspawn out on purpose; here only listed entities count
                    pass
                ck.violation(f'xmap-{kind}-id-{what}', f'map {m}: {kind} IDs {what}: {vals} after a history over three maps',
                             {'world_history': desc, 'events_per_kind': ev,
                              'how': 'events are in the notation of SM/IdWorld.v; replay by the same calls on three VMF() objects'})
        for kind in WORLD_KINDS:
            cases.append((kind, ev[kind], exp[kind], desc))
        if ev['T'] is not None and not exp['T_flag']:
            nested.append((ev['T'], [exp[k] for k in ('KEnt', 'KSolid', 'KFace')] + [exp['T_order']], desc))
            ck.count('nested_histories')
    gc_end()
    if parse_prog is not None:
        ck.obligation('correspondence:parse-destructor-time', not timing_bad,
                      f'{n_timing} maps built by VMF.parse inside the three-map histories: the placeholder worldspawn is (not) destroyed when the world block / '
                      'the first entity block is constructed and after parse returns, observed through weak references with a full gc.collect() at every '
                      f'step boundary, vs the position of the re-binding of <map>.spawn in the program read from VMF.parse: {len(timing_bad)} disagreements')
        if timing_bad:
            ck.tie_broken.append('time of the placeholder worldspawn\'s destructor in VMF.parse (program read from the source vs CPython)')
            ck.extra['parse_timing_disagreement'] = timing_bad[0]
    nk = len(WORLD_KINDS)
    ck.sample({'world_history': cases[-nk][3], 'events_per_kind': {c[0]: c[1] for c in cases[-nk:]},
               'impl(id,alive,inmap,home)*_then_next_ids': {c[0]: c[2] for c in cases[-nk:]}})
    # per-kind streams and bundled events are evaluated by the same coqc processes
    exprs = []
    for lo in range(0, len(cases), 300):
        part = cases[lo:lo + 300]
        lit = coq_list(f'(({k}, {coq_list(evs)}), {coq_Z_list(exp)})' for k, evs, exp, _ in part)
        exprs.append(f'bad_idx (fun c : (kind * list wev) * list Z => zl_eqb (wfull (fst (fst c)) (snd (fst c))) (snd c)) 0 {lit}')
    n_world = len(exprs)
    for lo in range(0, len(nested), 150):
        part = nested[lo:lo + 150]
        lit = coq_list(f'({coq_list(t)}, (({coq_Z_list(e[0])}, {coq_Z_list(e[1])}), {coq_Z_list(e[2] + [-5] + e[3])}))' for t, e, _ in part)
        exprs.append('bad_idx (fun c : list tev * ((list Z * list Z) * list Z) => match tfull (fst c) with (a, b, f) => '
                     f'andb (andb (zl_eqb a (fst (fst (snd c)))) (zl_eqb b (snd (fst (snd c))))) (zl_eqb f (snd (snd c))) end) 0 {lit}')
    res = yield ('world', WORLD_PRE, exprs, 6)
    if res is None:
        ck.obligation('correspondence:world', False, 'model could not be evaluated')
        ck.obligation('correspondence:nested', False, 'model could not be evaluated')
        ck.tie_broken.append('correspondence multi-map lifecycle: model evaluation failed')
        return
    bad = [c * 300 + i for c, idxs in enumerate(res[:n_world]) for i in idxs]
    ck.obligation('correspondence:world', not bad,
                  f'{len(cases)} per-kind event streams of {n} histories over three maps, model wrun vs real VMF/Entity/Solid/Side/EntityGroup/VisGroup/gc: {len(bad)} disagreements')
    if bad:
        c = min((cases[i] for i in bad), key=lambda c: len(c[1]))
        ck.tie_broken.append('correspondence multi-map lifecycle (SM/IdWorld.v wrun vs copy()/add/remove/__del__ over three maps)')
        ck.extra['world_disagreement'] = {'kind': c[0], 'events': c[1], 'impl': c[2], 'history': c[3]}
    # the same histories as bundled events on top-level objects: the model (SM/IdNest.v) decides which constructor /
    # copy / remove / destructor calls happen for the parts, in which order and with which desired IDs
    if nested:
        ck.sample({'nested_events': nested[-1][0], 'impl_per_kind(id,alive,inmap,home)*_then_next_ids': nested[-1][1]})
    bad = [c * 150 + i for c, idxs in enumerate(res[n_world:]) for i in idxs]
    ck.obligation('correspondence:nested', not bad and not flagged,
                  f'{len(nested)} histories of bundled events on entities / brush entities / world brushes over three maps incl. VMF.parse as an event '
                  '(the program read from the source run on the document) and the real collapse_one, '
                  f'model trun (parts, order, desired IDs, the brush/entity lists of every map and the objects collapse_one copies decided by the model) vs the implementation: {len(bad)} disagreements'
                  + (f', {len(flagged)} histories in which the implementation built objects the model does not know' if flagged else ''))
    if flagged and not bad:
        ck.tie_broken.append('correspondence nested objects: ' + flagged[0][0][0])
        ck.extra['nested_disagreement'] = {'flag': flagged[0][0], 'history': flagged[0][1]}
    if bad:
        c = min((nested[i] for i in bad), key=lambda c: len(c[0]))
        ck.tie_broken.append('correspondence nested objects (SM/IdNest.v trun vs Entity/Solid/Side constructors, copy(), remove, __del__)')
        ck.extra['nested_disagreement'] = {'events': c[0], 'impl': c[1], 'history': c[2]}


# ------------------------------------------------------------------------------------------------ nav-node IDs
NODE_PRE = PRE + '''
Definition nobs (w : nworld) : list Z :=
  flat_map (fun o => [match nid o with Some n => n | None => -9 end; if nalive o then 1 else 0; if ninmap o then 1 else 0]) (nents w).
Definition nfull (es : list nev) : list Z :=
  let w := nrun node_realloc_on_add node_release_on_remove node_release_in_del node_copy_registers es in
  nobs w ++ [match get_id (-1) (nman w) with Some (i, _) => i | None => -3 end].
'''


def _node_of(ent):
    if 'nodeid' in ent and _isint(ent['nodeid']):
        return int(ent['nodeid'])
    return None


def gen_node_case(rng: random.Random, n_ev: int):
    """A random history of the 'nodeid' keyvalue on real entities of one map -> (events, expected observations, scan)."""
    import weakref
    from srctools.vmf import VMF
    vmf = VMF()
    ents: list[list] = []      # [obj, weakref, nid, alive, inmap]
    evs: list[str] = []

    def opt(d):
        return 'None' if d is None else f'(Some {_zs(d)})'

    def value():
        r = rng.random()
        if r < 0.12:
            return None, rng.choice(['abc', '', '3.5'])
        d = rng.choice([-1, 0, -4, 1, 2, 2, 3, 3, 5, 9])
        return d, rng.choice([str(d), d])

    def reserve(val):
        # what collapse_one does with a node-link keyvalue: Instance.fixup_key reserves an ID nobody owns (never released)
        from srctools import instancing
        from srctools.fgd import ValueTypes
        from srctools.math import Matrix, Vec
        inst = instancing.Instance('inst', '', Vec(), Matrix())
        out = inst.fixup_key(vmf, (), rng.choice([ValueTypes.TARG_NODE_SOURCE, ValueTypes.TARG_NODE_DEST]), val)
        if _isint(val):
            evs.append(f'NReserve {_zs(int(val))}')
        return out

    for _ in range(n_ev):
        if rng.random() < 0.07:
            reserve(rng.choice(['-1', '0', '1', '2', '2', '3', '5', 'abc', '']))
            continue
        r = rng.random()
        live = [i for i, e in enumerate(ents) if e[0] is not None]
        if r < 0.30 or not live:
            if rng.random() < 0.15:
                e = vmf.create_ent('info_target')
                d = None
            else:
                d, val = value()
                e = vmf.create_ent('info_node', **{rng.choice(['nodeid', 'NodeID']): val})
            ents.append([e, weakref.ref(e), None, True, True])
            evs.append(f'NCreate {opt(d)}')
            e = None
        else:
            k = rng.choice(live)
            o = ents[k]
            if r < 0.45:
                d, val = value()
                how = rng.randrange(5)
                if how < 2:
                    o[0][rng.choice(['nodeid', 'NODEID'])] = val
                elif how == 2:      # MutableMapping.update -> __setitem__
                    o[0].update({rng.choice(['nodeid', 'NodeID']): val, 'spawnflags': '0'})
                elif how == 3:
                    o[0].update(nodeid=val)
                else:               # the deprecated `ent.keys = {...}` setter: clear_keys() then update()
                    import warnings
                    with warnings.catch_warnings():
                        warnings.simplefilter('ignore')
                        o[0].keys = {'classname': 'info_node', 'nodeid': val}
                    evs.append(f'NDel {k}%nat')
                evs.append(f'NSet {k}%nat {opt(d)}')
            elif r < 0.55:
                how = rng.randrange(3)
                if how == 0:
                    del o[0]['nodeid']
                elif how == 1:
                    o[0].pop('NodeId')
                else:
                    o[0].clear()
                evs.append(f'NDel {k}%nat')
            elif r < 0.68:
                if not o[4]:
                    continue
                o[0].remove()
                o[4] = False
                evs.append(f'NRemove {k}%nat')
            elif r < 0.78:
                if o[4]:
                    continue
                vmf.add_ent(o[0])
                o[4] = True
                evs.append(f'NReAdd {k}%nat')
            elif r < 0.90:
                if o[4]:
                    continue
                o[2] = _node_of(o[0])
                o[0] = None
                gc.collect(0)
                if o[1]() is None:
                    o[3] = False
                    evs.append(f'NGc {k}%nat')
            else:
                c = o[0].copy()
                vmf.add_ent(c)
                ents.append([c, weakref.ref(c), None, True, True])
                evs.append(f'NCopy {k}%nat')
                if rng.random() < 0.4 and 'nodeid' in c:
                    # ... followed by collapse_one's rewriting of the copy's keyvalue: reserve, then assign the reserved ID
                    new = reserve(c['nodeid'])
                    c['nodeid'] = new
                    evs.append(f'NSet {len(ents) - 1}%nat {opt(int(new)) if _isint(new) else "None"}')
                c = None
            o = None
    exp = []
    for e in ents:
        n = _node_of(e[0]) if e[0] is not None else e[2]
        exp += [-9 if n is None else n, int(e[3]), int(e[4])]
    held = [n for n in (_node_of(e[0]) for e in ents if e[0] is not None) if n is not None]
    exp.append(vmf.node_id.get_id(-1))
    return evs, exp, held, scan_map(vmf)


def corr_nodes(ck: Ck) -> None:
    """Both node correspondences, evaluated by the same coqc processes."""
    ex1, fin1 = corr_node(ck)
    ex2, fin2 = corr_nodemaps(ck)
    res = yield ('node', NODE_PRE + NODEMAPS_PRE[len(PRE):], ex1 + ex2, 6)
    fin1(None if res is None else res[:len(ex1)])
    fin2(None if res is None else res[len(ex1):])


def corr_node(ck: Ck):
    """SM/IdNode.v against real histories of the 'nodeid' keyvalue (set/delete/pop/clear/copy/remove/re-add/gc)."""
    n = ck.budget(250, 3000)
    cases = []
    for i in range(n):
        evs, exp, held, sc = gen_node_case(ck.rng, ck.rng.choice([3, 6, 12, 24]))
        cases.append((evs, exp))
        ck.count('node_histories')
        for e in evs:
            ck.hist('node_events', e.split()[0])
        if sum(e.startswith(('NSet', 'NDel', 'NRemove')) for e in evs) >= 2:
            ck.seen(('node', tuple(evs)))
        # the stronger oracle of the repaired rule: no two *existing* entities hold the same node ID
        if len(set(held)) != len(held) or any(x <= 0 for x in held):
            ck.violation('node-id-duplicate' if len(set(held)) != len(held) else 'node-id-nonpositive',
                         f'existing entities hold node IDs {sorted(held)}', {'node_events': evs, 'impl': exp,
                         'how': 'events in the notation of SM/IdNode.v: NCreate = create_ent(nodeid=..), NSet = ent[nodeid]=.., NDel = del/pop/clear, NRemove/NReAdd/NGc/NCopy'})
    ck.sample({'node_events': cases[-1][0], 'impl(nid|-9,alive,inmap)*_then_next_id': cases[-1][1]})
    exprs = []
    for lo in range(0, len(cases), 400):
        part = cases[lo:lo + 400]
        lit = coq_list(f'({coq_list(evs)}, {coq_Z_list(exp)})' for evs, exp in part)
        exprs.append(f'bad_idx (fun c : list nev * list Z => zl_eqb (nfull (fst c)) (snd c)) 0 {lit}')
    return exprs, lambda res: _finish_node(ck, cases, res)


def _finish_node(ck: Ck, cases, res) -> None:
    if res is None:
        ck.obligation('correspondence:node', False, 'model could not be evaluated')
        ck.tie_broken.append('correspondence nav-node IDs: model evaluation failed')
        return
    bad = [c * 400 + i for c, idxs in enumerate(res) for i in idxs]
    ck.obligation('correspondence:node', not bad,
                  f"{len(cases)} histories of the 'nodeid' keyvalue (incl. IDs reserved by Instance.fixup_key), model nrun vs real Entity/VMF: {len(bad)} disagreements")
    if bad:
        c = min((cases[i] for i in bad), key=lambda c: len(c[0]))
        ck.tie_broken.append("correspondence nav-node IDs (SM/IdNode.v nrun vs Entity.__setitem__/__delitem__/clear/__del__, VMF.add_ent/remove_ent)")
        ck.extra['node_disagreement'] = {'events': c[0], 'impl': c[1]}


# ------------------------------------------------------------------------------------------------ nav-node IDs, several maps
NODEMAPS_PRE = PRE + '''
Definition mobs (w : mworld) : list Z :=
  flat_map (fun p : nat * nat => match nth_error (nents (mmap w (fst p))) (snd p) with
                                 | Some o => [match nid o with Some n => n | None => -9 end; if nalive o then 1 else 0;
                                              if ninmap o then 1 else 0; Z.of_nat (fst p)]
                                 | None => [-8] end) (mdir w).
Definition mprobe (w : mworld) (m : nat) : Z := match get_id (-1) (nman (mmap w m)) with Some (i, _) => i | None => -3 end.
Definition mfull (es : list mev) : list Z :=
  let w := mrun node_realloc_on_add node_release_on_remove node_release_in_del node_copy_registers es in
  mobs w ++ [mprobe w 0%nat; mprobe w 1%nat; mprobe w 2%nat].
'''


def gen_nodemaps_case(rng: random.Random, n_ev: int):
    """A random history of 'nodeid' keyvalues over three real maps incl. cross-map copies and the real collapse_one
    -> (events of SM/IdNodeMaps.v, expected observations, per-map lists of held IDs)."""
    import weakref
    from srctools import instancing
    from srctools.fgd import ValueTypes
    from srctools.math import Matrix, Vec
    from srctools.vmf import VMF
    maps = [VMF(), VMF(), VMF()]
    ents: list[list] = []      # [obj, weakref, last nid, alive, inmap, home]
    evs: list[str] = []

    def opt(d):
        return 'None' if d is None else f'(Some {_zs(d)})'

    def value():
        if rng.random() < 0.1:
            return None, rng.choice(['abc', '', '3.5'])
        d = rng.choice([-1, 0, -4, 1, 2, 2, 3, 3, 5, 9])
        return d, rng.choice([str(d), d])

    for _ in range(n_ev):
        r = rng.random()
        live = [i for i, e in enumerate(ents) if e[0] is not None]
        if r < 0.28 or not live:
            m = rng.randrange(3)
            if rng.random() < 0.15:
                e = maps[m].create_ent('info_target')
                d = None
            else:
                d, val = value()
                e = maps[m].create_ent('info_node', nodeid=val)
            ents.append([e, weakref.ref(e), None, True, True, m])
            evs.append(f'MCreate {m}%nat {opt(d)}')
            e = None
        elif r < 0.34:
            m = rng.randrange(3)
            val = rng.choice(['-1', '0', '1', '2', '3', '5', 'abc'])
            instancing.Instance('inst', '', Vec(), Matrix()).fixup_key(
                maps[m], (), rng.choice([ValueTypes.TARG_NODE_SOURCE, ValueTypes.TARG_NODE_DEST]), val)
            if _isint(val):
                evs.append(f'MReserve {m}%nat {_zs(int(val))}')
        elif r < 0.44:
            # the real collapse_one: map s as an instance into map dest (entities only; the harness reads which entities
            # the instance map lists, in list order, and which objects appeared in the destination)
            s_, dest = rng.sample(range(3), 2)
            ks = [next(i for i, e in enumerate(ents) if e[0] is o) for o in maps[s_].entities]
            n0 = len(maps[dest].entities)
            inst = instancing.Instance('inst', '', Vec(8, 0, 0), Matrix())
            instancing.collapse_one(maps[dest], inst, instancing.InstanceFile(maps[s_]))
            for c in maps[dest].entities[n0:]:
                ents.append([c, weakref.ref(c), None, True, True, dest])
            evs.append(f'MCollapse {coq_list(f"{k}%nat" for k in ks)} {dest}%nat')
            c = inst = None
        else:
            k = rng.choice(live)
            o = ents[k]
            if r < 0.56:
                # only on node entities: collapse_one treats a 'nodeid' key by the FGD type of the entity's class, and the
                # model is about the classes for which it is a node ID
                if o[0]['classname'] == 'info_node':
                    d, val = value()
                    o[0][rng.choice(['nodeid', 'NODEID'])] = val
                    evs.append(f'MOn {k}%nat (OSet {opt(d)})')
            elif r < 0.64:
                if rng.random() < 0.5:
                    del o[0]['nodeid']
                else:
                    o[0].pop('NodeId')
                evs.append(f'MOn {k}%nat ODel')
            elif r < 0.74:
                if o[4]:
                    o[0].remove()
                    o[4] = False
                    evs.append(f'MOn {k}%nat ORemove')
            elif r < 0.80:
                if not o[4]:
                    maps[o[5]].add_ent(o[0])
                    o[4] = True
                    evs.append(f'MOn {k}%nat OReAdd')
            elif r < 0.87:
                if not o[4]:
                    o[2] = _node_of(o[0])
                    o[0] = None
                    gc.collect(0)
                    if o[1]() is None:
                        o[3] = False
                        evs.append(f'MOn {k}%nat OGc')
            else:
                dest = rng.randrange(3)
                c = o[0].copy(vmf_file=maps[dest]) if dest != o[5] or rng.random() < 0.5 else o[0].copy()
                maps[dest].add_ent(c)
                ents.append([c, weakref.ref(c), None, True, True, dest])
                evs.append(f'MCopy {k}%nat {dest}%nat')
                c = None
            o = None
    exp = []
    for e in ents:
        n = _node_of(e[0]) if e[0] is not None else e[2]
        exp += [-9 if n is None else n, int(e[3]), int(e[4]), e[5]]
    held = [[n for n in (_node_of(e[0]) for e in ents if e[0] is not None and e[5] == m) if n is not None] for m in range(3)]
    exp += [v.node_id.get_id(-1) for v in maps]
    return evs, exp, held


def corr_nodemaps(ck: Ck):
    """SM/IdNodeMaps.v against real histories of node entities over three maps (cross-map copy, the real collapse_one)."""
    n = ck.budget(150, 1500)
    cases = []
    for i in range(n):
        evs, exp, held = gen_nodemaps_case(ck.rng, ck.rng.choice([4, 8, 14, 24]))
        cases.append((evs, exp))
        ck.count('nodemaps_histories')
        for e in evs:
            ck.hist('nodemaps_events', e.split()[0] + (' ' + e.split()[2].strip('()') if e.startswith('MOn') else ''))
        if any(e.startswith(('MCollapse', 'MCopy')) for e in evs):
            ck.seen(('nodemaps', tuple(evs)))
        for m, h in enumerate(held):
            if len(set(h)) != len(h) or any(x <= 0 for x in h):
                ck.violation('xmap-node-id-duplicate' if len(set(h)) != len(h) else 'xmap-node-id-nonpositive',
                             f'map {m}: existing entities hold node IDs {sorted(h)} after a history over three maps',
                             {'nodemaps_events': evs, 'impl': exp,
                              'how': 'events in the notation of SM/IdNodeMaps.v on three VMF() objects: MCreate = create_ent(info_node, nodeid=..), '
                                     'MOn k op, MCopy k m = ents[k].copy(vmf_file=maps[m]) + add_ent, MReserve = Instance.fixup_key, MCollapse = collapse_one'})
    ck.sample({'nodemaps_events': cases[-1][0], 'impl(nid|-9,alive,inmap,home)*_then_next_ids': cases[-1][1]})
    exprs = []
    for lo in range(0, len(cases), 300):
        part = cases[lo:lo + 300]
        lit = coq_list(f'({coq_list(evs)}, {coq_Z_list(exp)})' for evs, exp in part)
        exprs.append(f'bad_idx (fun c : list mev * list Z => zl_eqb (mfull (fst c)) (snd c)) 0 {lit}')
    return exprs, lambda res: _finish_nodemaps(ck, cases, res)


def _finish_nodemaps(ck: Ck, cases, res) -> None:
    if res is None:
        ck.obligation('correspondence:nodemaps', False, 'model could not be evaluated')
        ck.tie_broken.append('correspondence nav-node IDs over several maps: model evaluation failed')
        return
    bad = [c * 300 + i for c, idxs in enumerate(res) for i in idxs]
    ck.obligation('correspondence:nodemaps', not bad,
                  f"{len(cases)} histories of node entities over three maps (cross-map copy, Instance.fixup_key, the real collapse_one), "
                  f"model mrun vs the implementation: {len(bad)} disagreements")
    if bad:
        c = min((cases[i] for i in bad), key=lambda c: len(c[0]))
        ck.tie_broken.append('correspondence nav-node IDs over several maps (SM/IdNodeMaps.v mrun vs Entity.copy/collapse_one/fixup_key)')
        ck.extra['nodemaps_disagreement'] = {'events': c[0], 'impl': c[1]}


# ------------------------------------------------------------------------------------------------ VMF.parse
PARSE_PRE = PRE + '''
Definition wids (k : kind) (es : list wev) : list Z := live_ids_in 0%nat (wrun (release_on_remove k) (copy_to_dest k) es).
Definition nlive (es : list nev) : list Z := nids (nents (nrun node_realloc_on_add node_release_on_remove node_release_in_del node_copy_registers es)).
'''
_ID_POOL = [None, None, -1, 0, -2, 1, 1, 2, 2, 3, 4, 7]


def gen_vmf_doc(rng: random.Random, small: bool = False):
    """VMF text whose IDs collide, are missing, zero or negative, plus the desired IDs per kind in construction order.
    `small`: fewer objects (the document is the start of a longer history)."""
    want = {'KEnt': [], 'KSolid': [], 'KFace': [], 'KGroup': [], 'KVis': [], 'node': []}
    out: list[str] = ['versioninfo\n{\n"formatversion" "100"\n}\n']

    def pick():
        return rng.choice(_ID_POOL)

    def idline(key, d):
        return '' if d is None else f'"{key}" "{d}"\n'

    def des(d):
        return -1 if d is None else d

    def solid():
        txt = 'solid\n{\n'
        sd = pick()
        txt += idline('id', sd)
        for _ in range(rng.choice([1, 2, 3])):
            fd = pick()
            txt += 'side\n{\n' + idline('id', fd) + '"plane" "(0 0 0) (1 0 0) (0 1 0)"\n"material" "A"\n}\n'
            want['KFace'].append(des(fd))
        want['KSolid'].append(des(sd))
        return txt + '}\n'

    def visgroup(depth):
        vd = pick()
        txt = 'visgroup\n{\n"name" "v"\n' + idline('visgroupid', vd)
        for _ in range(rng.choice([0, 0, 1, 2]) if depth < 2 else 0):
            txt += visgroup(depth + 1)
        want['KVis'].append(des(vd))        # children are constructed first
        return txt + '}\n'

    out.append('visgroups\n{\n' + ''.join(visgroup(0) for _ in range(rng.choice([0, 1, 3]))) + '}\n')
    wd = 1 if rng.random() < 0.5 else pick()        # Hammer always writes the world block with id 1
    world = 'world\n{\n' + idline('id', wd) + '"classname" "worldspawn"\n'
    for _ in range(rng.choice([0, 1, 3])):
        if rng.random() < 0.25:
            world += 'hidden\n{\n' + solid() + '}\n'
        else:
            world += solid()
    for _ in range(rng.choice([0, 1, 3])):
        gd = pick()
        world += 'group\n{\n' + idline('id', gd) + 'editor\n{\n"color" "1 2 3"\n}\n}\n'
        want['KGroup'].append(des(gd))
    out.append(world + '}\n')
    ents = []
    for _ in range(rng.choice([0, 1, 2] if small else [0, 2, 4, 7])):
        ed = pick()
        # Entity.parse reads the id only when it is numeric: '-1'/'-2' stay ordinary keyvalues
        txt = 'entity\n{\n' + idline('id', ed)
        node = None
        if rng.random() < 0.5:
            nd = rng.choice([-1, 0, 1, 1, 2, 3, 3, 5])
            txt += '"classname" "info_node"\n' + f'"nodeid" "{nd}"\n'
            node = nd
        else:
            txt += '"classname" "func_detail"\n'
            for _ in range(rng.choice([0, 1, 2])):
                txt += solid()
        txt += '}\n'
        want['KEnt'].append(ed if ed is not None and ed >= 0 else -1)
        want['node'].append(node)
        ents.append('hidden\n{\n' + txt + '}\n' if rng.random() < 0.2 else txt)
    out += ents
    return ''.join(out), want, (wd if wd is not None and wd >= 0 else -1)


def corr_parse(ck: Ck, parse_prog: list[str] | None = None) -> None:
    """VMF.parse of documents with colliding / missing / non-positive IDs against the model's WParse, per kind."""
    from harness.common import parse_coq_N_list
    from srctools.vmf import VMF
    from srctools.keyvalues import Keyvalues
    n = ck.budget(150, 2000)
    cases = []
    gc_begin()
    for i in range(n):
        text, want, wd = gen_vmf_doc(ck.rng)
        try:
            vmf, plog = observed_parse(text)
        except Exception as e:
            ck.violation('parse-exception', f'VMF.parse raised {type(e).__name__}: {e}', {'vmf_text': text})
            continue
        # the entities constructed before the worldspawn that still exist (a placeholder that was not destroyed)
        kept = [oid for ref, oid, _ in plog['ent'] if ref() is not None and ref() is not vmf.spawn and all(ref() is not e for e in vmf.entities)]
        del plog
        ck.count('parsed_documents')
        sc = scan_map(vmf)
        for kind, what, vals in dup_report(sc):
            ck.violation(f'parse-{kind}-id-{what}', f'after VMF.parse: {kind} IDs {what}: {vals}', {'vmf_text': text})
        solids = list(vmf.brushes) + [s for e in vmf.entities for s in e.solids]
        got = {
            'KEnt': [vmf.spawn.id] + [e.id for e in vmf.entities],
            'KSolid': [s.id for s in solids],
            'KFace': [f.id for s in solids for f in s.sides],
            'KGroup': [g.id for g in vmf.groups.values()],
            'KVis': [v.id for v in _post_vis(vmf.vis_tree)],
        }
        if any(k != g.id for k, g in vmf.groups.items()):
            ck.violation('parse-group-key-mismatch', 'VMF.groups key differs from the group ID', {'vmf_text': text})
        if sum(len(set(v)) > 1 for v in want.values() if v) >= 2:
            ck.seen(('parse', text))
        for k, ds in want.items():
            ck.hist('parse_desired', 'missing' if not ds else 'some')
        # the placeholder worldspawn of VMF() takes ID 1 and dies when the parsed one replaces it
        # ... in the order of the program read from VMF.parse (the placeholder is object 0 of the entity stream)
        step_ev = {'GPPlaceholder': 'WCreate 0%nat (-1)', 'GPWorld': f'WParse 0%nat [{_zs(wd)}]', 'GPDropPlaceholder': 'WDestroy 0%nat',
                   'GPEntities': f'WParse 0%nat {coq_Z_list(want["KEnt"])}'}
        evs = {'KEnt': [step_ev[st] for st in (parse_prog or ['GPPlaceholder', 'GPWorld', 'GPDropPlaceholder', 'GPEntities']) if st in step_ev]}
        if kept:
            got['KEnt'] = kept + got['KEnt']    # the placeholder is never destroyed: it keeps its ID
        for k in ('KSolid', 'KFace', 'KGroup', 'KVis'):
            evs[k] = [f'WParse 0%nat {coq_Z_list(want[k])}']
        for k in evs:
            cases.append((k, evs[k], got[k], text))
        nodes = [int(e['nodeid']) for e in vmf.entities if 'nodeid' in e]
        nev = ['NCreate ' + ('None' if d is None else f'(Some {_zs(d)})') for d in want['node']]
        cases.append(('node', nev, nodes, text))
        # parse-then-allocate: every kind of object gets one more member after the parse (fresh IDs), then the scan again
        from srctools.math import Vec
        from srctools.vmf import EntityGroup, VisGroup
        extra = [vmf.create_ent('info_null'), vmf.create_ent('info_node', nodeid='-1'), vmf.make_prism(Vec(0, 0, 0), Vec(8, 8, 8)).solid]
        vmf.add_brush(extra[2])
        vmf.add_ent(vmf.spawn.copy())
        if vmf.entities:
            vmf.add_ent(vmf.entities[0].copy())
        vmf.vis_tree.append(VisGroup(vmf, 'new'))
        g_new = EntityGroup(vmf)
        vmf.groups[g_new.id] = g_new
        gc_step()
        for kind, what, vals in dup_report(scan_map(vmf)):
            ck.violation(f'parse-then-allocate-{kind}-id-{what}', f'VMF.parse, then one new object of every kind: {kind} IDs {what}: {vals}',
                         {'vmf_text': text, 'how': 'VMF.parse(text); create_ent x2, make_prism + add_brush, spawn.copy(), entities[0].copy(), VisGroup, EntityGroup; scan incl. the worldspawn'})
        del extra, g_new
    gc_end()
    ck.sample({'parsed_vmf_text': cases[-1][3][:600], 'desired_and_resulting_ids': {c[0]: (c[1], c[2]) for c in cases[-6:]}})
    bad = []
    wcases = [c for c in cases if c[0] != 'node']
    ncases = [c for c in cases if c[0] == 'node']
    exprs = []
    for lo in range(0, len(wcases), 400):
        part = wcases[lo:lo + 400]
        lit = coq_list(f'(({k}, {coq_list(evs)}), {coq_Z_list(got)})' for k, evs, got, _ in part)
        exprs.append(f'bad_idx (fun c : (kind * list wev) * list Z => zl_eqb (wids (fst (fst c)) (snd (fst c))) (snd c)) 0 {lit}')
    n_w = len(exprs)
    for lo in range(0, len(ncases), 400):
        part = ncases[lo:lo + 400]
        lit = coq_list(f'({coq_list(evs)}, {coq_Z_list(got)})' for _, evs, got, _ in part)
        exprs.append(f'bad_idx (fun c : list nev * list Z => zl_eqb (nlive (fst c)) (snd c)) 0 {lit}')
    res = yield ('parse', PARSE_PRE, exprs, 6)
    if res is None:
        ck.obligation('correspondence:parse', False, 'model could not be evaluated')
        ck.tie_broken.append('correspondence VMF.parse: model evaluation failed')
        return
    bad += [wcases[c * 400 + i] for c, idxs in enumerate(res[:n_w]) for i in idxs]
    bad += [ncases[c * 400 + i] for c, idxs in enumerate(res[n_w:]) for i in idxs]
    ck.obligation('correspondence:parse', not bad,
                  f'{len(cases)} per-kind ID lists of {n} parsed documents (entities, brushes, faces, groups, visgroups, node IDs), '
                  f'model WParse/NCreate vs VMF.parse: {len(bad)} disagreements')
    if bad:
        c = min(bad, key=lambda c: len(c[3]))
        ck.tie_broken.append('correspondence VMF.parse (SM/IdWorld.v WParse, SM/IdNode.v NCreate vs VMF.parse)')
        ck.extra['parse_disagreement'] = {'kind': c[0], 'events': c[1], 'impl_ids': c[2], 'vmf_text': c[3]}


def _post_vis(lst):
    for v in lst:
        yield from _post_vis(v.child_groups)
        yield v


# ------------------------------------------------------------------------------------------------ main
# ---------------------------------------------------------------------------------------------------------------------------------
# Round 5: constructor / parse calls that FAIL on a map whose live objects hold the requested IDs.  The caller catches the exception and
# carries on; the half-built object dies (at once, or later when the exception object goes); then new objects are allocated and the map
# is scanned.  Every ID-bearing class, every constructor parameter with junk values, every leaf of an exported block corrupted.

JUNK_ARGS = [5, 'grp_a', None, 3.5, [[1]], object]      # `object` stands for a fresh object() (replayable)
JUNK_TEXT = ['grp_a', '', '(0 0', '1 2 x', '[0 0', '-']
ID_PARAMS = {'Solid': 'id', 'Side': 'des_id', 'Entity': 'ent_id', 'VisGroup': 'id', 'EntityGroup': 'id'}
KIND_OF_CLASS = {'Solid': 'solid', 'Side': 'face', 'Entity': 'ent', 'VisGroup': 'vis', 'EntityGroup': 'group'}


def _fc_map():
    """A small map whose live objects hold the IDs 1.. of every kind: 3 world brushes, a brush entity, two point entities (one nav
    node), a visgroup with a child, a brush group."""
    from srctools import Vec
    from srctools.vmf import VMF, VisGroup, EntityGroup
    v = VMF()
    for i in range(3):
        v.add_brush(v.make_prism(Vec(128 * i, 0, 0), Vec(128 * i + 64, 64, 64)).solid)
    be = v.create_ent('func_detail')
    be.solids.append(v.make_prism(Vec(0, 256, 0), Vec(64, 320, 64)).solid)
    v.create_ent('info_target', targetname='t')
    v.create_ent('info_node', nodeid='1')
    child = VisGroup(v, 'child')
    v.vis_tree.append(VisGroup(v, 'top', child_groups=[child]))
    g = EntityGroup(v)
    v.groups[g.id] = g
    from srctools.vmf import Output
    for b in v.brushes[:2]:         # blocks with every optional key
        b.group_id = g.id
        b.visgroup_ids.add(1)
    be.groups.add(g.id)
    be.visgroup_ids.add(1)
    be.add_out(Output('OnUser1', 't', 'Kill'))
    be.solids[0].visgroup_ids.add(2)
    return v


def _fc_allocate(v) -> None:
    """New objects of every kind, enough to walk through the small IDs."""
    from srctools import Vec
    from srctools.vmf import VisGroup, EntityGroup
    for i in range(2):
        v.add_brush(v.make_prism(Vec(128 * i, 512, 0), Vec(128 * i + 64, 576, 64)).solid)
    v.create_ent('info_target')
    v.create_ent('info_node', nodeid='-1')
    v.vis_tree.append(VisGroup(v, 'later'))
    g = EntityGroup(v)
    v.groups[g.id] = g


def _fc_required(cls_name: str):
    from srctools import Vec
    return {'Side': {'planes': [Vec(0, 0, 0), Vec(1, 0, 0), Vec(0, 1, 0)]}, 'VisGroup': {'name': 'x'}}.get(cls_name, {})


def _fc_target(v, cls_name: str, which: int) -> int:
    ids = scan_map(v)[KIND_OF_CLASS[cls_name]]
    return ids[which % len(ids)]


def fc_ctor_case(cls_name: str, param: str, junk: list[int], which: int, hold: bool):
    """Constructor calls `cls(map, <id param>=<ID of a live object>, <param>=<junk>)` for the listed junk values; returns
    (problems after the allocations that follow, number of calls that raised)."""
    import srctools.vmf as V
    cls = getattr(V, cls_name)
    v = _fc_map()
    kept = []
    raised = 0
    for j in junk:
        val = JUNK_ARGS[j]
        val = object() if val is object else val
        kw = dict(_fc_required(cls_name))
        kw[ID_PARAMS[cls_name]] = _fc_target(v, cls_name, which)
        if cls_name == 'Entity':    # a nav-node entity: the node ID a live entity holds is requested too (registered key by key, before later steps can raise)
            kw['keys'] = {'classname': 'info_node', 'nodeid': str(scan_map(v)['node'][0])}
        kw[param] = val
        try:
            cls(v, **kw)
        except Exception as e:      # the caller of a failing constructor: catches, carries on
            raised += 1
            if hold:
                kept.append(e)      # the traceback keeps the half-built object alive for a while
    gc.collect()
    if hold:
        _fc_allocate(v)
        del kept[:]
        gc.collect()
    _fc_allocate(v)
    return list(dup_report(scan_map(v))), raised


def _fc_blocks(v):
    """Exported blocks of live objects of the map, by class: their "id"s are IDs that live objects hold."""
    import io
    from srctools import Keyvalues
    out = {}
    buf = io.StringIO()
    v.brushes[1].export(buf, '')
    out['Solid'] = Keyvalues.parse(buf.getvalue()).find_key('solid')
    out['Side'] = next(out['Solid'].find_all('side')).copy()
    buf = io.StringIO()
    v.entities[0].export(buf, '')
    out['Entity'] = Keyvalues.parse(buf.getvalue()).find_key('entity')
    out['VisGroup'] = Keyvalues('visgroup', [Keyvalues('name', 'top'), Keyvalues('visgroupid', '1'), Keyvalues('color', '1 2 3'),
                                             Keyvalues('visgroup', [Keyvalues('name', 'c'), Keyvalues('visgroupid', '2'), Keyvalues('color', '1 2 3')])])
    out['EntityGroup'] = Keyvalues('group', [Keyvalues('id', '1'), Keyvalues('editor', [Keyvalues('color', '1 2 3'), Keyvalues('visgroupshown', '1'),
                                                                                          Keyvalues('visgroupautoshown', '1')])])
    return out


def _fc_leaves(block, path=()):
    for i, ch in enumerate(block):
        if ch.has_children():
            yield from _fc_leaves(ch, path + (i,))
        else:
            yield path + (i,)


def _fc_at(block, path):
    for i in path:
        block = list(block)[i]
    return block


def fc_parse_case(cls_name: str, leaf: int, junk: list[int], hold: bool):
    """`cls.parse(map, block)` on the exported block of a live object (so every "id" in it is taken) with one leaf value replaced
    by junk text (index len(JUNK_TEXT) = the leaf is removed)."""
    import srctools.vmf as V
    cls = getattr(V, cls_name)
    v = _fc_map()
    base = _fc_blocks(v)[cls_name]
    leaves = list(_fc_leaves(base))
    path = leaves[leaf % len(leaves)]
    kept = []
    raised = 0
    name = None
    for j in junk:
        block = base.copy()
        tgt = _fc_at(block, path)
        name = tgt.real_name
        if j >= len(JUNK_TEXT):
            parent = _fc_at(block, path[:-1])
            del parent[path[-1]]
        else:
            tgt.value = JUNK_TEXT[j]
        try:
            cls.parse(v, block)
        except Exception as e:
            raised += 1
            if hold:
                kept.append(e)
    gc.collect()
    if hold:
        _fc_allocate(v)
        del kept[:]
        gc.collect()
    _fc_allocate(v)
    return list(dup_report(scan_map(v))), raised, name, len(leaves)


def fc_shallow_case(cls_name: str, which: int, hold: bool):
    """copy.copy() of the `which`-th live object of the class; the copy is dropped (at once, or after some allocations); new objects
    are allocated; problems of the scan."""
    import copy
    v = _fc_map()
    live = {'Solid': lambda: list(v.brushes), 'Side': lambda: [b.sides[0] for b in v.brushes], 'Entity': lambda: list(v.entities),
            'VisGroup': lambda: list(_walk_vis(v.vis_tree)), 'EntityGroup': lambda: list(v.groups.values())}[cls_name]()
    x = copy.copy(live[which % len(live)])
    del live
    if hold:
        _fc_allocate(v)
    probs = list(dup_report(scan_map(v)))
    del x
    gc.collect()
    _fc_allocate(v)
    return probs + list(dup_report(scan_map(v)))


def search_failed_constructors(ck: Ck) -> None:
    import sys
    hook = sys.unraisablehook
    # the destructor of an object whose constructor failed before `self.map` / `self.id` were set raises AttributeError, which CPython
    # reports through this hook ("Exception ignored in ..."): expected here, not printed
    sys.unraisablehook = lambda *a: None
    try:
        _search_failed_constructors(ck)
    finally:
        sys.unraisablehook = hook


def _search_failed_constructors(ck: Ck) -> None:
    import inspect
    import srctools.vmf as V
    found: dict[str, tuple] = {}
    gc_begin()
    all_junk = list(range(len(JUNK_ARGS)))
    n_ctor = n_raise = 0
    for cls_name in ID_PARAMS:
        cls = getattr(V, cls_name)
        params = [p for p in list(inspect.signature(cls.__init__).parameters)[2:] if p != ID_PARAMS[cls_name]]
        for pi, param in enumerate(params):
            for hold in (False, True):
                which = ck.rng.randrange(4)
                probs, raised = fc_ctor_case(cls_name, param, all_junk, which, hold)
                n_ctor += len(all_junk)
                n_raise += raised
                ck.count('failed_constructor_calls', len(all_junk))
                ck.hist('failed_constructor_class', cls_name, raised)
                if raised:
                    ck.seen(('failctor', cls_name, param, hold, which))
                if probs:
                    # narrow to one junk value
                    for j in all_junk:
                        p1, _ = fc_ctor_case(cls_name, param, [j], which, hold)
                        if p1:
                            kind, what, vals = p1[0]
                            key = f'{"fixup-index" if kind.startswith("fixup") else kind + "-id"}-{what}-after-failed-constructor'
                            found.setdefault(key, (f'{cls_name}(map, {ID_PARAMS[cls_name]}=<ID of a live object>, {param}={JUNK_ARGS[j]!r}) raises; afterwards '
                                                   f'{kind} IDs {what}: {vals}',
                                                   {'mode': 'ctor', 'cls': cls_name, 'param': param, 'junk': [j], 'which': which, 'hold': hold, 'problem': [kind, what, vals]}))
                            break
    all_text = list(range(len(JUNK_TEXT) + 1))
    for cls_name in ID_PARAMS:
        n_leaves = fc_parse_case(cls_name, 0, [], False)[3]
        step = 1        # every leaf: the whole family costs a few seconds
        start = ck.rng.randrange(step)
        for leaf in range(start, n_leaves, step):
            hold = bool((leaf // step) % 2)
            probs, raised, name, _ = fc_parse_case(cls_name, leaf, all_text, hold)
            ck.count('failed_parse_calls', len(all_text))
            ck.hist('failed_parse_class', cls_name, raised)
            n_raise += raised
            if raised:
                ck.seen(('failparse', cls_name, leaf, hold))
            if probs:
                for j in all_text:
                    p1, _, _, _ = fc_parse_case(cls_name, leaf, [j], hold)
                    if p1:
                        kind, what, vals = p1[0]
                        key = f'{"fixup-index" if kind.startswith("fixup") else kind + "-id"}-{what}-after-failed-parse'
                        jt = repr(JUNK_TEXT[j]) if j < len(JUNK_TEXT) else '<removed>'
                        found.setdefault(key, (f'{cls_name}.parse(map, <exported block of a live object with "{name}" = {jt}>) raises; afterwards {kind} IDs {what}: {vals}',
                                               {'mode': 'parse', 'cls': cls_name, 'leaf': leaf, 'junk': [j], 'hold': hold, 'problem': [kind, what, vals]}))
                        break
    # objects that come into being WITHOUT the constructor: copy.copy() of a live object (same map).  A field-by-field duplicate would
    # hold the ID of its source without having registered it, and release it when it dies.
    for cls_name in ID_PARAMS:
        for which in range(3):
            for hold in (False, True):
                probs = fc_shallow_case(cls_name, which, hold)
                ck.count('copy_module_copies')
                ck.seen(('shallow', cls_name, which, hold))
                if probs:
                    kind, what, vals = probs[0]
                    key = f'{"fixup-index" if kind.startswith("fixup") else kind + "-id"}-{what}-after-copy-module-copy'
                    found.setdefault(key, (f'copy.copy(<live {cls_name}>) is dropped; afterwards {kind} IDs {what}: {vals}',
                                           {'mode': 'shallow', 'cls': cls_name, 'which': which, 'hold': hold, 'problem': [kind, what, vals]}))
    gc_end()
    ck.extra['failed_constructor_search'] = {'constructor_calls': n_ctor, 'calls_that_raised': n_raise}
    ck.obligation('search:some-constructor-calls-do-fail', n_raise >= 20, f'{n_raise} of the junk / corrupted calls raised')
    for key, (what, rep) in found.items():
        rep['how'] = 'checks.c08.fc_ctor_case(cls, param, junk, which, hold) / fc_parse_case(cls, leaf, junk, hold): problems after the failing call, gc and new allocations'
        ck.violation(key, what, rep)


CTOR_PRE = PRE + '''
Definition ctor_obs_ok (k : kind) (o : bool * bool * bool * bool) : bool :=
  match List.find (fun r : kind * String.string * list ctor_step * bool * bool => kind_eqb k (fst (fst (fst (fst r))))) ctor_classes with
  | Some r =>
      let steps := List.map ctor_step_of (snd (fst (fst r))) in
      let has := fst (fst (fst o)) in let reg := snd (fst (fst o)) in let own := snd (fst o) in
      andb (existsb (fun s : bool * bool * bool => andb (andb (Bool.eqb (fst (fst s)) has) (Bool.eqb (snd (fst s)) reg)) (Bool.eqb (snd s) own))
                    (fail_states steps false false false))
           (Bool.eqb (snd o) (andb (andb (snd (fst r)) (orb (negb (snd r)) own)) has))
  | None => false
  end.
'''
MGR_OF_CLASS = {'Solid': 'solid_id', 'Side': 'face_id', 'Entity': 'ent_id', 'VisGroup': 'vis_id', 'EntityGroup': 'group_id'}


def fc_observe(cls_name: str, flag: str | None, fn):
    """One failing call on a fresh map: the state of the half-built object of class `cls_name` (found through the traceback: the
    outermost `__init__` frame whose `self` is of that class) as (slot `id` set, the value was handed out by the manager during this
    call, ownership flag, the ID it holds left the manager when the object died).  None: the call did not raise / no object existed."""
    import srctools.vmf as V
    cls = getattr(V, cls_name)
    v = _fc_map()
    mgr = getattr(v, MGR_OF_CLASS[cls_name])
    before = set(mgr)
    exc = None
    try:
        fn(v)
    except Exception as e:
        exc = e
    if exc is None:
        return None
    obj = None
    tb = exc.__traceback__
    while tb is not None:
        fr = tb.tb_frame
        if fr.f_code.co_name == '__init__' and type(fr.f_locals.get('self')) is cls:
            obj = fr.f_locals['self']
            break
        tb = tb.tb_next
    fr = tb = None
    if obj is None:
        return None
    has = hasattr(obj, 'id')
    hid = obj.id if has else None
    reg = bool(has and hid in (set(mgr) - before))
    own = bool(getattr(obj, flag, False)) if flag else False
    held = has and hid in mgr
    obj = exc = None
    gc.collect()
    released = bool(held and hid not in mgr)
    return (has, reg, own, released)


def corr_ctor(ck: Ck, rows: list[dict]):
    """The constructor step lists read from the source (SM/IdCtor.v fail_states / the destructor shape) against the half-built objects
    that failing constructor and parse calls really leave behind."""
    import inspect
    import sys
    import srctools.vmf as V
    hook = sys.unraisablehook
    sys.unraisablehook = lambda *a: None
    obs: dict[str, dict[tuple, str]] = {}
    n_calls = 0
    try:
        gc_begin()
        for row in rows:
            cls_name, flag = row['cls'], row.get('flag')
            cls = getattr(V, cls_name)
            seen: dict[tuple, str] = obs.setdefault(cls_name, {})
            params = [p for p in list(inspect.signature(cls.__init__).parameters)[2:] if p != ID_PARAMS[cls_name]]
            for param in params:
                for j in range(len(JUNK_ARGS)):
                    def call(v, param=param, j=j):
                        val = object() if JUNK_ARGS[j] is object else JUNK_ARGS[j]
                        kw = dict(_fc_required(cls_name))
                        kw[ID_PARAMS[cls_name]] = _fc_target(v, cls_name, j)
                        kw[param] = val
                        cls(v, **kw)
                    o = fc_observe(cls_name, flag, call)
                    n_calls += 1
                    if o is not None:
                        seen.setdefault(o, f'{cls_name}(map, {ID_PARAMS[cls_name]}=<live ID>, {param}={JUNK_ARGS[j]!r})')
                        ck.hist('half_built_states', f'{cls_name}:id_set={o[0]},registered={o[1]},owned={o[2]},released={o[3]}')
            n_leaves = fc_parse_case(cls_name, 0, [], False)[3]
            for leaf in range(n_leaves):
                for j in (0, 2, len(JUNK_TEXT)):        # a word, a broken vector, the leaf removed (the search stage tries all)
                    def call(v, leaf=leaf, j=j):
                        base = _fc_blocks(v)[cls_name]
                        path = list(_fc_leaves(base))[leaf]
                        if j >= len(JUNK_TEXT):
                            del _fc_at(base, path[:-1])[path[-1]]
                        else:
                            _fc_at(base, path).value = JUNK_TEXT[j]
                        cls.parse(v, base)
                    o = fc_observe(cls_name, flag, call)
                    n_calls += 1
                    if o is not None:
                        seen.setdefault(o, f'{cls_name}.parse(map, <block of a live object, leaf {leaf} := junk {j}>)')
                        ck.hist('half_built_states', f'{cls_name}:id_set={o[0]},registered={o[1]},owned={o[2]},released={o[3]}')
        gc_end()
    finally:
        sys.unraisablehook = hook
    ck.count('ctor_failure_observations', n_calls)
    b = {True: 'true', False: 'false'}
    order = [(r['kind'], r['cls'], sorted(obs.get(r['cls'], {}))) for r in rows]
    exprs = [f'bad_idx (ctor_obs_ok {kind}) 0 {coq_list("(%s, %s, %s, %s)" % tuple(b[x] for x in o) for o in lst)}' for kind, _, lst in order]
    res = yield ('ctor', CTOR_PRE, exprs, 8)
    if res is None:
        ck.obligation('correspondence:ctor-failure-states', False, 'model could not be evaluated')
        ck.tie_broken.append('correspondence constructor failure states: model evaluation failed')
        return
    bad = [(cls, lst[i], obs[cls][lst[i]]) for (kind, cls, lst), idxs in zip(order, res) for i in idxs]
    n_states = sum(len(l) for _, _, l in order)
    ck.obligation('correspondence:ctor-failure-states', not bad and n_states >= 2,
                  f'{n_calls} junk / corrupted constructor and parse calls, {n_states} distinct (class, id slot set, registered, flag, released) states of half-built '
                  f'objects, each must be a state of the step list read from the source and released as its destructor shape says: {len(bad)} disagreements')
    ck.extra['half_built_states'] = {cls: [{'id_set': o[0], 'registered': o[1], 'owned': o[2], 'released_on_death': o[3], 'example': obs[cls][o]} for o in lst]
                                     for _, cls, lst in order}
    if bad:
        ck.tie_broken.append('correspondence constructor failure states (SM/IdCtor.v fail_states vs half-built objects found through the traceback)')
        ck.extra['ctor_state_disagreement'] = [{'cls': c, 'state(id_set,registered,owned,released)': list(o), 'example': ex} for c, o, ex in bad[:5]]


class ImplHang(BaseException):      # not an Exception: the `except Exception` of a history runner must not swallow it
    pass


STAGE_LIMIT_S = int(__import__('os').environ.get('C08_STAGE_LIMIT_S', '420'))     # (the variable is for testing the guard only)
# a stage takes 1-15 s (thorough: up to 80 s; with budgets escalated by a broken tie up to 80 s) on a loaded machine; a fault that
# makes the implementation loop ends here.  Once one stage has hung, the others get a minute each (a failing input is known).
_hung: list = []


_pending: list = []
_POOL: list = []


def _pool():
    if not _POOL:
        from concurrent.futures import ThreadPoolExecutor
        _POOL.append(ThreadPoolExecutor(max_workers=3))
    return _POOL[0]


def guarded(ck: Ck, stage: str, fn, *args, resume=None) -> None:
    """Run one stage that calls into the implementation.  A fault can make the implementation raise where it never does, or
    loop for ever (the ID scan of IDMan.get_id, the index search of EntityFixup.__setitem__): both are failing inputs of this
    property's histories, reported as VIOLATION with the stage and seed as replay -- not as an internal error or a hung check.
    An exception whose traceback never enters srctools is a defect of the check itself and is passed on."""
    import signal
    import traceback

    def on_alarm(signum, frame):
        raise ImplHang(f'stage {stage} did not finish within {STAGE_LIMIT_S} s')
    old = signal.signal(signal.SIGALRM, on_alarm)
    # repeating: an alarm that goes off inside a destructor is printed and ignored by CPython, the next one gets through
    signal.setitimer(signal.ITIMER_REAL, min(STAGE_LIMIT_S, 60) if _hung else STAGE_LIMIT_S, 5)
    import time
    import inspect
    t0 = time.time()
    try:
        if resume is not None:
            # second phase of a correspondence: the values of its Coq evaluation are there
            gen, fut = resume
            try:
                gen.send(fut.result())
            except StopIteration:
                pass
        elif inspect.isgeneratorfunction(fn):
            # first phase: generate the cases on the implementation (main thread, `ck.rng` in stage order); the vm_compute evaluation
            # the stage asks for runs in a worker thread (a coqc process) while the next stages generate theirs
            gen = fn(ck, *args)
            try:
                req = next(gen)
                _pending.append((stage, gen, _pool().submit(eval_bad, ck, *req)))
            except StopIteration:
                pass
        else:
            fn(ck, *args)
        d = ck.extra.setdefault('stage_seconds', {})
        d[stage] = round(d.get(stage, 0) + time.time() - t0, 1)
    except ImplHang as e:
        signal.setitimer(signal.ITIMER_REAL, 0)
        _hung.append(stage)
        frames = traceback.extract_tb(e.__traceback__)
        where = next((f'{f.filename.rsplit("/", 1)[-1]}:{f.lineno} {f.name}' for f in reversed(frames) if '/srctools/' in f.filename), None)
        if where is None:
            raise
        ck.obligation(f'stage-completes:{stage}', False, str(e))
        ck.violation(f'impl-hang-{stage}', f'{e}; the implementation was executing {where}',
                     {'stage': stage, 'seed': ck.seed, 'tier': ck.tier, 'where': where, 'how': f'checks.c08 stage {stage} with this seed'})
        ck.explain(f'stage-completes:{stage}')
    except Exception as e:
        signal.setitimer(signal.ITIMER_REAL, 0)
        frames = traceback.extract_tb(e.__traceback__)
        inside = [f for f in frames if '/srctools/' in f.filename]
        if not inside:
            raise
        where = f'{inside[-1].filename.rsplit("/", 1)[-1]}:{inside[-1].lineno} {inside[-1].name}'
        ck.obligation(f'stage-completes:{stage}', False, f'{type(e).__name__}: {e}')
        ck.violation(f'impl-exception-{stage}', f'the implementation raised {type(e).__name__}: {e} at {where} during a legal history',
                     {'stage': stage, 'seed': ck.seed, 'tier': ck.tier, 'where': where, 'traceback': traceback.format_exception(type(e), e, e.__traceback__)[-6:],
                      'how': f'checks.c08 stage {stage} with this seed'})
        ck.explain(f'stage-completes:{stage}')
    finally:
        signal.setitimer(signal.ITIMER_REAL, 0)
        signal.signal(signal.SIGALRM, old)
        try:
            gc.unfreeze()
        except Exception:
            pass


def run(ck: Ck) -> None:
    ck.rule = ('IDMan: random operation sequences over a small ID range (collisions frequent) from IDMan(existing), non-trivial = '
               'more than 3 distinct results (thorough: in addition every sequence of up to 4 operations over 12 operations from the empty manager); lifecycle: random histories of create/copy/cross-map copy/collapse_one/remove/re-add/gc/'
               'node edits over 9 object kinds (incl. make_prism / make_hollow), a quarter of them starting from maps built by VMF.parse of small documents (world id 1 in most), full gc.collect() at every step boundary, the worldspawn counted among the entities, non-trivial = contains create and remove; world: histories over three maps of point '
               'entities, brush entities, world brushes, brush groups and visgroup trees (every object gets its events in the stream of '
               'its kind; the entity/brush/face part also runs as bundled events on top-level objects), non-trivial = '
               'contains an explicit cross-map or same-map copy(<map>), a collapse_one (visgroup False / True / a VisGroup of the destination) or a map that starts as VMF.parse of a generated document (40 % of the maps; the event TParse runs the program read from VMF.parse); node maps: histories of node entities over three maps '
               'with cross-map copy, fixup_key reservations and the real collapse_one, non-trivial = contains a copy or collapse; node: histories of the nodeid keyvalue, non-trivial = '
               'at least two of set/delete/remove; parse: generated VMF documents whose ids are drawn from a small pool with '
               'missing/0/negative/colliding values, non-trivial = at least two kinds with different desired ids; fixups: random '
               'init lists with colliding/non-positive indexes followed by set/setdefault/update, del/pop, clear, Entity.copy rebuilds and '
               'copy/deepcopy/pickle, directly or through an Entity, non-trivial = at least two variables left (thorough: in addition every constructor '
               'argument of up to 2 values followed by every sequence of up to 2 operations, and of 3 values followed by at most one); '
               'failed constructors: every constructor parameter of the five ID classes x 6 junk values and every leaf of the exported block of a live object x 6 junk texts / removed '
               '(through cls.parse), requested ID = ID of a live object, exception dropped at once or kept across allocations, then new objects of every kind and a scan; copy.copy() of '
               'live objects; non-trivial = at least one call of the group raised; '
               'distinct by full sequence / text')
    ck.trusted.append('hand-written models SM/IdMan.v, SM/IdLife.v, SM/IdFixupHist.v, SM/IdWorld.v, SM/IdNest.v, SM/IdNode.v, SM/IdNodeMaps.v (tied by differential correspondence on every run)')
    ck.trusted.append('translate/c08_parse.py (which statements of VMF.parse touch entity / brush / face IDs; constructor calls spelled through a module attribute are not in the helper census)')
    ck.trusted.append('translate/c08_ctor.py (which steps of a constructor can raise, the order in which the attrs-generated __init__ runs stores / converters / validators / '
                      '__attrs_post_init__; tied to the attrs library only through the observed states of half-built objects); hand model SM/IdCtor.v')
    ck.assumptions.append('IDMan.get_id does not raise; objects come into being only through the constructor or copy.copy() (not object.__new__ / a hand-made __setstate__)')
    ck.assumptions.append('NullIDMan is used only for maps opened with preserve_ids=True (census obligation maps_get_idman_unless_preserve_ids); such maps are exempt')
    ck.assumptions.append('objects are added to the map they were constructed for (VMF.add_ent docstring); Entity._keys is only written through the mapping API')
    ok_t = ck.translate('IdSites_gen', c08_sites.translate)
    side = ck.extra.get('translated', {}).get('IdSites_gen', {})
    built = ok_t and ck.build(['Props/C08.vo'])
    th = None
    ctor_only = False
    failed: list[str] = []
    if built:
        # Print Assumptions of every statement of Props/C08.v takes a coqc process of its own (10-20 s on a loaded machine): it runs in
        # a worker thread on a copy of `ck` with lists of its own, merged below at the position where the results belong.  The instance
        # obligations stay in this thread: a failed one must escalate the budgets of the stages that follow.
        import copy
        ck_t = copy.copy(ck)
        ck_t.obligations, ck_t.axioms, ck_t.tie_broken, ck_t.notes = [], {}, [], []
        th_pos = len(ck.obligations)
        th = _pool().submit(ck_t.theorems, 'Props/C08.v')
        res = ck.instance_obligations(IMPORTS, {
            'ent_released_only_by_destructor': 'negb (release_on_remove KEnt)',
            'solid_released_only_by_destructor': 'negb (release_on_remove KSolid)',
            'face_released_only_by_destructor': 'negb (release_on_remove KFace)',
            'group_never_released_outside_destructor': 'negb (release_on_remove KGroup)',
            'visgroup_never_released_outside_destructor': 'negb (release_on_remove KVis)',
            'every_id_store_is_a_get_id_result': 'all_id_stores_from_get_id',
            'fixup_constructor_tests_positivity': 'fixup_init_requires_positive',
            'fixup_set_searches_from_1': 'Z.eqb fixup_set_start 1',
            'fixup_constructor_reinserts_refused_values_after_the_first_pass': 'fixup_init_defers_reinsertion',
            'idman_hint_lowered_only_by_positive_ids': 'idman_lower_guard',
            'each_class_uses_the_manager_of_its_kind': 'class_kind_consistent',
            'entity_copies_allocate_in_destination_map': 'copy_to_dest KEnt',
            'solid_copies_allocate_in_destination_map': 'copy_to_dest KSolid',
            'face_copies_allocate_in_destination_map': 'copy_to_dest KFace',
            'visgroup_copies_allocate_in_destination_map': 'copy_to_dest KVis',
            'group_copies_allocate_in_destination_map': 'copy_to_dest KGroup',
            'node_id_not_released_on_remove': 'negb node_release_on_remove',
            'every_keyvalue_write_goes_through_node_registration': 'keys_writes_registered',
            'every_fixup_table_write_is_a_modelled_operation': 'fixup_writes_modelled',
            'vmf_parse_releases_no_id_itself': 'parse_releases_nothing',
            'helpers_build_every_part_in_the_one_map_they_are_given': 'andb (forallb snd helper_ctor_sites) (negb (Nat.eqb (length helper_ctor_sites) 0))',
            'maps_get_idman_unless_preserve_ids': 'managers_are_idman_unless_preserve_ids',
            # round 5: at no point where the constructor can raise would the destructor release an ID the object has not registered
            'entity_constructor_failure_releases_only_its_own_id': 'constructor_fails_safely KEnt',
            'solid_constructor_failure_releases_only_its_own_id': 'constructor_fails_safely KSolid',
            'face_constructor_failure_releases_only_its_own_id': 'constructor_fails_safely KFace',
            'visgroup_constructor_failure_releases_only_its_own_id': 'constructor_fails_safely KVis',
            'group_constructor_failure_releases_only_its_own_id': 'constructor_fails_safely KGroup',
            'constructors_fail_safely': 'constructors_fail_safely',
            'copy_module_copies_go_through_copy': 'copy_module_copies_are_real_copies',
            'no_unclassified_release_site': 'forallb (fun x : kind * site * String.string => match snd (fst x) with SOther => false | _ => true end) release_sites',
        })
        prog = [r[0] for r in side.get('parse_program', [])] or None
        failed = sorted(n for n, ok in res.items() if not ok)
        # a premise of the theorems does not hold on this tree: search with the large budgets from the first stage on -- unless only the
        # constructor-failure / copy-module premises failed: their search stage is exhaustive over its family with any budget, so the other
        # stages keep their budgets and are escalated (second pass below) only if that stage finds no failing input
        ctor_only = bool(failed) and all('constructor' in n or 'copy_module' in n for n in failed)
        if failed and not ctor_only:
            ck.tie_broken.append('instance obligations: ' + ', '.join(failed))
        ror = any(r[0] == 'KEnt' and r[1] != 'SDel' for r in side.get('releases', []))
        stages = [('idman', corr_idman, ()), ('fixup', corr_fixups, (bool(side.get('fixup_init_requires_positive')), bool(side.get('fixup_init_defers', True)))),
                  ('lifecycle', corr_lifecycle, (ror,)), ('world', corr_world, (prog,)), ('node', corr_nodes, ()), ('parse', corr_parse, (prog,)),
                  ('ctor', corr_ctor, (side.get('ctor_classes', []),))]
        escalated_from_start = bool(ck.tie_broken)
        for name, fn, args in stages:
            guarded(ck, name, fn, *args)
    guarded(ck, 'search', search_lifecycle)
    guarded(ck, 'failed-constructors', search_failed_constructors)
    if th is not None:
        th.result()
        ck.obligations[th_pos:th_pos] = ck_t.obligations
        ck.axioms.update(ck_t.axioms)
        ck.tie_broken += ck_t.tie_broken
        ck.notes += ck_t.notes
    for stage, gen, fut in _pending:
        guarded(ck, stage, None, resume=(gen, fut))
    del _pending[:]
    if built and ctor_only and not any('-after-failed-' in v['key'] or '-after-copy-module-copy' in v['key'] for v in ck.violations):
        ck.tie_broken.append('instance obligations: ' + ', '.join(failed))
    if built and ck.tie_broken and not escalated_from_start and not _hung:
        # a correspondence disagrees, and its verdict came after every stage had generated its cases with the small budgets (the Coq
        # evaluations run in the background): once more, one stage after the other, with the large budgets a broken tie gets --
        # that is where the failing input usually comes from.  The obligations of the second pass carry the larger samples.
        ck.extra['second_pass'] = list(ck.tie_broken)
        for name, fn, args in stages:
            guarded(ck, name, fn, *args)
            for stage, gen, fut in _pending:
                guarded(ck, stage, None, resume=(gen, fut))
            del _pending[:]
        guarded(ck, 'search', search_lifecycle)
    # Failed obligations are explained when the search exhibits a concrete history of the corresponding class.
    keys = {v['key'] for v in ck.violations}

    def has(*frags):
        return any(all(f in k for f in frags) for k in keys)
    if has('ent-id-duplicate') or has('ent-id-nonpositive'):
        ck.explain('instance:ent_released_only_by_destructor')
        ck.explain('correspondence:lifecycle')
    for kind, name in (('solid', 'solid'), ('face', 'face'), ('ent', 'entity'), ('vis', 'visgroup'), ('group', 'group')):
        if has(kind + '-id-duplicate'):
            ck.explain(f'instance:{kind}_released_only_by_destructor')
            ck.explain('instance:each_class_uses_the_manager_of_its_kind')
            ck.explain('correspondence:world')
            ck.explain('correspondence:nested')
        if has('xmap-' + kind + '-id-'):
            ck.explain(f'instance:{name}_copies_allocate_in_destination_map')
            ck.explain('correspondence:world')
            ck.explain('correspondence:nested')
    if has('fixup-index'):
        ck.explain('instance:fixup_constructor_tests_positivity')
        ck.explain('instance:fixup_set_searches_from_1')
        ck.explain('instance:fixup_constructor_reinserts')
        ck.explain('instance:every_fixup_table_write_is_a_modelled_operation')
        ck.explain('correspondence:fixup')
    if has('node-id-'):
        ck.explain('instance:node_id_not_released_on_remove')
        ck.explain('instance:every_keyvalue_write_goes_through_node_registration')
        ck.explain('correspondence:node')
        ck.explain('correspondence:nodemaps')
    if has('-id-nonpositive'):
        ck.explain('instance:idman_hint_lowered_only_by_positive_ids')
        ck.explain('correspondence:idman')
    if has('idman-'):
        ck.explain('instance:idman_hint_lowered_only_by_positive_ids')
        ck.explain('correspondence:idman')
    if has('-id-duplicate'):
        ck.explain('instance:maps_get_idman_unless_preserve_ids')
    if has('xmap-') or has('solid-id-duplicate') or has('face-id-duplicate'):
        ck.explain('instance:helpers_build_every_part_in_the_one_map_they_are_given')
    for kind, name in (('solid', 'solid'), ('face', 'face'), ('ent', 'entity'), ('vis', 'visgroup'), ('group', 'group')):
        if has(kind + '-id-', '-after-failed-'):
            ck.explain(f'instance:{name}_constructor_failure_releases_only_its_own_id')
            ck.explain('instance:constructors_fail_safely')
            ck.explain('correspondence:ctor-failure-states')
            ck.explain('instance:every_id_store_is_a_get_id_result')      # a raw store to .id in a constructor is what the replay needs
    if has('-after-copy-module-copy'):
        ck.explain('instance:copy_module_copies_go_through_copy')
    if has('parse-') or has('-after-parse'):
        ck.explain('correspondence:parse')
        ck.explain('correspondence:parse-destructor-time')
        ck.explain('instance:vmf_parse_releases_no_id_itself')
    # a release site the census could not classify is explained by a concrete duplicate of the kind it releases
    names = {'KEnt': 'ent', 'KSolid': 'solid', 'KFace': 'face', 'KGroup': 'group', 'KVis': 'vis', 'KNode': 'node'}
    other = {names.get(r[0], '?') for r in side.get('releases', []) if r[1] == 'SOther'}
    if other and all(has(k + '-id-duplicate') for k in other):
        ck.explain('instance:no_unclassified_release_site')
    if not ok_t and keys:
        # the translator failed closed on a shape it cannot classify, and the search exhibits a concrete duplicate / non-positive
        # ID on the same tree: the replay is the failing input of this alarm
        ck.explain('translate:IdSites_gen')


def replay(data: dict) -> int:
    r = data['replay']
    if r.get('mode') == 'ctor':
        print(fc_ctor_case(r['cls'], r['param'], r['junk'], r['which'], r['hold']))
        return 0
    if r.get('mode') == 'parse':
        print(fc_parse_case(r['cls'], r['leaf'], r['junk'], r['hold']))
        return 0
    if r.get('mode') == 'shallow':
        print(fc_shallow_case(r['cls'], r['which'], r['hold']))
        return 0
    if 'history' in r:
        steps, _, _ = run_history([tuple(e) for e in r['history']])
        for i, s in enumerate(steps):
            print(i, s, list(dup_report(s)) if 'error' not in s else '')
        return 0
    print(r)
    return 0
