"""C03 — tokenizing is total and independent of how the input is chunked."""
from __future__ import annotations

import itertools
import json
import random
from concurrent.futures import ThreadPoolExecutor
from typing import Any

from harness import c02_util as U
from harness.common import VERIF, Ck, coq_list, coq_str
from translate import c02_hstring, c02_tables, c03_basetok, c03_errfmt, c03_kvparse, c03_nextchar

MANIFEST = dict(
    technique='Rocq proof (generic chunked-reader = flat-reader simulation for every reader program; totality, progress, '
              'EOF-for-ever and a linear read bound for the tokenizer model by induction on fuel; push-back-stack refinement and '
              'bisimulation for the BaseTokenizer layer; exception-level model of Keyvalues.parse configured by a census of the '
              'parse path; _get_token / _handle_comment / _handle_string / _next_char read from the source by abstract execution into '
              'decision trees / tables whose interpretation is proved equal to the hand model when they pass boolean conditions) + '
              'exhaustive small-scope differential correspondences (in-kernel enumeration, 63-bit checksums) + '
              'chunking / delivery / foreign-exception / chunk-source oracles on the implementation',
    text='Theorems in Props/C03.v: no reader program can distinguish a chunked source (the _cur_chunk/_char_index/iterator state '
         'of the real class, _next_char and the one-character push-back modelled literally) from the flat text, so token '
         'traces (kind, value, line_num, _last_was_cr, error site and line) are identical for every chunking, every option '
         'vector and any number of calls; with fuel above the text length no call runs out of fuel, a call returns EOF only '
         'with the input exhausted and then for ever, each call does at most 2*remaining+1 reads and n calls at most '
         '2*|text|+n; the only failure values are the 14 error sites, all raised through self.error (TokenSyntaxError). '
         'BaseTokenizer layer (generic over the source, LIFO condition read from the source): every sequence of __call__/peek/'
         'push_back equals the same sequence on the logical stream "pushed-back tokens, last first, then the _get_token stream"; '
         'calls deliver the underlying stream unchanged; re-delivery does not touch line_num; through call/peek/push_back/expect the '
         'flat text and every chunking give the same results and final state; IterTokenizer delivers its items then EOF for ever. '
         'Keyvalues.parse (exception level, all four parse options, any flag mapping): if every indexing site is guarded as the '
         'census of the source says (five named obligations + "no unguarded indexing/conversion/unknown call on the parse path" + '
         '"every error message formats with the arguments passed"), then for every token stream and every text nothing but '
         'KeyValError leaves the parser; each foreign exit needs its own guard to be missing. '
         'Error texts (round 3): format_exc_fileinfo (= TokenSyntaxError.__str__) and the messages BaseTokenizer.error builds per token are '
         'read from the source by path enumeration; under named conditions on the generated pieces formatting never fails, the text '
         'starts with the message and shows the line number and the file name, every Token member has a message, and the text of the '
         'error a run ends with is the same for every chunking. Keyvalues.parse installs KeyValError on the tokenizer on every path '
         '(census obligation; the parser model calls every tokenizer error a KeyValError). '
         'The premise of the chunk-independence theorem is itself read from the source: outside __init__ and _next_char no method of '
         'Tokenizer touches _cur_chunk/_char_index/_chunk_iter except by `self._char_index -= 1`, never twice without a read (census '
         'obligations tokenizer_sees_chunks_only_through_next_char / tokenizer_pushes_back_only_after_a_read). '
         'Round 4: the tokenizer AS WRITTEN. _get_token and _handle_comment are cut into eight segments (outer loop, the four inner loops, '
         'the entry of _handle_comment and its two loops), each executed on abstract values into a decision tree over the class of the '
         'character(s) read, membership in _OPERATORS / BARE_DISALLOWED, _last_was_cr, line_num == 1 and the options; a tree has a meaning as a '
         'reader program (Text/GtTable.v gt_interp), and if the eight trees compute the model\'s functions on every consistent abstract '
         'environment (eight obligations, complete enumeration in the kernel) the interpretation IS the hand model get_token on every input, '
         'flat and chunked, call after call (c03_get_token_trees_are_the_model*, c03_tokenizer_as_written_any_chunking/_total, with '
         '_handle_string from its own table). _next_char is read as a table over what the chunk iterator can do next (yield bytes / another '
         'non-str object / empty / non-empty str, be exhausted, raise UnicodeDecodeError / another exception); under '
         'next_char_rows_are_the_model it IS the reader cnext on str chunks (c03_next_char_is_cnext), and the first non-text item is '
         'answered precisely: ValueError for bytes / non-str objects (not a text: outside the property, nothing silently dropped), the '
         'tokenizer\'s own error for UnicodeDecodeError (covered by "TokenSyntaxError and nothing else"), any other exception propagates '
         '(c03_next_char_first_non_text). A state census (no data attribute bound in the class body, no self attribute / module name '
         'outside the modelled state read or written by the three functions, constant tables never mutated) backs "nothing outlives a call". '
         'Correspondences on every run: tokenizer model vs real Tokenizer on every string over a 23-symbol alphabet up to length 3 x '
         'all 128 option vectors in both tiers (implementation runs shared between option vectors that agree on every option a run '
         'read; thorough also length 4 x 16), random texts, reader state after '
         'every call; BaseTokenizer model vs the real class on every sequence of up to 4 (5) of 12 public operations on 5 sources '
         '(result, _pushback list, line_num after each); parser model vs Keyvalues.parse outcome class on every token list over 9 '
         'tokens up to length 4 (5) x 16 option vectors (+ one length deeper for 1 (2) vectors) through IterTokenizer, every text over '
         '13 symbols up to length 3 (4), error texts of every Token member x value x file name x line; '
         'structured random token streams and texts. The implementation alone is checked for chunked == unchunked on all cut sets, '
         'foreign exceptions, EOF for ever, the read bound, and delivery = plain stream under peeks and push-backs. '
         'Round 5: "any combination of options" includes options set through the public attributes after construction: '
         'correspondence options_by_attribute (constructor form vs every option inverted at construction and set by setattr) and the '
         'obligation tokenizer_options_are_read_from_the_public_attribute_at_call_time (option census of __init__ and the class body); '
         'the state census is read even when the tree executor fails closed (translate:get_token_trees), so its obligations name the '
         'foreign state of exactly the code the executor could not follow.',
    note='Trusted: Coq kernel + vm_compute (incl. primitive Uint63 for checksums), the translators (c02_tables, c03_kvparse, '
         'c03_basetok, c03_errfmt, c02_hstring, c02_gettoken, c03_nextchar: the abstract executors are fail-closed outside their statement '
         'languages; a wrong tree they produced would have to coincide with the model\'s function AND escape the exhaustive differential '
         'runs), the hand models Text/BaseTok.v (helper loops) and Text/KvErrModel.v (tied by the exhaustive differential runs; Text/Tokenizer.v '
         'is now additionally tied by the trees), CPython str/casefold. The parser model abstracts the tree to "child list empty or not" (exact for the '
         'outcome class; the tree itself is C01\'s subject) and consumes the logical token list (push_back = not consumed). '
         'FLAGS_DEFAULT entries that depend on the platform are read from the running interpreter. The literal message texts of the '
         'individual error sites are outside the models (errors are identified by site / message prefix; the text model is generic over '
         'them; the tree translator maps each text to its site, an unknown text is site 99 and fails the tree obligation). A chunk source '
         'yielding non-str objects is not a text (outside the property); what happens there is nevertheless modelled (ValueError) and '
         'checked by the chunk-source oracle. Cython twin not covered.',
)

SYN_ALPHA = ['"', '\\', '/', '*', '{', '}', '[', ']', '(', ')', '#', ':', '+', '=', ',', '\r', '\n', ' ', 'a', 'n', '\ufeff', "'", ';']
ALL_BITS = list(range(128))
NAMES = {'"': 'dquote', '\\': 'backslash', '/': 'slash', '*': 'star', '{': 'lbrace', '}': 'rbrace', '[': 'lbrack', ']': 'rbrack',
         '(': 'lparen', ')': 'rparen', '#': 'hash', ':': 'colon', '+': 'plus', '=': 'equals', ',': 'comma', '\r': 'CR', '\n': 'LF',
         ' ': 'space', '\ufeff': 'BOM', "'": 'apostrophe', ';': 'semicolon', '\t': 'TAB'}


def cname(c: str) -> str:
    return NAMES.get(c, 'char' if c.isascii() and c.isprintable() else f'U+{ord(c):04X}')


def chunkings(s: str):
    """All ways of cutting s into non-empty consecutive chunks."""
    n = len(s)
    if n == 0:
        yield []
        return
    for mask in range(1 << (n - 1)):
        out, cur = [], s[0]
        for i in range(1, n):
            if mask >> (i - 1) & 1:
                out.append(cur)
                cur = s[i]
            else:
                cur += s[i]
        out.append(cur)
        yield out


def with_empties(cs: list[str]) -> list[str]:
    out = ['']
    for c in cs:
        out += [c, '', '']
    return out


# ------------------------------------------------------------------------------------------------ correspondence
def _impl_shard(job) -> tuple[int, int, dict, int, list]:
    """One group of option vectors: checksum of the unchunked traces (for the correspondence) and, with the same
    reference traces, the chunking oracle (all cut sets up to `full_cuts` characters, beyond that the finest cut
    with empty chunks, the line split and one pseudo-random cut set)."""
    bitsl, n, full_cuts = job
    tot = 0
    cnt = 0
    ocnt = 0
    hist: dict[str, int] = {}
    bad: list = []
    for s in U.strings_upto(SYN_ALPHA, n):
        cuts = list(chunkings(s))
        if len(s) <= full_cuts:
            alts = cuts[1:] + ([with_empties(cuts[-1])] if s else [['', '']])
        else:
            alts = [with_empties(cuts[-1]), cuts[1 + (hash_small(s) % (len(cuts) - 1))]]
        lines = s.splitlines(keepends=True)
        if lines and lines not in alts and lines != [s]:
            alts.append(lines)
        nc = len(s) + 2
        head = [len(s), *map(ord, s)]
        for bits in bitsl:
            ref = U.impl_results(s, bits, nc)
            tot = (tot + U.hash_list([bits, *head, *ref])) & U.M63
            cnt += 1
            k = _outcome(ref)
            hist[k] = hist.get(k, 0) + 1
            if k == 'foreign':
                bad.append(('foreign-exception', s, bits, None))
            elif k == 'eof' and (ref[-5:] != [1, 0, ref[-3], ref[-2], 0] or ref[-10:-5] != ref[-5:]):
                bad.append(('EOF-not-for-ever', s, bits, None))
            if len(bad) < 50 and (len(s) <= full_cuts or bits in _REP_SET):
                for cs in alts:
                    ocnt += 1
                    if U.impl_results(iter(cs), bits, nc) != ref:
                        bad.append(('chunk-dependence', s, bits, cs))
    return tot, cnt, hist, ocnt, bad


# ---- sharing the implementation runs across option vectors that cannot differ on a given text
_TRACKED: list = []


def _tracked_cls():
    """Subclass of the real Tokenizer whose seven option attributes are properties recording every READ (bit i of
    `_opt_reads` = OPTION_NAMES[i]); __init__'s writes go to private slots.  Two option vectors that agree on every option
    read during a run follow the same execution path (the code is deterministic and reaches the options only through
    these attributes), so the run of one IS the run of the other."""
    if not _TRACKED:
        from srctools.tokenizer import Tokenizer

        class TrackedTokenizer(Tokenizer):
            _opt_reads = 0

        def mk(i: int, nme: str) -> property:
            slot = '_opt_' + nme

            def get(self):
                self._opt_reads |= 1 << i
                return self.__dict__[slot]

            def put(self, v) -> None:
                self.__dict__[slot] = v
            return property(get, put)
        for i, nme in enumerate(U.OPTION_NAMES):
            setattr(TrackedTokenizer, nme, mk(i, nme))
        _TRACKED.append(TrackedTokenizer)
    return _TRACKED[0]


@U.bounded((list(U.HANG), 127))
def impl_results_tracked(data: Any, bits: int, ncalls: int) -> tuple[list[int], int]:
    """U.impl_results on the tracked subclass: (encoded trace, bit mask of the options read, construction included)."""
    from srctools.tokenizer import TokenSyntaxError
    tk = _tracked_cls()(data, None, **U.opts_of_bits(bits))
    out: list[int] = []
    for _ in range(ncalls):
        try:
            t, v = tk()
        except TokenSyntaxError as e:
            i, args = U.err_code(e.mess)
            ln = e.line_num if isinstance(e.line_num, int) else 0
            out += [2, i, ln, len(args), *args]
            if type(e) is not TokenSyntaxError or ln != tk.line_num:
                out += [4, 1]
            break
        except BaseException as e:  # noqa: BLE001 - the property says nothing else may escape
            out += [4, 0, *map(ord, type(e).__name__)]
            break
        out += [1, t.value, tk.line_num, int(tk._last_was_cr), len(v), *map(ord, v)]
    return out, tk._opt_reads


NGROUPS = 16          # option vectors 8g .. 8g+7 form group g (one Coq checksum per group)


def _impl_shard_shared(job) -> tuple[list[int], int, dict, int, list, int, int, dict]:
    """All 128 option vectors for the texts `pre + w`, |w| <= k, (pre, k) in the job: a vector is EXECUTED only if no executed vector agrees
    with it on every option that run read; otherwise its trace is that run's trace.  Per text one derived vector
    (pseudo-random) is executed anyway and compared (spot check of the independence argument).  The chunking oracle runs for
    every executed vector (all cut sets up to `full_cuts` characters, beyond that the finest cut with empty chunks, the line
    split and one pseudo-random cut set); a chunked run that reads an option the flat run did not read makes the oracle
    run for every vector of that class.  Returns per-group checksums."""
    pres, full_cuts = job
    tots = [0] * NGROUPS
    cnt = ocnt = real = spot_bad = 0
    hist: dict[str, int] = {}
    classes: dict[int, int] = {}
    bad: list = []
    for s in (pre + w for pre, k in pres for w in U.strings_upto(SYN_ALPHA, k)):
        cuts = list(chunkings(s))
        if len(s) <= full_cuts:
            alts = cuts[1:] + ([with_empties(cuts[-1])] if s else [['', '']])
        else:
            alts = [with_empties(cuts[-1]), cuts[1 + (hash_small(s) % (len(cuts) - 1))]]
        lines = s.splitlines(keepends=True)
        if lines and lines not in alts and lines != [s]:
            alts.append(lines)
        nc = len(s) + 2
        head = [len(s), *map(ord, s)]
        entries: list[list] = []            # [mask, vals, ref, outcome, oracle_for_all]
        spot = 1 + hash_small(s) % 127

        def oracle(bits: int, mask: int, ref: list[int]) -> int:
            nonlocal ocnt
            extra = 0
            for cs in alts:
                ocnt += 1
                got, rd = impl_results_tracked(iter(cs), bits, nc)
                extra |= rd & ~mask
                if got != ref and len(bad) < 50:
                    bad.append(('chunk-dependence', s, bits, cs))
            return extra
        for bits in range(128):
            ent = None
            for e in entries:
                if bits & e[0] == e[1]:
                    ent = e
                    break
            if ent is None:
                ref, mask = impl_results_tracked(s, bits, nc)
                real += 1
                k = _outcome(ref)
                ent = [mask, bits & mask, ref, k, False]
                entries.append(ent)
                if k == 'foreign':
                    bad.append(('foreign-exception', s, bits, None))
                elif k == 'eof' and (ref[-5:] != [1, 0, ref[-3], ref[-2], 0] or ref[-10:-5] != ref[-5:]):
                    bad.append(('EOF-not-for-ever', s, bits, None))
                if len(bad) < 50 and oracle(bits, mask, ref):
                    ent[4] = True
            else:
                if bits == spot:
                    real += 1
                    if U.impl_results(s, bits, nc) != ent[2]:
                        spot_bad += 1
                if ent[4] and len(bad) < 50:
                    oracle(bits, 127, ent[2])
            ref = ent[2]
            tots[bits >> 3] = (tots[bits >> 3] + U.hash_list([bits, *head, *ref])) & U.M63
            cnt += 1
            hist[ent[3]] = hist.get(ent[3], 0) + 1
        classes[len(entries)] = classes.get(len(entries), 0) + 1
    return tots, cnt, hist, ocnt, bad, real, spot_bad, classes


def hash_small(s: str) -> int:
    h = 7
    for c in s:
        h = (h * 31 + ord(c)) % 1000003
    return h


def _outcome(res: list[int]) -> str:
    """Cheap classification of an encoded trace: 'eof' or the final error site."""
    i = 0
    while i < len(res):
        if res[i] == 1:
            i += 5 + res[i + 4]
        elif res[i] == 2:
            return 'error:' + U.ERR_NAMES.get(res[i + 1], str(res[i + 1]))
        else:
            return 'foreign'
    return 'eof'


REPRESENTATIVE_BITS = [0, 127] + [1 << i for i in range(7)] + [127 ^ (1 << i) for i in range(7)]   # every option alone on / alone off
_REP_SET = frozenset(REPRESENTATIVE_BITS)
QUICK_BITS = REPRESENTATIVE_BITS + [3, 5, 6, 9, 10, 12, 17, 20, 24, 33, 40, 48, 65, 68, 80, 96]    # + 16 pairs of options


def shared_jobs(n: int, full_cuts: int, per_job: int = 1) -> list:
    """Partition of all texts up to length n (n >= 2) into jobs for _impl_shard_shared: the texts shorter than 2, and one
    (prefix, n - 2) pair per two-symbol prefix, `per_job` prefixes to a job."""
    pairs = [(a + b, n - 2) for a in SYN_ALPHA for b in SYN_ALPHA]
    return [([('', 1)], full_cuts)] + [(pairs[i:i + per_job], full_cuts) for i in range(0, len(pairs), per_job)]


def run_shared(ck: Ck, n: int, full_cuts: int) -> tuple[list[int], int, dict, list, int, int, dict] | None:
    """Implementation side of one exhaustive scope with the runs shared across option vectors (None: the spot check failed,
    the independence argument does not hold for this source and the caller must execute every vector)."""
    parts = U.pool_map(_impl_shard_shared, shared_jobs(n, full_cuts, 23 if n <= 3 else 8), workers=14)
    if any(p[6] for p in parts):
        ck.notes.append('option-read tracking: a vector derived from a run that read none of the options it differs in gave a different '
                        'trace when executed (options are reached other than through the seven attributes?): every vector is executed instead')
        return None
    tots = [0] * NGROUPS
    hist: dict[str, int] = {}
    classes: dict[int, int] = {}
    for p in parts:
        for g in range(NGROUPS):
            tots[g] = (tots[g] + p[0][g]) & U.M63
        for k, v in p[2].items():
            hist[k] = hist.get(k, 0) + v
        for k, v in p[7].items():
            classes[k] = classes.get(k, 0) + v
    return tots, sum(p[1] for p in parts), hist, [(p[3], p[4]) for p in parts], sum(p[5] for p in parts), sum(p[3] for p in parts), classes


GROUPS8 = [ALL_BITS[i:i + 8] for i in range(0, 128, 8)]
LEN4_GROUPS = [0, 15]          # vectors 0..7 and 120..127


def start_exhaustive_model(ck: Ck):
    """Start the model side of the length-3 scope (16 coqc processes, one per group of 8 option vectors) in the background, so
    that it overlaps with the sequential Print Assumptions / instance obligation runs.  Returns (executor, future)."""
    alpha = [ord(c) for c in SYN_ALPHA]
    jobs = [[f'tok_shard_hash {U.coq_chars(g)} [] {U.coq_chars(alpha)} 3'] for g in GROUPS8]
    ex = ThreadPoolExecutor(1)
    return ex, ex.submit(U.coq_eval_many, ck, jobs, 'c03exh3', timeout=840, workers=8)


def corr_exhaustive(ck: Ck, escalate: bool, started=None) -> None:
    """Every string over the syntax alphabet up to length 3 x ALL 128 option vectors in both tiers (thorough also length 4 x 16).
    The model side evaluates every (text, vector) pair inside Coq.  The implementation side executes, per text, only vectors
    that differ from every executed one in an option that run actually read (recorded by properties on a subclass) and
    copies the trace for the others - quick tier and the length-4 scope; the thorough tier executes all 128 vectors up to
    length 3, which also validates the sharing."""
    alpha = [ord(c) for c in SYN_ALPHA]
    full_cuts = 3 if (ck.thorough or escalate) else 2
    bad: list = []
    ncases = nreal = 0
    oracle_parts: list = []
    scopes = [(3, not ck.thorough)] + ([(4, True)] if ck.thorough else [])
    for n, share in scopes:
        # length 3: all 16 groups of 8 vectors.  length 4 (thorough): the model side is evaluated for two groups = 16 vectors (every
        # option on and off, the three string options in all combinations), 24 prefix shards per group so that it spreads over the cores.
        groups = list(range(NGROUPS)) if n == 3 else LEN4_GROUPS
        shards = [([], n)] if n == 3 else [([], 0)] + [([a], n - 1) for a in alpha]
        jobs = [[f'tok_shard_hash {U.coq_chars(GROUPS8[g])} {U.coq_chars(pre)} {U.coq_chars(alpha)} {k}'] for g in groups for pre, k in shards]
        with (started[0] if (n == 3 and started) else ThreadPoolExecutor(1)) as ex:   # the model side (coqc processes) runs while the implementation side is computed
            fut = started[1] if (n == 3 and started) else ex.submit(U.coq_eval_many, ck, jobs, f'c03exh{n}', timeout=840, workers=14)
            sh = run_shared(ck, n, full_cuts if n == 3 else 2) if share else None
            if sh is not None:
                tots, cnt, hist, oparts, real, _oc, classes = sh
                for k, v in classes.items():
                    ck.hist(f'corr_exhaustive_len{n}_executed_vectors_per_text', k, v)
            else:
                totals = U.pool_map(_impl_shard, [(GROUPS8[g], n, full_cuts if n == 3 else 2) for g in groups], workers=14)
                tots = [0] * NGROUPS
                for g, t_ in zip(groups, totals):
                    tots[g] = t_[0]
                cnt = real = sum(t[1] for t in totals)
                hist = {}
                for t_ in totals:
                    for k, v in t_[2].items():
                        hist[k] = hist.get(k, 0) + v
                oparts = [(t_[3], t_[4]) for t_ in totals]
            res = fut.result()
        if sh is not None and n != 3:
            cnt = cnt * len(groups) // NGROUPS          # cases compared with the model (the shared runs cover all 128 vectors)
        if n == 3:
            oracle_parts = oparts
        else:
            oracle_parts = oracle_parts + oparts
        ck.count('corr_exhaustive_cases', cnt)
        ck.count('corr_exhaustive_cases_executed_on_the_implementation', real)
        ncases += cnt
        nreal += real
        for k, v in hist.items():
            ck.hist('corr_exhaustive_outcome', k, v)
        for j, g in enumerate(groups):
            rs = res[j * len(shards):(j + 1) * len(shards)]
            if any(r is None for r in rs) or sum(U.parse_int63(r[0]) for r in rs) & U.M63 != tots[g]:
                bad.append(GROUPS8[g])
    ck.extra['_oracle_from_corr'] = oracle_parts
    ck.extra['_oracle_scope'] = (3, full_cuts)
    detail = ''
    if bad:
        detail = _locate(ck, bad[0], alpha)
        ck.tie_broken.append('correspondence Tokenizer vs Text/Tokenizer.v (exhaustive small scope)')
    scope = f'all strings over the {len(SYN_ALPHA)}-symbol syntax alphabet up to length 3 x all 128 option vectors' + \
            (' and up to length 4 x 16 vectors (0..7, 120..127)' if ck.thorough else '')
    ck.obligation('correspondence:tokenizer_exhaustive', not bad,
                  f'real Tokenizer vs model: {scope} ({ncases} cases, every one evaluated by the model; {nreal} executed on the implementation, '
                  f'the others are vectors that agree with an executed vector on every option that run read - reads recorded by properties, one '
                  f'such vector per text re-executed as a spot check; token kind, value, line_num, _last_was_cr, error site/argument/line; '
                  f'len+2 calls): ' + ('agree' if not bad else f'{len(bad)} option groups disagree; {detail}'))


def _locate(ck: Ck, bitsl: list[int], alpha: list[int]) -> str:
    from harness.common import parse_coq_nested
    for bits in bitsl:
        vals = ck.coq_eval(U.IMPORTS, [f'tok_shard_results [{bits}] [] {U.coq_chars(alpha)} 2'], name='locate', preamble=U.PRE)
        if vals is None:
            return 'could not evaluate the shard literally'
        model = parse_coq_nested(vals[0])
        for s, mres in zip(U.strings_upto(SYN_ALPHA, 2), model):
            enc = U.tok_case(bits, s)
            if list(mres) != enc:
                d = {'text': s, 'option_bits': bits, 'options': U.opts_of_bits(bits),
                     'impl': U.decode_results(enc[2 + len(s):]), 'model': U.decode_results(list(mres)[2 + len(s):])}
                ck.extra['tokenizer_disagreement'] = d
                return f'first: text={s!r} bits={bits} impl={d["impl"]} model={d["model"]}'
    return 'disagreement only at length >= 3'


def gen_text(rng: random.Random) -> str:
    L = rng.choice([4, 6, 10, 20, 60])
    mode = rng.random()
    out = []
    for _ in range(L):
        r = rng.random()
        if r < 0.75:
            out.append(rng.choice(SYN_ALPHA))
        elif r < 0.85:
            out.append(rng.choice(['\t', 'A', 'Z', 'ß', 'İ', 'x', '0', '?', '\v']))
        elif r < 0.95:
            out.append(rng.choice(['"a"', '//', '/*', '*/', '\r\n', '\\n', '\\"', '#inc', '[f]', '(p)']))
        else:
            out.append(chr(rng.choice([rng.randint(0, 0x7F), rng.randint(0x80, 0x2FFF), rng.randint(0xD800, 0xDFFF), rng.randint(0x10000, 0x10FFFF)])))
    return ''.join(out)


def random_chunks(rng: random.Random, s: str) -> list[str]:
    cs, i = [], 0
    while i < len(s):
        if rng.random() < 0.15:
            cs.append('')
        k = rng.choice([1, 1, 2, 3, 7])
        cs.append(s[i:i + k])
        i += k
    if rng.random() < 0.3:
        cs.append('')
    return cs


def corr_random(ck: Ck, escalate: bool) -> None:
    """Random longer texts: flat model vs implementation, and chunked model (reader state!) vs implementation."""
    m = 4000 if (ck.thorough or escalate or ck.tie_broken) else 1000
    rng = ck.rng
    flat, chk = [], []
    corpus = [(t, b) for t in json.loads((VERIF / 'corpus' / 'C03' / 'texts.json').read_text()) for b in (6, 0, 127, 0b0011110)]
    for i in range(m):
        if i < len(corpus):
            s, bits = corpus[i]
        else:
            s = gen_text(rng)
            bits = rng.choice(ALL_BITS)
        flat.append((bits, s, U.hash_list(U.tok_case(bits, s))))
        ck.count('corr_random_flat')
        ck.hist('corr_random_len', len(s) // 10 * 10)
        if i % 2 == 0:
            s2 = s[:24]
            whole = rng.random() < 0.2
            cs = [s2] if whole else random_chunks(rng, s2)
            chk.append((bits, whole, cs, U.hash_list(_impl_chk_trace(bits, whole, cs))))
            ck.count('corr_random_chunk_state')
            ck.seen(('cs', bits, whole, tuple(cs)))
        ck.seen(('rf', bits, s))
    jobs = []
    for lo in range(0, len(flat), 500):
        lit = coq_list(f'({b}, {coq_str(s)})' for b, s, _ in flat[lo:lo + 500])
        jobs.append([f'map flat_case_hash {lit}'])
    nflat = len(jobs)
    for lo in range(0, len(chk), 250):
        lit = coq_list(f'({b}, {"true" if w else "false"}, {coq_list(coq_str(c) for c in cs)})' for b, w, cs, _ in chk[lo:lo + 250])
        jobs.append([f'map chk_case_hash {lit}'])
    res = U.coq_eval_many(ck, jobs, 'c03rand')
    bad_flat, bad_chk = [], []
    ok_eval = all(r is not None for r in res)
    if ok_eval:
        hs = [U.parse_int63(x) for r in res[:nflat] for x in _split_ints(r[0])]
        bad_flat = [i for i, (c, h) in enumerate(zip(flat, hs)) if c[2] != h] if len(hs) == len(flat) else list(range(len(flat)))
        hs = [U.parse_int63(x) for r in res[nflat:] for x in _split_ints(r[0])]
        bad_chk = [i for i, (c, h) in enumerate(zip(chk, hs)) if c[3] != h] if len(hs) == len(chk) else list(range(len(chk)))
    ok = ok_eval and not bad_flat
    ck.obligation('correspondence:tokenizer_random', ok,
                  f'{len(flat)} random texts (length 4..60+, syntax alphabet, digraphs, Unicode) under random option vectors, model vs real Tokenizer: '
                  + ('agree' if ok else ('model evaluation failed' if not ok_eval else f'{len(bad_flat)} disagree; first: bits={flat[bad_flat[0]][0]} text={flat[bad_flat[0]][1]!r}')))
    if not ok:
        ck.tie_broken.append('correspondence Tokenizer vs Text/Tokenizer.v (random texts)')
        if bad_flat:
            ck.extra['random_disagreement'] = {'bits': flat[bad_flat[0]][0], 'text': flat[bad_flat[0]][1]}
    ok2 = ok_eval and not bad_chk
    ck.obligation('correspondence:reader_state', ok2,
                  f'{len(chk)} random chunkings (empty chunks included; str vs iterable): model run_chk vs real Tokenizer, results plus '
                  f'_char_index and len(_cur_chunk) after every call: '
                  + ('agree' if ok2 else ('model evaluation failed' if not ok_eval else f'{len(bad_chk)} disagree; first: {chk[bad_chk[0]][:3]!r}')))
    if not ok2:
        ck.tie_broken.append('correspondence Tokenizer._next_char vs Text/Prog.v cnext/cunread')
        if bad_chk:
            ck.extra['reader_state_disagreement'] = {'bits': chk[bad_chk[0]][0], 'whole_str': chk[bad_chk[0]][1], 'chunks': chk[bad_chk[0]][2]}
    ck.sample({'reader_state_case': {'bits': chk[0][0], 'passed_as_str': chk[0][1], 'chunks': chk[0][2],
                                     'impl_trace(enc results, _char_index+1, len(_cur_chunk))': _impl_chk_trace(*chk[0][:3])[:40]}})


def _split_ints(v: str) -> list[str]:
    v = v.strip()
    v = v[1:v.rindex(']')]
    return [x.strip() for x in v.split(';') if x.strip()]


@U.bounded(list(U.HANG))
def _impl_chk_trace(bits: int, whole: bool, cs: list[str]) -> list[int]:
    from srctools.tokenizer import Tokenizer, TokenSyntaxError
    s = ''.join(cs)
    tk = Tokenizer(s if whole else iter(list(cs)), None, **U.opts_of_bits(bits))
    out: list[int] = []
    for _ in range(len(s) + 2):
        try:
            t, v = tk()
        except TokenSyntaxError as e:
            i, args = U.err_code(e.mess)
            out += [2, i, e.line_num if type(e.line_num) is int else 0, len(args), *args, tk._char_index + 1, len(tk._cur_chunk)]
            break
        except Exception as e:  # noqa: BLE001 - never matches the model
            out += [4, 0, *map(ord, type(e).__name__)]
            break
        out += [1, t.value, tk.line_num, int(tk._last_was_cr), len(v), *map(ord, v), tk._char_index + 1, len(tk._cur_chunk)]
    return out



# ------------------------------------------------------------------------------------------------ Keyvalues.parse: error typing
KV_IMPORTS = U.IMPORTS + ['SV.Text.KvErrModel', 'SV.Text.KvErrGen']
# token alphabet for Keyvalues.parse(IterTokenizer(...)): (Token value, string)
KV_TOK_ALPHA = [(1, 'a'), (1, 'b\n'), (11, 'x'), (11, '!x'), (11, ''), (2, '\n'), (6, '{'), (7, '}'), (15, '=')]
KV_TOK_NAMES = ['STR', 'STRNL', 'FLAGOFF', 'FLAGON', 'FLAGEMPTY', 'NL', 'OPEN', 'CLOSE', 'EQUALS']
KV_FLAGSETS = [{}, {'x': True, 'win32': False}]
KV_TEXT_ALPHA = ['"', '\\', '/', '{', '}', '[', ']', '\r', '\n', ' ', 'a', '#', '!']
KV_TEXT_MODES = [(2, True, 0), (7, True, 0), (0, False, 0), (10, True, 1)]     # (option bits, allow_escapes, flag set)
_KV_PREFIX = [(109, 'Block opening ("{") required, but hit EOF!'), (101, 'Keyvalues cannot have sub-section'),
              (102, 'Block opening ("{") required!'), (102, 'Block opening ("{{") required!'), (103, 'Illegal newline found in key'), (104, 'Illegal newline found in value'),
              (105, 'Cannot have multiple names'), (106, 'Too many closing brackets.'), (108, 'Expected '),
              (110, 'End of text reached'), (107, 'Unexpected '), (107, 'File ended unexpectedly!')]
_FOREIGN = {'IndexError': 301, 'KeyError': 302, 'ValueError': 303, 'TypeError': 304, 'AssertionError': 305, 'AttributeError': 306}
KV_CODE_NAMES = {0: 'ok', 101: 'subsection-after-value', 102: 'block-required', 103: 'newline-in-key', 104: 'newline-in-value',
                 105: 'multiple-names', 106: 'too-many-close', 107: 'unexpected-token', 108: 'expected-newline',
                 109: 'eof-block-required', 110: 'eof-open-blocks', 301: 'FOREIGN IndexError'}


def kv_kw(bits: int) -> dict:
    return dict(newline_keys=bool(bits & 1), newline_values=bool(bits & 2), single_line=bool(bits & 4), single_block=bool(bits & 8))


@U.bounded((398, 'hang: no result within the time limit'))
def kv_code(arg: Any, bits: int, ae: bool, flags: dict) -> tuple[int, str]:
    """Outcome class of Keyvalues.parse as KvErrGen.outcome_code encodes it (+ a description)."""
    from srctools.keyvalues import KeyValError, Keyvalues
    from srctools.tokenizer import TokenSyntaxError
    try:
        Keyvalues.parse(arg, flags=flags, allow_escapes=ae, **kv_kw(bits))
        return 0, 'ok'
    except KeyValError as e:
        i, _ = U.err_code(e.mess)
        if i != 99:
            return 150 + i, e.mess
        for c, pre in _KV_PREFIX:
            if e.mess.startswith(pre):
                return c, e.mess
        return 198, e.mess
    except TokenSyntaxError as e:
        return 400, f'TokenSyntaxError that is not a KeyValError: {e.mess}'
    except BaseException as e:  # noqa: BLE001 - the property says nothing else may escape
        return _FOREIGN.get(type(e).__name__, 399), f'{type(e).__name__}: {e}'


def dfs_upto(alpha: list, n: int):
    """All sequences over alpha up to length n in the order of TokEnum.strings_upto (prefix order)."""
    yield ()
    if n > 0:
        for c in alpha:
            for w in dfs_upto(alpha, n - 1):
                yield (c,) + w


def kv_name(c: int) -> str:
    return KV_CODE_NAMES.get(c, f'lexer:{U.ERR_NAMES.get(c - 150, c)}' if 150 <= c < 300 else str(c))


def kv_tokens_arg(ixs):
    from srctools.tokenizer import IterTokenizer, Token
    return IterTokenizer([(Token(KV_TOK_ALPHA[i][0]), KV_TOK_ALPHA[i][1]) for i in ixs])


def _kv_tok_shard(job) -> list[int]:
    bits, fs, n = job
    return [kv_code(kv_tokens_arg(ix), bits, True, KV_FLAGSETS[fs])[0] for ix in dfs_upto(list(range(len(KV_TOK_ALPHA))), n)]


def _kv_text_shard(job) -> list[int]:
    bits, ae, fs, n = job
    return [kv_code(''.join(t), bits, ae, KV_FLAGSETS[fs])[0] for t in dfs_upto(KV_TEXT_ALPHA, n)]


def coq_flags(fs: dict) -> str:
    return coq_list(f'({coq_str(k)}, {"true" if v else "false"})' for k, v in fs.items())


def gen_kv_text(rng: random.Random) -> str:
    """Mostly well-formed KeyValues text with [flags], nested blocks, and a few stray tokens."""
    nl = rng.choice(['\n', '\n', '\r\n', '\r'])
    flagsrc = ['[x]', '[!x]', '[]', '[win32]', '[!win32]', '[$X]', '[!]', '[X360]']
    out: list[str] = []

    def name() -> str:
        return rng.choice(['"a"', '"b"', 'c', '"a"', '"k\\n"', '"multi' + nl + 'line"', '""'])

    def items(depth: int) -> None:
        for _ in range(rng.choice([0, 1, 1, 2, 3])):
            r = rng.random()
            if r < 0.4:
                out.append(name() + ' ' + name() + (' ' + rng.choice(flagsrc) if rng.random() < 0.5 else '') + nl)
            elif r < 0.8 and depth < 3:
                out.append(name() + (' ' + rng.choice(flagsrc) if rng.random() < 0.6 else '') + rng.choice([nl, nl, ' ', '']))
                out.append('{' + rng.choice([nl, '', ' ']))
                items(depth + 1)
                out.append('}' + rng.choice([nl, nl, '', ' ']))
            elif r < 0.9:
                out.append(rng.choice(['}', '{', '[x]' + nl, '"a" "b" "c"' + nl, '"a"', '// c' + nl, '"a" [x] "b"' + nl, '=', '"a" "b" [x] [x]' + nl, '"unterminated']))
            else:
                out.append(nl)
    items(0)
    if rng.random() < 0.2:
        out = out[:max(1, len(out) // 2)]
    return ''.join(out)


def gen_kv_tokens(rng: random.Random) -> list[int]:
    """Structured token-index sequences (lines `STR STR [FLAG] NL`, blocks `STR [FLAG] NL OPEN ... CLOSE`) with noise."""
    S, SNL, FOFF, FON, FEMPTY, NL, OPEN, CLOSE, EQ = range(9)
    out: list[int] = []

    def flag() -> list[int]:
        return [rng.choice([FOFF, FON, FON, FOFF, FEMPTY])] if rng.random() < 0.6 else []

    def items(depth: int) -> None:
        for _ in range(rng.choice([0, 1, 1, 2, 3])):
            r = rng.random()
            if r < 0.4:
                out.extend([S, rng.choice([S, S, SNL]), *flag(), NL])
            elif r < 0.85 and depth < 3:
                out.extend([S, *flag(), NL, OPEN])
                if rng.random() < 0.5:
                    out.append(NL)
                items(depth + 1)
                out.append(CLOSE)
                if rng.random() < 0.7:
                    out.append(NL)
            else:
                out.append(rng.randrange(9))
    items(0)
    return out


def _shrink_list(xs: list, pred) -> list:
    cur = list(xs)
    changed = True
    while changed:
        changed = False
        for i in range(len(cur)):
            cand = cur[:i] + cur[i + 1:]
            if pred(cand):
                cur, changed = cand, True
                break
    return cur


def report_kv_tokens(ck: Ck, ixs: list[int], bits: int, fs: int) -> None:
    c0, _ = kv_code(kv_tokens_arg(ixs), bits, True, KV_FLAGSETS[fs])
    if capped(f'kvtok-foreign:{c0}'):
        return
    small = _shrink_list(ixs, lambda t: kv_code(kv_tokens_arg(t), bits, True, KV_FLAGSETS[fs])[0] == c0)
    for b in (1, 2, 4, 8):         # drop options that are not needed
        if bits & b and kv_code(kv_tokens_arg(small), bits & ~b, True, KV_FLAGSETS[fs])[0] == c0:
            bits &= ~b
    c, what = kv_code(kv_tokens_arg(small), bits, True, KV_FLAGSETS[fs])
    ck.violation('kvparse-foreign-exception:' + what.split(':')[0] + ':tokens:' + '+'.join(KV_TOK_NAMES[i] for i in small[:12]),
                 f'Keyvalues.parse(IterTokenizer({[(KV_TOK_NAMES[i], KV_TOK_ALPHA[i][1]) for i in small]}), flags={KV_FLAGSETS[fs]}, **{kv_kw(bits)}) '
                 f'raised {what} (only KeyValError may escape)',
                 {'kind': 'kvparse-tokens', 'tokens': small, 'bits': bits, 'flagset': fs})


def report_kv_text(ck: Ck, text: str, bits: int, ae: bool, fs: int) -> None:
    c0, _ = kv_code(text, bits, ae, KV_FLAGSETS[fs])
    if capped(f'kvtext-foreign:{c0}'):
        return
    small = shrink(text, lambda t: kv_code(t, bits, ae, KV_FLAGSETS[fs])[0] == c0)
    c, what = kv_code(small, bits, ae, KV_FLAGSETS[fs])
    kw = dict(kv_kw(bits), allow_escapes=ae)
    ck.violation('kvparse-foreign-exception:' + what.split(':')[0] + ':' + '+'.join(cname(ch) for ch in small[:8]),
                 f'Keyvalues.parse({small!r}, flags={KV_FLAGSETS[fs]}, **{kw}) raised {what} (only KeyValError may escape)',
                 {'kind': 'kvparse', 'text': [ord(ch) for ch in small], 'kw': kw, 'flags': KV_FLAGSETS[fs]})


def corr_kvparse(ck: Ck, escalate: bool) -> None:
    """Exception-level model of Keyvalues.parse (Text/KvErrModel.v, configured by the site census) vs the real parser:
    outcome class (ok / which KeyValError / which tokenizer error / foreign exception) on token streams fed through
    IterTokenizer and on texts.  A foreign exception of the implementation is reported as a concrete violation."""
    big = ck.thorough or escalate or bool(ck.tie_broken)
    rng = ck.rng
    # ---- (1) exhaustive token level
    n_all, n_deep = (5, 6) if big else (4, 5)
    deep_bits = [2, 10] if big else [2]        # vectors at the deeper length (CPU budget on the shared machine; round 2 had 4 / 2)
    tjobs = [(b, 0, n_all) for b in range(16)] + [(b, 0, n_deep) for b in deep_bits] + [(2, 1, n_all), (10, 1, n_all)]
    alpha = coq_list(f'({v}, {coq_str(sv)})' for v, sv in KV_TOK_ALPHA)
    cjobs = [[f'hfin (hash_list (kv_tokens_shard [{b}] {coq_flags(KV_FLAGSETS[fs])} {alpha} {n}))'] for b, fs, n in tjobs]
    # ---- (2) exhaustive text level
    n_txt = 4 if big else 3
    xjobs = [(b, ae, fs, n_txt) for b, ae, fs in KV_TEXT_MODES]
    talpha = U.coq_chars(ord(c) for c in KV_TEXT_ALPHA)
    cjobs += [[f'hfin (hash_list (kv_text_shard {b} {"true" if ae else "false"} {coq_flags(KV_FLAGSETS[fs])} {talpha} {n}))'] for b, ae, fs, n in xjobs]
    # ---- (3) structured random token streams and texts, as literals
    m = 6000 if big else 1500
    rt = []
    for _ in range(m):
        ixs = gen_kv_tokens(rng)
        b, fs = rng.choice([2, 2, 10, 6, rng.randrange(16)]), rng.choice([0, 0, 1])
        rt.append((b, fs, ixs, kv_code(kv_tokens_arg(ixs), b, True, KV_FLAGSETS[fs])[0]))
        ck.hist('kvparse_random_tokens_len', min(len(ixs), 30) // 5 * 5)
    rx = []
    for i in range(m):
        t = gen_kv_text(rng) if i % 4 else gen_text(rng)
        b, ae, fs = rng.choice(KV_TEXT_MODES + [(rng.randrange(16), rng.random() < 0.8, rng.choice([0, 1]))])
        rx.append((b, ae, fs, t, kv_code(t, b, ae, KV_FLAGSETS[fs])[0]))
        ck.hist('kvparse_random_text_len', min(len(t), 100) // 20 * 20)
    lit_jobs = []
    for lo in range(0, len(rt), 500):
        lit = coq_list(f'kv_tokens_code {b} {coq_flags(KV_FLAGSETS[fs])} {coq_list(f"({KV_TOK_ALPHA[i][0]}, {coq_str(KV_TOK_ALPHA[i][1])})" for i in ixs)}'
                       for b, fs, ixs, _ in rt[lo:lo + 500])
        lit_jobs.append([lit])
    for lo in range(0, len(rx), 500):
        lit = coq_list(f'kv_text_code {b} {"true" if ae else "false"} {coq_flags(KV_FLAGSETS[fs])} {coq_str(t)}' for b, ae, fs, t, _ in rx[lo:lo + 500])
        lit_jobs.append([lit])
    # in-kernel search for a foreign exit of the model
    wit_job = [f'kv_foreign_witnesses [2;10;6;15] {coq_flags(KV_FLAGSETS[0])} {alpha} 4']
    with ThreadPoolExecutor(1) as ex:
        fut = ex.submit(U.coq_eval_many, ck, cjobs + lit_jobs + [wit_job], 'c03kv', imports=KV_IMPORTS, timeout=600, workers=14)
        impl_tok = U.pool_map(_kv_tok_shard, tjobs, workers=14)
        impl_txt = U.pool_map(_kv_text_shard, xjobs, workers=8)
        res = fut.result()
    bad: list[str] = []
    ok_eval = all(r is not None for r in res)
    ncases = 0

    def ints(v: str) -> list[int]:
        return [int(x) for x in _split_ints(v)] if v.strip() not in ('[]', 'nil') else []
    if ok_eval:
        for job, r, imp in zip(tjobs, res[:len(tjobs)], impl_tok):
            ncases += len(imp)
            for c in imp:
                ck.hist('kvparse_token_outcome', kv_name(c))
            if U.parse_int63(r[0]) != U.hash_list(imp):
                # locate: literal model results at a smaller length
                n2 = min(job[2], 4)
                v = ck.coq_eval(KV_IMPORTS, [f'kv_tokens_shard [{job[0]}] {coq_flags(KV_FLAGSETS[job[1]])} {alpha} {n2}'], name='kvlocate', preamble=U.PRE)
                cases = list(dfs_upto(list(range(len(KV_TOK_ALPHA))), n2))
                mod = ints(v[0]) if v else []
                imp2 = [kv_code(kv_tokens_arg(ix), job[0], True, KV_FLAGSETS[job[1]])[0] for ix in cases]
                j = next((i for i, (a, b) in enumerate(zip(mod, imp2)) if a != b), None)
                bad.append(f'token level bits={job[0]} flagset={job[1]}: ' + (f'tokens {[KV_TOK_NAMES[i] for i in cases[j]]} model={kv_name(mod[j])} impl={kv_name(imp2[j])}'
                                                                         if j is not None else f'checksums differ at length {job[2]} only'))
            for j, c in enumerate(imp):
                if c >= 300:
                    cases = list(dfs_upto(list(range(len(KV_TOK_ALPHA))), job[2]))
                    report_kv_tokens(ck, list(cases[j]), job[0], job[1])
                    break
        ck.count('corr_kvparse_tokens_exhaustive', ncases)
        for job, r, imp in zip(xjobs, res[len(tjobs):len(tjobs) + len(xjobs)], impl_txt):
            ck.count('corr_kvparse_text_exhaustive', len(imp))
            for c in imp:
                ck.hist('kvparse_text_outcome', kv_name(c))
            texts = None
            if U.parse_int63(r[0]) != U.hash_list(imp):
                n2 = min(job[3], 3)
                v = ck.coq_eval(KV_IMPORTS, [f'kv_text_shard {job[0]} {"true" if job[1] else "false"} {coq_flags(KV_FLAGSETS[job[2]])} {talpha} {n2}'],
                                name='kvlocate', preamble=U.PRE)
                texts2 = [''.join(t) for t in dfs_upto(KV_TEXT_ALPHA, n2)]
                mod = ints(v[0]) if v else []
                imp2 = [kv_code(t, job[0], job[1], KV_FLAGSETS[job[2]])[0] for t in texts2]
                j = next((i for i, (a, b) in enumerate(zip(mod, imp2)) if a != b), None)
                bad.append(f'text level bits={job[0]} allow_escapes={job[1]} flagset={job[2]}: ' + (f'text {texts2[j]!r} model={kv_name(mod[j])} impl={kv_name(imp2[j])}'
                                                                                             if j is not None else f'checksums differ at length {job[3]} only'))
            for j, c in enumerate(imp):
                if c >= 300:
                    texts = texts or [''.join(t) for t in dfs_upto(KV_TEXT_ALPHA, job[3])]
                    report_kv_text(ck, texts[j], job[0], job[1], job[2])
                    break
        lits = res[len(tjobs) + len(xjobs):-1]
        mod_rt = [x for r in lits[:(len(rt) + 499) // 500] for x in ints(r[0])]
        mod_rx = [x for r in lits[(len(rt) + 499) // 500:] for x in ints(r[0])]
        ck.count('corr_kvparse_random_tokens', len(rt))
        ck.count('corr_kvparse_random_texts', len(rx))
        for (b, fs, ixs, c), mc in zip(rt, mod_rt):
            if c != mc:
                bad.append(f'random tokens bits={b} flagset={fs} {[KV_TOK_NAMES[i] for i in ixs]}: model={kv_name(mc)} impl={kv_name(c)}')
                break
        for (b, ae, fs, t, c), mc in zip(rx, mod_rx):
            if c != mc:
                bad.append(f'random text bits={b} allow_escapes={ae} flagset={fs} {t!r}: model={kv_name(mc)} impl={kv_name(c)}')
                break
        if len(mod_rt) != len(rt) or len(mod_rx) != len(rx):
            bad.append('literal batches: length mismatch')
    for b, fs, ixs, c in rt:
        if c >= 300:
            report_kv_tokens(ck, ixs, b, fs)
        if len(ixs) >= 3:
            ck.seen(('kvt', b, fs, tuple(ixs)))
    for b, ae, fs, t, c in rx:
        if c >= 300:
            report_kv_text(ck, t, b, ae, fs)
        if len(t) >= 3:
            ck.seen(('kvx', b, ae, fs, t))
    ok = ok_eval and not bad
    ck.obligation('correspondence:kvparse_outcome', ok,
                  f'exception-level model of Keyvalues.parse vs the implementation, outcome class (ok / which KeyValError / which tokenizer '
                  f'error / foreign): every token list over {len(KV_TOK_ALPHA)} tokens up to length {n_all} x 16 option vectors (length {n_deep} x '
                  f'{len(deep_bits)} vectors) through IterTokenizer ({ncases} cases), every text over {len(KV_TEXT_ALPHA)} symbols up to length {n_txt} x '
                  f'{len(KV_TEXT_MODES)} modes, {len(rt)} structured random token streams, {len(rx)} random texts: '
                  + ('agree' if ok else ('model evaluation failed' if not ok_eval else '; '.join(bad[:3]))))
    if not ok:
        ck.tie_broken.append('correspondence Keyvalues.parse vs Text/KvErrModel.v')
        ck.extra['kvparse_disagreements'] = bad[:10]
    # the model's own witnesses
    if ok_eval:
        from harness.common import parse_coq_nested
        wit = parse_coq_nested(res[-1][0]) if res[-1][0].strip() not in ('[]', 'nil') else []
        ck.obligation('instance:kvparse_model_has_no_foreign_exit_small_scope', not wit,
                      'in-kernel enumeration of the parser model (as configured from the source) on every token list up to length 4 x 4 option '
                      'vectors: ' + ('no foreign exit' if not wit else f'{len(wit)} token lists leave with a foreign exception; first: bits={wit[0][0]} '
                                     f'tokens={[KV_TOK_NAMES[i] for i in wit[0][1]]}'))
        for bits, ixs in wit[:3]:
            if kv_code(kv_tokens_arg(list(ixs)), bits, True, {})[0] >= 300:
                report_kv_tokens(ck, list(ixs), bits, 0)
    ck.sample({'kvparse_case': {'tokens': [KV_TOK_NAMES[i] for i in rt[0][2]], 'bits': rt[0][0], 'outcome': kv_name(rt[0][3])}})



# ------------------------------------------------------------------------------------------------ BaseTokenizer layer
BT_IMPORTS = U.IMPORTS + ['SV.Text.BaseTok', 'SV.Text.BaseTokEnum']
# public operations: (name, Coq constructor)
BT_OPS = [('call', 'XCall'), ('peek', 'XPeek'), ('next', 'XNext'), ('push(STRING,"p")', 'XPush 1 (Some [112])'),
          ('push(NEWLINE)', 'XPush 2 None'), ('push(BRACE_OPEN,"zz")', 'XPush 6 (Some [122;122])'), ('push(STRING)', 'XPush 1 None'),
          ('expect(STRING)', 'XExpect 1 true'), ('expect(NEWLINE)', 'XExpect 2 true'), ('expect(BRACE_OPEN,skip_newline=False)', 'XExpect 6 false'),
          ('next(skipping_newlines())', 'XSkipNl'), ('next(block(consume_brace=False))', 'XBlock')]
BT_ITER = [(1, 'a'), (2, '\n'), (2, '\n'), (6, '{'), (1, 'b'), (7, '}'), (11, 'f')]
BT_TEXT = 'a\r\n\n{ "b\nc" } [f] ='
BT_TEXT_ERR = 'a\n{ "b'
BT_BITS = 7            # string_bracket + string_parens + allow_escapes
BT_CHUNKS = ['a\r', '', '\n\n{ "b', '\nc" }', ' [', 'f] =']
BT_SOURCES = ['iter', 'flat', 'chunked', 'flat_err', 'chars_err']


def bt_make(kind: str):
    from srctools.tokenizer import IterTokenizer, Token, Tokenizer
    if kind == 'iter':
        return IterTokenizer([(Token(v), s) for v, s in BT_ITER])
    if kind == 'flat':
        return Tokenizer(BT_TEXT, None, **U.opts_of_bits(BT_BITS))
    if kind == 'chunked':
        return Tokenizer(iter(BT_CHUNKS), None, **U.opts_of_bits(BT_BITS))
    if kind == 'flat_err':
        return Tokenizer(BT_TEXT_ERR, None, **U.opts_of_bits(BT_BITS))
    return Tokenizer(iter(list(BT_TEXT_ERR)), None, **U.opts_of_bits(BT_BITS))


def bt_coq_run(kind: str) -> str:
    if kind == 'iter':
        return 'xrun_iter ' + coq_list(f'({v}, {coq_str(s)})' for v, s in BT_ITER)
    if kind == 'flat':
        return f'xrun_flat {BT_BITS} {coq_str(BT_TEXT)}'
    if kind == 'chunked':
        return f'xrun_chk {BT_BITS} {coq_list(coq_str(c) for c in BT_CHUNKS)}'
    if kind == 'flat_err':
        return f'xrun_flat {BT_BITS} {coq_str(BT_TEXT_ERR)}'
    return f'xrun_chk {BT_BITS} {coq_list(coq_str(c) for c in BT_TEXT_ERR)}'


_UNEXPECTED = {'Unexpected property flags': 11, 'Unexpected parentheses block': 3, 'Unexpected string': 1, 'Unexpected directive': 4,
               'Unexpected comment': 5, 'File ended unexpectedly!': 0, 'Unexpected newline!': 2}


def _got_token(mess: str) -> int:
    """The token an error raised by a helper names."""
    from srctools.tokenizer import _OPERATOR_VALS, Token
    if mess.startswith('Expected '):
        return Token[mess.rsplit('Token.', 1)[1].rstrip('!')].value
    if mess.startswith('Unclosed '):
        return 0
    for pre, v in _UNEXPECTED.items():
        if mess.startswith(pre):
            return v
    if mess.startswith('Unexpected "'):
        ch = mess[len('Unexpected "'):].split('" character!')[0]
        for t, s in _OPERATOR_VALS.items():
            if s == ch:
                return t.value
    return 99


@U.bounded(list(U.HANG))
def bt_run(kind: str, ops: tuple[int, ...]) -> list[int]:
    """Run a sequence of public BaseTokenizer operations on the real class; encode as BaseTokEnum.xrun does."""
    from srctools.tokenizer import Token, TokenSyntaxError
    tk = bt_make(kind)
    out: list[int] = []

    def ptok(tv) -> list[int]:
        return [tv[0].value, len(tv[1]), *map(ord, tv[1])]
    for o in ops:
        go = True
        try:
            if o == 0:
                out += [1, *ptok(tk())]
            elif o == 1:
                out += [1, *ptok(tk.peek())]
            elif o == 2:
                try:
                    out += [1, *ptok(next(tk))]
                except StopIteration:
                    out += [5]
            elif o in (3, 4, 5, 6):
                t, v = [(Token.STRING, 'p'), (Token.NEWLINE, None), (Token.BRACE_OPEN, 'zz'), (Token.STRING, None)][o - 3]
                try:
                    tk.push_back(t, v)
                    out += [3]
                except ValueError:
                    out += [4]
            elif o in (7, 8, 9):
                t, skip = [(Token.STRING, True), (Token.NEWLINE, True), (Token.BRACE_OPEN, False)][o - 7]
                v = tk.expect(t, skip)
                out += [6, len(v), *map(ord, v)]
            elif o == 10:
                try:
                    out += [1, *ptok(next(tk.skipping_newlines()))]
                except StopIteration:
                    out += [5]
            else:
                try:
                    v = next(tk.block('x', consume_brace=False))
                    out += [6, len(v), *map(ord, v)]
                except StopIteration:
                    out += [5]
        except TokenSyntaxError as e:
            i, args = U.err_code(e.mess)
            ln = e.line_num if isinstance(e.line_num, int) else 0
            if i != 99:                      # raised by the underlying tokenizer: the run ends
                out += [2, 2, i, ln, len(args), *args]
                go = False
            else:                            # raised by the helper itself through self.error
                out += [7, _got_token(e.mess), ln]
            if type(e) is not TokenSyntaxError or ln != tk.line_num:
                out += [8]
        except BaseException as e:  # noqa: BLE001
            out += [4, 0, *map(ord, type(e).__name__)]
            go = False
        out += [len(tk._pushback)]
        for tv in tk._pushback:
            out += ptok(tv)
        out += [tk.line_num]
        if not go:
            break
    return out


def _bt_shard(job) -> tuple[int, int, dict]:
    kind, first, n = job
    tot = 0
    cnt = 0
    hist: dict[str, int] = {}
    seqs = [()] if first is None else [(first,) + w for k in range(n) for w in itertools.product(range(len(BT_OPS)), repeat=k)]
    for ops in seqs:
        enc = bt_run(kind, ops)
        tot = (tot + U.hash_list(enc)) & U.M63
        cnt += 1
        k = 'helper-error' if 7 in enc[:1] else 'ok'
        hist[k] = hist.get(k, 0) + 1
    return tot, cnt, hist


def corr_basetok(ck: Ck, escalate: bool) -> None:
    """BaseTokenizer model (Text/BaseTok.v, configured from the source) vs the real class: EVERY sequence of up to n public
    operations on five sources; observables after every operation: result (token, value / error + token named + line),
    the complete _pushback list in list order, line_num."""
    side = ck.extra.get('translated', {}).get('BaseTokSites_gen', {})
    changed = any(side.get('digests', {}).get(k) != v for k, v in c03_basetok.MODEL_DIGESTS.items())
    n = 5 if (ck.thorough or escalate or changed) else 4
    alpha = '[' + '; '.join(c for _, c in BT_OPS) + ']'
    cjobs = [[f'xshard_hash ({bt_coq_run(kind)}) {alpha} {n}'] for kind in BT_SOURCES]
    pjobs = [(kind, None, 0) for kind in BT_SOURCES] + [(kind, f, n) for kind in BT_SOURCES for f in range(len(BT_OPS))]
    with ThreadPoolExecutor(1) as ex:
        fut = ex.submit(U.coq_eval_many, ck, cjobs, 'c03bt', imports=BT_IMPORTS, timeout=600, workers=len(BT_SOURCES))
        parts = U.pool_map(_bt_shard, pjobs, workers=14)
        res = fut.result()
    bad = []
    total = 0
    for kind, r in zip(BT_SOURCES, res):
        tot = sum(t for (k2, _f, _n), (t, _c, _h) in zip(pjobs, parts) if k2 == kind) & U.M63
        cnt = sum(c for (k2, _f, _n), (_t, c, _h) in zip(pjobs, parts) if k2 == kind)
        total += cnt
        ck.hist('basetok_sequences', kind, cnt)
        if r is None or U.parse_int63(r[0]) != tot:
            bad.append(kind)
    ck.count('corr_basetok_sequences', total)
    detail = ''
    if bad:
        detail = _bt_locate(ck, bad[0])
        ck.tie_broken.append('correspondence BaseTokenizer vs Text/BaseTok.v')
    ck.obligation('correspondence:basetokenizer_ops', not bad,
                  f'real BaseTokenizer (IterTokenizer and Tokenizer, flat / chunked / ending in an error) vs model: every sequence of up to {n} of '
                  f'{len(BT_OPS)} public operations (call, peek, next, 4 push_back forms, 3 expect forms, skipping_newlines and block steps) on '
                  f'{len(BT_SOURCES)} sources ({total} sequences; result, _pushback list, line_num after every operation): '
                  + ('agree' if not bad else f'{bad} disagree; {detail}'))
    ck.sample({'basetok_case': {'source': 'flat', 'ops': ['peek', 'call', 'push(NEWLINE)', 'expect(STRING)'],
                                'encoded': bt_run('flat', (1, 0, 4, 7))}})


def _bt_locate(ck: Ck, kind: str) -> str:
    from harness.common import parse_coq_N_list
    for k in range(0, 4):
        seqs = list(itertools.product(range(len(BT_OPS)), repeat=k))
        exprs = [f'{bt_coq_run(kind)} [' + '; '.join(BT_OPS[o][1] for o in ops) + ']' for ops in seqs]
        for lo in range(0, len(exprs), 400):
            vals = ck.coq_eval(BT_IMPORTS, exprs[lo:lo + 400], name='btlocate', preamble=U.PRE)
            if vals is None:
                return 'could not evaluate the model literally'
            for ops, v in zip(seqs[lo:lo + 400], vals):
                m = parse_coq_N_list(v)
                imp = bt_run(kind, ops)
                if m != imp:
                    d = {'source': kind, 'ops': [BT_OPS[o][0] for o in ops], 'impl': imp, 'model': m}
                    ck.extra['basetok_disagreement'] = d
                    return f'first: source={kind} ops={d["ops"]} impl={imp} model={m}'
    return 'disagreement only at length >= 4'

# ------------------------------------------------------------------------------------------------ error texts
EF_IMPORTS = ['Coq.Lists.List', 'Coq.NArith.NArith', 'SV.Text.Str', 'SV.Text.ErrFmt', 'SV.Text.ErrFmtGen']


def _opt(x, f) -> str:
    return 'None' if x is None else f'(Some {f(x)})'


def _enc_opt(fn) -> list[int]:
    """Encoded as ErrFmtGen.enc_opt: [1, chars...] for a text, [0] if anything is raised."""
    try:
        return [1, *map(ord, fn())]
    except Exception:  # noqa: BLE001 - the model's None
        return [0]


def corr_errfmt(ck: Ck) -> None:
    """Model of the error texts (pieces regenerated from the source) vs the implementation: format_exc_fileinfo and
    str(TokenSyntaxError(...)) on every combination of 6 messages x 5 file values x 14 line values; error(Token.X [, value]).mess
    and str(error(...)) for every Token member x 4 values x 3 file names x 4 lines, through Tokenizer and IterTokenizer."""
    from srctools.tokenizer import IterTokenizer, Token, Tokenizer, TokenSyntaxError, format_exc_fileinfo
    rng = ck.rng
    msgs = ['', 'm', 'Unexpected "}" character!', 'two\nlines', 'braces {} {0}', 'unicode \u00e9\U0001F600']
    files = [None, '', 'f.vmf', 'dir/a "b".txt', 'x' * 40]
    lines = [None, 0, 1, 9, 10, 11, 99, 100, 101, 65535, 10 ** 9, 10 ** 18 + 7, 10 ** 30, rng.randrange(10 ** 6)]
    fi = [(m, f, ln) for m in msgs for f in files for ln in lines]
    got_fi = []
    for m, f, ln in fi:
        a = _enc_opt(lambda: format_exc_fileinfo(m, f, ln))
        b = _enc_opt(lambda: str(TokenSyntaxError(m, f, ln)))
        got_fi.append(a if a == b else [9])                   # __str__ must be format_exc_fileinfo of the three fields
        ck.count('corr_errfmt_fileinfo')
        ck.seen(('ef', m, f, ln))
    vals = [None, '', 'v', 'va"l\n{}']
    tm = [(t, v) for t in Token for v in vals]
    got_tm = []
    got_tx = []
    tx = []
    for t, v in tm:
        tk = Tokenizer('', None)
        got_tm.append(_enc_opt(lambda: (tk.error(t) if v is None else tk.error(t, v)).mess))
        ck.count('corr_errfmt_token_messages')
        for fname in (None, 'f.txt', 'q"q'):
            for line in (1, 7, 10, 12345):
                for cls in (Tokenizer, IterTokenizer):
                    tk2 = cls('' if cls is Tokenizer else [], fname)
                    tk2.line_num = line
                    e = _enc_opt(lambda: str(tk2.error(t) if v is None else tk2.error(t, v)))
                    err = tk2.error(t) if (v is None and e != [0]) else None
                    if err is not None and (err.line_num != line or err.file != fname or type(err) is not TokenSyntaxError):
                        e = [9]
                    if cls is Tokenizer:
                        tx.append((t, v, fname, line))
                        got_tx.append(e)
                    elif e != got_tx[-1]:
                        got_tx[-1] = [9]
                    ck.count('corr_errfmt_error_texts')
    # str-form messages: formatted exactly when arguments are given
    tk = Tokenizer('', 'n.kv')
    strform = _enc_opt(lambda: tk.error('a{}b{}', 1, 'x').mess) == [1, *map(ord, 'a1bx')] and _enc_opt(lambda: tk.error('a{}b').mess) == [1, *map(ord, 'a{}b')]
    s = coq_str
    exprs = ['map (fun x => hcase (fileinfo_case x)) ' + coq_list(f'({s(m)}, {_opt(f, s)}, {_opt(ln, str)})' for m, f, ln in fi),
             'map (fun x => hcase (tokmsg_case x)) ' + coq_list(f'({t.value}, {_opt(v, s)})' for t, v in tm),
             'map (fun x => hcase (tokerr_text_case x)) ' + coq_list(f'({t.value}, {_opt(v, s)}, {_opt(f, s)}, {ln})' for t, v, f, ln in tx)]
    res = ck.coq_eval(EF_IMPORTS, exprs, name='errfmt', preamble=U.PRE)
    bad: list[str] = []
    if res is None:
        bad.append('model evaluation failed')
    else:
        groups = (('format_exc_fileinfo / str(TokenSyntaxError)', 'fileinfo_case', fi, got_fi, res[0],
                   lambda c: f'({s(c[0])}, {_opt(c[1], s)}, {_opt(c[2], str)})'),
                  ('error(Token).mess', 'tokmsg_case', tm, got_tm, res[1], lambda c: f'({c[0].value}, {_opt(c[1], s)})'),
                  ('str(error(Token))', 'tokerr_text_case', tx, got_tx, res[2],
                   lambda c: f'({c[0].value}, {_opt(c[1], s)}, {_opt(c[2], s)}, {c[3]})'))
        for what, fn, cases, got, r, lit in groups:
            mod = [U.parse_int63(x) for x in _split_ints(r)]
            if len(mod) != len(got):
                bad.append(f'{what}: {len(mod)} model values for {len(got)} cases')
                continue
            for cse, g, m_ in zip(cases, got, mod):
                if U.hash_list(g) != m_:
                    def show(x):
                        return 'raises' if x == [0] else ('<str differs from format_exc_fileinfo / wrong fields or type>' if x == [9] else repr(''.join(map(chr, x[1:]))))
                    from harness.common import parse_coq_N_list
                    mv = ck.coq_eval(EF_IMPORTS, [f'{fn} {lit(cse)}'], name='errfmt_locate', preamble=U.PRE)
                    bad.append(f'{what}{cse!r}: implementation {show(g)}, model {show(parse_coq_N_list(mv[0])) if mv else "?"}')
                    break
    if not strform:
        bad.append("error('a{}b{}', 1, 'x') / error('a{}b'): str messages are not formatted exactly when arguments are given")
    ok = not bad
    ck.obligation('correspondence:error_texts', ok,
                  f'error-text model (pieces regenerated from tokenizer.py) vs the implementation: format_exc_fileinfo and str(TokenSyntaxError) on '
                  f'{len(fi)} (message, file, line) combinations incl. None / 0 / 10**30; error(Token.X [, value]).mess for all {len(list(Token))} members x '
                  f'{len(vals)} values; str(error(...)), its line_num / file / type through Tokenizer and IterTokenizer on {len(tx)} cases: '
                  + ('agree' if ok else '; '.join(bad[:3])))
    if not ok:
        ck.tie_broken.append('correspondence error texts vs Text/ErrFmt.v')
        ck.extra['errfmt_disagreements'] = bad[:10]
    ck.sample({'error_text_case': {'call': "Tokenizer('', 'f.txt').error(Token.STRING, 'v') at line 7",
                                   'str': str(Tokenizer('', 'f.txt').error(Token.STRING, 'v')).replace('line 1', 'line 7')}})


def premade_oracle(ck: Ck) -> None:
    """Keyvalues.parse on a tokenizer made by the caller (the `isinstance(file_contents, BaseTokenizer)` path): whatever error type
    the tokenizer was built with and whether or not a file name is passed, nothing but KeyValError may leave."""
    from srctools.keyvalues import KeyValError, Keyvalues
    from srctools.tokenizer import IterTokenizer, Token, Tokenizer, TokenSyntaxError

    class CustomSyntaxError(TokenSyntaxError):
        pass
    texts = ['"a', '"a" "b" }', '"a" { "b"', '"a" "b" "c" "d"\n', '"a" "b" [f\n', '"a" "b"\n', '"a"\n{\n"b" "c\\']
    toks = [[(Token.STRING, 'a'), (Token.BRACE_CLOSE, '}')], [(Token.STRING, 'a'), (Token.NEWLINE, '\n'), (Token.BRACE_OPEN, '{')],
            [(Token.STRING, 'a'), (Token.STRING, 'b'), (Token.STRING, 'c')], [(Token.EQUALS, '=')], [(Token.STRING, 'a'), (Token.STRING, 'b')]]
    etypes = [('default', None), ('TokenSyntaxError', TokenSyntaxError), ('subclass', CustomSyntaxError), ('KeyValError', KeyValError)]
    cases = []
    for ename, et in etypes:
        for s in texts:
            cases.append(('Tokenizer', ename, repr(s), lambda s=s, et=et: Tokenizer(s, 'made.kv', string_bracket=True) if et is None else Tokenizer(s, 'made.kv', et, string_bracket=True)))
            cases.append(('Tokenizer-chunks', ename, repr(s), lambda s=s, et=et: Tokenizer(list(s), None, string_bracket=True) if et is None else Tokenizer(list(s), None, et, string_bracket=True)))
        for tl in toks:
            cases.append(('IterTokenizer', ename, '+'.join(t.name for t, _ in tl), lambda tl=tl, et=et: IterTokenizer(tl) if et is None else IterTokenizer(tl, 'made.kv', et)))
    for maker, ename, what, mk in cases:
        for fkw in ({}, {'filename': 'passed.kv'}):
            ck.count('oracle_kvparse_premade_tokenizer')
            try:
                Keyvalues.parse(mk(), **fkw)
            except KeyValError:
                pass
            except BaseException as e:  # noqa: BLE001 - the property says nothing else may escape
                if not capped('premade'):
                    ck.violation(f'kvparse-premade-tokenizer:{maker}:error-type-{ename}:{"filename" if fkw else "no-filename"}:{type(e).__name__}',
                                 f'Keyvalues.parse({maker}({what}, error type {ename}){", filename=..." if fkw else ""}) raised {type(e).__name__}: '
                                 f'{str(e)[:80]!r} (only KeyValError may escape)',
                                 {'kind': 'premade', 'maker': maker, 'etype': ename, 'what': what, 'filename': bool(fkw)})


def errtext_oracle(ck: Ck) -> None:
    """Oracle on the implementation alone (runs even when the error-text translator fails closed): error(Token.X [, value]) builds a
    TokenSyntaxError whose line_num is the tokenizer's, whose text starts with the message and shows that line; formatting never
    fails."""
    from srctools.tokenizer import Token, Tokenizer, TokenSyntaxError
    vals = [None, '', 'v', 'va"l\n{}']
    tm = [(t, v) for t in Token for v in vals]
    for t, v in tm:
        for fname in (None, 'f'):
            tk = Tokenizer('', fname)
            tk.line_num = 3
            try:
                e = tk.error(t) if v is None else tk.error(t, v)
                txt = str(e)
                if not (isinstance(e, TokenSyntaxError) and e.line_num == 3 and txt.startswith(e.mess) and '3' in txt[len(e.mess):]):
                    raise AssertionError('text')
            except Exception as ex:  # noqa: BLE001
                if not capped('errfmt'):
                    ck.violation(f'error-text:{t.name}:{"value" if v is not None else "novalue"}:{type(ex).__name__}',
                                 f'Tokenizer("", {fname!r}).error(Token.{t.name}{"" if v is None else ", " + repr(v)}) and its str(): {type(ex).__name__}: {ex} '
                                 f'(must build a TokenSyntaxError whose text starts with the message and shows line 3)',
                                 {'kind': 'errtext', 'token': t.value, 'value': v, 'file': fname})



# ------------------------------------------------------------------------------------------------ round 6: user text that reaches a message
# Every piece of user text that can end up in (or next to) an error message - key, value, flag, block name, directive,
# parentheses block - is filled with characters that are active in str.format / %-formatting, at every error site of
# Keyvalues.parse and of the tokenizer below it, under every vector of the parse options.  Nothing but KeyValError may leave,
# and the outcome must not depend on the chunking.
FMT_PIECES = ['', '{', '}', '{0}', '{1}', '{name}', '{a.b}', '{0.x}', '{0[k]}', '{}{}', '{!r}', '{:>9}', '{{', '}}', '%s', '%(n)s', '%']
# one template per exit; the slots K key, V value, F flag, B block name, D directive / bare word, P parentheses; `~` a line break inside a string
FMT_TEMPLATES = [
    ('ok-leaf', '"K" "V"\n'), ('ok-leaf-flag', '"K" "V" [F]\n'), ('ok-leaf-notflag', '"K" "V" [!F]\n'),
    ('ok-block', '"B"\n{\n"K" "V"\n}\n'), ('ok-block-flag', '"B" [F]\n{\n"K" "V"\n}\n'), ('ok-block-notflag', '"B" [!F]\n{\n"K" "V"\n}\n'),
    ('ok-replace', '"K" "V"\n"K" "V" [!F]\n'), ('ok-replace-block', '"B"\n{\n}\n"B" [!F]\n{\n}\n'),
    ('subsection', '"B"\n{\n"K" "V"\n{\n}\n}\n'), ('block-required', '"B"\n"K" "V"\n'), ('block-required-flag', '"B" [!F]\n"K" "V"\n'),
    ('newline-in-key', '"K~K" "V"\n'), ('newline-in-key-block', '"B~B"\n{\n}\n'), ('newline-in-key-first', '"~K" "V"\n'),
    ('newline-in-value', '"K" "V~V"\n'), ('newline-in-value-last', '"K" "V~"\n'), ('newline-in-value-block', '"B"\n{\n"K" "~V" [!F]\n}\n'),
    ('newline-in-both', '"K~" "V~"\n'),
    ('multiple-names', '"K" "V" "K" "V"\n'), ('too-many-close', '"K" "V"\n}\n'), ('too-many-close-block', '"B"\n{\n}\n}\n'),
    ('unexpected-equals', '"K" "V"\n=\n'), ('unexpected-flag', '[F]\n'), ('unexpected-flag-after', '"K" "V" [F] [F]\n'),
    ('unexpected-directive', '#D\n'), ('unexpected-directive-in-block', '"B"\n{\n#D "V"\n}\n'), ('unexpected-parens', '(P)\n'),
    ('unexpected-parens-after', '"K" (P)\n'), ('expected-newline', '"K" "V" [F] "K"\n'), ('expected-newline-block', '"B" [F] {\n'),
    ('expected-newline-eof', '"K" "V" [!F]'), ('eof-block', '"B"\n'), ('eof-block-flag', '"B" [!F]\n'),
    ('eof-open', '"B"\n{\n"K" "V"\n'), ('eof-open-nested', '"B"\n{\n"B"\n{\n"K" "V"\n}\n'),
    ('bare-key', 'D "V"\n'), ('bare-both', 'D D\n'),
    ('lex-unterminated-key', '"K'), ('lex-unterminated-value', '"K" "V'), ('lex-unterminated-flag', '"K" "V" [F'),
    ('lex-unterminated-parens', '"K" (P'), ('lex-flag-newline', '"K" "V" [F\n]\n'), ('lex-escape', '"K\\qK" "V"\n'),
    ('lex-escape-value', '"K" "V\\qV"\n'), ('lex-escape-eof', '"K" "V\\'), ('lex-comment', '"K" "V" /D\n'), ('lex-star-comment', '"K" "V" /* D'),
]
FMT_SLOTS = 'KVFBDP'
FMT_NEUTRAL = {'K': 'key', 'V': 'val', 'F': 'flg', 'B': 'blk', 'D': 'dir', 'P': 'par'}
FMT_FLAGSETS = [None, {'flg': True, '{0}': True, '{': False, '%s': True}]
# token level (a tokenizer made by the caller): Token value -> slot
FMT_TOKEN_LISTS = [
    ('tok-newline-in-key', [(1, 'K\nK'), (1, 'V'), (2, '\n')]), ('tok-newline-in-value', [(1, 'K'), (1, 'V\rV'), (2, '\n')]),
    ('tok-leaf-flag', [(1, 'K'), (1, 'V'), (11, 'F'), (2, '\n')]), ('tok-block-flag', [(1, 'B'), (11, '!F'), (2, '\n'), (6, '{'), (7, '}')]),
    ('tok-unexpected-flag', [(11, 'F')]), ('tok-unexpected-directive', [(4, 'D')]), ('tok-unexpected-parens', [(3, 'P')]),
    ('tok-expected-newline', [(1, 'K'), (1, 'V'), (11, 'F'), (1, 'K')]), ('tok-multiple', [(1, 'K'), (1, 'V'), (1, 'K')]),
    ('tok-eof-open', [(1, 'B'), (2, '\n'), (6, '{'), (1, 'K'), (1, 'V')]), ('tok-eof-block', [(1, 'B'), (2, '\n')]),
    ('tok-block-required', [(1, 'B'), (2, '\n'), (1, 'K'), (1, 'V')]), ('tok-close', [(1, 'K'), (1, 'V'), (2, '\n'), (7, '}')]),
    ('tok-unexpected-operator', [(1, 'K'), (1, 'V'), (2, '\n'), (15, 'D')]),
]


def fmt_fill(tpl: str, slot: str, piece: str) -> str:
    """The template with `piece` in the slot `slot` ('*': in every slot) and neutral words elsewhere."""
    return ''.join((piece if (slot == '*' or ch == slot) else FMT_NEUTRAL[ch]) if ch in FMT_NEUTRAL else ('\n' if ch == '~' else ch) for ch in tpl)


def fmt_kw(v: int) -> dict:
    """Option vector: bits 0-3 newline_keys, newline_values, allow_escapes, single_line; bit 4 single_block; bit 5 the flag set."""
    kw: dict = dict(newline_keys=bool(v & 1), newline_values=bool(v & 2), allow_escapes=bool(v & 4), single_line=bool(v & 8))
    if v & 16:
        kw['single_block'] = True
    if v & 32:
        kw['flags'] = FMT_FLAGSETS[1]
    return kw


def fmt_tokens_outcome(toks: list, kw: dict) -> tuple:
    from srctools.keyvalues import KeyValError, Keyvalues
    from srctools.tokenizer import IterTokenizer, Token
    kw = {k: v for k, v in kw.items() if k != 'allow_escapes'}
    try:
        kv = Keyvalues.parse(IterTokenizer([(Token(t), v) for t, v in toks]), 'made.kv', **kw)
        return ('ok', _tree(kv))
    except KeyValError as e:
        return ('KeyValError', e.mess, e.line_num)
    except Exception as e:  # noqa: BLE001
        return ('FOREIGN', type(e).__name__, str(e)[:80])


def fmtactive_oracle(ck: Ck) -> None:
    sites: dict[str, set] = {}
    told: set = set()
    for tname, tpl in FMT_TEMPLATES:
        slots = [c for c in FMT_SLOTS if c in tpl]
        for slot in slots + (['*'] if len(slots) > 1 else []):
            for piece in FMT_PIECES:
                s = fmt_fill(tpl, slot, piece)
                for v in range(64):
                    if v & 32 and 'F' not in tpl:
                        continue
                    kw = fmt_kw(v)
                    ck.count('oracle_kvparse_format_active')
                    ref = kv_oracle(s, None, **kw)
                    sites.setdefault(tname, set()).add(ref[0] if ref[0] != 'KeyValError' else ref[1][:24])
                    if ref[0] == 'FOREIGN':
                        if (tname, ref[1]) in told or capped('fmtactive:' + ref[1]):     # one report per (exit, exception type), CAP per type
                            continue
                        told.add((tname, ref[1]))
                        small = shrink(s, lambda t: kv_oracle(t, None, **kw)[:2] == ref[:2])
                        for name in list(kw):       # drop the options that are not needed (back to the default)
                            kw2 = {k: x for k, x in kw.items() if k != name}
                            if kv_oracle(small, None, **kw2)[:2] == ref[:2]:
                                kw = kw2
                        fl = kw.pop('flags', None)
                        ck.violation(f'kvparse-foreign-exception:{ref[1]}:format-active:{tname}:' + '+'.join(cname(c) for c in small[:10]),
                                     f'Keyvalues.parse({small!r}, {dict(kw, flags=fl) if fl else kw}) raised {ref[1]}: {kv_oracle(small, None, **dict(kw, **({"flags": fl} if fl else {})))[2]} '
                                     f'(only KeyValError may escape; template {tname}, slot {slot} filled with {piece!r})',
                                     {'kind': 'kvparse', 'text': [ord(c) for c in small], 'kw': kw, 'flags': fl})
                        continue
                    if v in (0, 15, 21, 42) and kv_oracle(s, [c for c in s], **kw) != ref and not capped('fmtactive-chunks'):
                        ck.violation('kvparse-chunk-dependence:format-active:' + tname + ':' + cname(piece[0]),
                                     f'Keyvalues.parse({s!r}, {kw}) differs between one string and per-character chunks',
                                     {'kind': 'kvparse-chunks', 'text': [ord(c) for c in s], 'kw': {k: x for k, x in kw.items() if k != 'flags'}, 'flags': kw.get('flags')})
    for tname, toks in FMT_TOKEN_LISTS:
        slots = [c for c in FMT_SLOTS if any(c in val for t, val in toks if t not in (2, 6, 7))]
        for slot in slots + (['*'] if len(slots) > 1 else []):
            for piece in FMT_PIECES:
                tl = [(t, val if t in (2, 6, 7) else fmt_fill(val, slot, piece)) for t, val in toks]
                for v in [x for x in range(64) if not x & 4]:
                    if v & 32 and not any(t == 11 for t, _ in toks):
                        continue
                    kw = fmt_kw(v)
                    ck.count('oracle_kvparse_format_active_tokens')
                    ref = fmt_tokens_outcome(tl, kw)
                    sites.setdefault(tname, set()).add(ref[0] if ref[0] != 'KeyValError' else ref[1][:24])
                    if ref[0] == 'FOREIGN' and (tname, ref[1]) not in told and not capped('fmtactive-tok:' + ref[1]):
                        told.add((tname, ref[1]))
                        small = _shrink_list(tl, lambda t: fmt_tokens_outcome(t, kw)[:2] == ref[:2])
                        for name in list(kw):
                            kw2 = {k: x for k, x in kw.items() if k != name}
                            if fmt_tokens_outcome(small, kw2)[:2] == ref[:2]:
                                kw = kw2
                        ck.violation(f'kvparse-foreign-exception:{ref[1]}:format-active:{tname}:' + '+'.join(U_tokname(t) for t, _ in small[:8]),
                                     f'Keyvalues.parse(IterTokenizer({[(U_tokname(t), val) for t, val in small]}), **{kw}) raised {ref[1]}: {fmt_tokens_outcome(small, kw)[2]} '
                                     f'(only KeyValError may escape; slot {slot} filled with {piece!r})',
                                     {'kind': 'kvparse-toklist', 'tokens': [[t, val] for t, val in small], 'kw': {k: x for k, x in kw.items() if k != 'flags'}, 'flags': kw.get('flags')})
    for tname, outs in sorted(sites.items()):         # which exits every template reached (evidence: distribution.format_active_exits)
        for o in sorted(outs):
            ck.hist('format_active_exits', f'{tname} -> {o}')


def U_tokname(t: int) -> str:
    from srctools.tokenizer import Token
    return Token(t).name


# ------------------------------------------------------------------------------------------------ oracle on the implementation
def chunk_oracle(s: str, bits: int, cs: list[str]) -> str | None:
    """Chunked delivery must give the same trace as the single string; nothing but TokenSyntaxError may escape."""
    n = len(s) + 2
    a = U.impl_results(s, bits, n)
    if 4 in _markers(a):
        return 'foreign-exception'
    b = U.impl_results(iter(cs), bits, n)
    if a != b:
        return 'chunk-dependence'
    # EOF for ever: if no error, the last two results are EOF
    return None


def _markers(res: list[int]) -> set[int]:
    out = set()
    i = 0
    while i < len(res):
        out.add(res[i])
        if res[i] == 1:
            i += 5 + res[i + 4]
        elif res[i] == 2:
            i += 4 + res[i + 3]
        else:
            break
    return out


@U.bounded('hang: no result within the time limit')
def eof_oracle(s: str, bits: int) -> str | None:
    from srctools.tokenizer import Token, Tokenizer, TokenSyntaxError
    tk = Tokenizer(s, None, **U.opts_of_bits(bits))
    try:
        for _ in range(len(s) + 1):
            if tk()[0] is Token.EOF:
                break
        else:
            return 'no-EOF-after-len+1-calls'
        st = (tk.line_num, tk._last_was_cr)
        for _ in range(3):
            if tk() != (Token.EOF, '') or (tk.line_num, tk._last_was_cr) != st:
                return 'EOF-not-for-ever'
    except TokenSyntaxError:
        return None
    except Exception:  # noqa: BLE001
        return 'foreign-exception'
    return None


class _Counting:
    """Counts _next_char calls of a real Tokenizer (subclass created lazily to keep the import guard first)."""
    cls = None

    @classmethod
    def make(cls, data, bits):
        from srctools.tokenizer import Tokenizer
        if cls.cls is None:
            class CT(Tokenizer):
                reads = 0

                def _next_char(self):
                    self.reads += 1
                    return super()._next_char()
            cls.cls = CT
        return cls.cls(data, None, **U.opts_of_bits(bits))


@U.bounded('hang: no result within the time limit')
def reads_oracle(s: str, bits: int, cs: list[str] | None) -> str | None:
    from srctools.tokenizer import Token, TokenSyntaxError
    tk = _Counting.make(s if cs is None else iter(cs), bits)
    calls = 0
    try:
        while calls < len(s) + 2:
            calls += 1
            if tk()[0] is Token.EOF:
                break
    except TokenSyntaxError:
        pass
    except Exception:  # noqa: BLE001
        return 'foreign-exception'
    if tk.reads > 2 * len(s) + calls:
        return f'reads {tk.reads} > 2*{len(s)}+{calls}'
    return None


@U.bounded(('FOREIGN', 'hang', 'no result within the time limit'))
def kv_oracle(s: str, cs: list[str] | None, **kw) -> tuple:
    """Outcome of Keyvalues.parse: ('ok', tree) / ('KeyValError', message, line) / ('FOREIGN', type)."""
    from srctools.keyvalues import KeyValError, Keyvalues
    try:
        kv = Keyvalues.parse(s if cs is None else iter(cs), **kw)
        return ('ok', _tree(kv))
    except KeyValError as e:
        return ('KeyValError', e.mess, e.line_num)
    except Exception as e:  # noqa: BLE001
        return ('FOREIGN', type(e).__name__, str(e)[:80])


def _tree(kv) -> Any:
    if kv.has_children():
        return (kv.real_name, [_tree(c) for c in kv])
    return (kv.real_name, kv.value)


def shrink(s: str, pred) -> str:
    cur = s
    changed = True
    while changed:
        changed = False
        for i in range(len(cur)):
            cand = cur[:i] + cur[i + 1:]
            if pred(cand):
                cur, changed = cand, True
                break
    return cur


def _minimal_bits(bits: int, pred) -> int:
    for i in range(7):
        if bits >> i & 1 and pred(bits & ~(1 << i)):
            bits &= ~(1 << i)
    return bits


_REPORTED: dict[str, int] = {}
CAP = 3


def capped(kind: str) -> bool:
    """At most CAP shrunk reports per kind of failure (each report is shrunk, which is expensive)."""
    _REPORTED[kind] = _REPORTED.get(kind, 0) + 1
    return _REPORTED[kind] > CAP


def report_tok(ck: Ck, kind: str, s: str, bits: int, cs: list[str] | None) -> None:
    if capped(kind):
        ck.count('further_failures_not_shrunk:' + kind)
        return
    def fails(t: str, b: int) -> bool:
        if kind == 'chunk-dependence':
            return any(chunk_oracle(t, b, c) == kind for c in list(chunkings(t))[1:] + [with_empties([t])]) if len(t) <= 12 else \
                chunk_oracle(t, b, [c for c in t]) == kind
        if kind == 'foreign-exception':
            return 4 in _markers(U.impl_results(t, b, len(t) + 2))
        if kind.startswith('EOF') or kind.startswith('no-EOF'):
            return eof_oracle(t, b) is not None
        return reads_oracle(t, b, None) is not None
    if fails(s, bits):
        s = shrink(s, lambda t: fails(t, bits))
        bits = _minimal_bits(bits, lambda b: fails(s, b))
    opts = [n for i, n in enumerate(U.OPTION_NAMES) if bits >> i & 1]
    witness = None
    if kind == 'chunk-dependence':
        for c in list(chunkings(s))[1:] + [with_empties([s])]:
            if chunk_oracle(s, bits, c):
                witness = c
                break
    key = f'{kind}:' + '+'.join(cname(c) for c in s[:8]) + (':' + '+'.join(opts) if opts else '')
    ck.violation(key, f'Tokenizer on {s!r} with options {opts or "none set"}: {kind}'
                 + (f' (chunks {witness!r} give {U.decode_results(U.impl_results(iter(witness), bits, len(s) + 2))} but the single string gives '
                    f'{U.decode_results(U.impl_results(s, bits, len(s) + 2))})' if witness else ''),
                 {'kind': kind, 'text': [ord(c) for c in s], 'bits': bits, 'chunks': [[ord(c) for c in x] for x in (witness or cs or [])]})



@U.bounded([])
def _plain_stream(s: str, bits: int) -> list:
    """Tokens of a fresh tokenizer by plain calls, up to EOF; a final ('ERR', message, line) if it raises."""
    from srctools.tokenizer import Token, Tokenizer, TokenSyntaxError
    tk = Tokenizer(s, None, **U.opts_of_bits(bits))
    out: list = []
    try:
        for _ in range(len(s) + 2):
            t = tk()
            out.append(t)
            if t[0] is Token.EOF:
                break
    except TokenSyntaxError as e:
        out.append(('ERR', e.mess, e.line_num))
    except Exception as e:  # noqa: BLE001
        out.append(('FOREIGN', type(e).__name__, 0))
    return out


@U.bounded('hang: no result within the time limit')
def basetok_delivery(s: str, bits: int, plan: list[str], chunks: list[str] | None = None) -> str | None:
    """Delivery = underlying stream on the real class: following `plan` (call / peek+call / peek twice / push two and pop
    them), the tokens returned by calls must be the plain stream; returns a description of the first deviation."""
    from srctools.tokenizer import Token, Tokenizer, TokenSyntaxError
    want = _plain_stream(s, bits)
    tk = Tokenizer(s if chunks is None else iter(chunks), None, **U.opts_of_bits(bits))
    got: list = []
    try:
        for step in plan:
            if got and got[-1][0] is Token.EOF:
                break
            if step == 'call':
                got.append(tk())
            elif step == 'peek':
                p = tk.peek()
                c = tk()
                if p != c:
                    return f'peek-then-call: peek gave {p!r}, the next call {c!r}'
                got.append(c)
            elif step == 'peek2':
                p1, p2 = tk.peek(), tk.peek()
                if p1 != p2:
                    return f'peek-twice: {p1!r} then {p2!r}'
            else:
                tk.push_back(Token.STRING, 'first')
                tk.push_back(Token.BRACE_OPEN)
                a, b = tk(), tk()
                if (a, b) != ((Token.BRACE_OPEN, '{'), (Token.STRING, 'first')):
                    return f'push-back-order: pushed STRING "first" then BRACE_OPEN, calls gave {a!r} then {b!r}'
    except TokenSyntaxError as e:
        got.append(('ERR', e.mess, e.line_num))
    except Exception as e:  # noqa: BLE001
        got.append(('FOREIGN', type(e).__name__, 0))
    if got != want[:len(got)]:
        k = next(i for i, (a, b) in enumerate(zip(got + [None], want + [None])) if a != b)
        return f'delivery: item {k} is {got[k] if k < len(got) else None!r}, the plain stream has {want[k] if k < len(want) else None!r}'
    return None


def basetok_search(ck: Ck, big: bool) -> None:
    rng = ck.rng
    for _ in range(4000 if big else 600):
        s = (gen_kv_text(rng) if rng.random() < 0.5 else gen_text(rng))[:rng.choice([4, 8, 16, 40])]
        bits = rng.choice([6, 7, 7, rng.choice(ALL_BITS)])
        plan = [rng.choice(['call', 'call', 'peek', 'peek', 'peek2', 'pushpop']) for _ in range(len(s) + 3)]
        chunks = random_chunks(rng, s) if rng.random() < 0.5 else None
        ck.count('oracle_basetok_delivery')
        r = basetok_delivery(s, bits, plan, chunks)
        if r is not None and not capped('basetok:' + r.split(':')[0]):
            kind = r.split(':')[0]
            small = shrink(s, lambda t: (basetok_delivery(t, bits, plan, None) or '').split(':')[0] == kind)
            r2 = basetok_delivery(small, bits, plan, None) or r
            ck.violation('basetok-' + kind + ':' + '+'.join(cname(c) for c in small[:8]),
                         f'BaseTokenizer layer over Tokenizer({small!r}, options {[n for i, n in enumerate(U.OPTION_NAMES) if bits >> i & 1]}), '
                         f'plan {plan[:len(small) + 3]}: {r2}',
                         {'kind': 'basetok', 'text': [ord(c) for c in small], 'bits': bits, 'plan': plan[:len(small) + 3]})
        ck.seen(('bt', bits, s, tuple(plan[:6])))


def search(ck: Ck, escalate: bool) -> None:
    big = ck.thorough or escalate or bool(ck.tie_broken)
    # (a) exhaustive: all strings up to length n x all 128 option vectors x cut sets (+ empty chunks, + line split).
    # The runs are shared with the correspondence (same reference traces); if that stage did not run, do them here.
    res = ck.extra.pop('_oracle_from_corr', None)
    scope = ck.extra.pop('_oracle_scope', None)
    if res is None or (big and scope != (3, 3)):
        scope = (3, 3) if big else (3, 2)
        sh = run_shared(ck, scope[0], scope[1])
        res = sh[3] if sh is not None else [(t[3], t[4]) for t in U.pool_map(_impl_shard, [(g, scope[0], scope[1]) for g in GROUPS8], workers=14)]
    for cnt, bad in res:
        ck.count('oracle_exhaustive_chunked_runs', cnt)
        for kind, s, bits, cs in bad[:3]:
            report_tok(ck, kind, s, bits, cs)
    for s in U.strings_upto(SYN_ALPHA, scope[0]):
        if s:
            for g in range(0, 128, 8):      # (text, option group) - an undercount of the distinct (text, options) cases
                ck.seen(('ox', s, g))
    ck.hist('oracle', f'all strings <= {scope[0]} over {len(SYN_ALPHA)} symbols x 128 option vectors (executed: the vectors that differ in an '
            f'option the run read); every cut set up to length {scope[1]}, beyond: finest cut with empty chunks + one other cut set + line split',
            sum(c for c, _ in res))
    # (b) random longer texts: random chunkings, per-character, lines; read bound; EOF for ever
    rng = ck.rng
    m = 20000 if big else 2500
    for i in range(m):
        s = gen_text(rng)
        bits = rng.choice(ALL_BITS)
        for cs in (random_chunks(rng, s), [c for c in s], s.splitlines(keepends=True)):
            ck.count('oracle_random_runs')
            r = chunk_oracle(s, bits, cs)
            if r:
                report_tok(ck, r, s, bits, cs)
        r = eof_oracle(s, bits)
        if r:
            report_tok(ck, r, s, bits, None)
        if i % 3 == 0:
            ck.count('oracle_read_bound')
            r = reads_oracle(s, bits, random_chunks(rng, s))
            if r:
                report_tok(ck, r if r == 'foreign-exception' else 'reads-superlinear', s, bits, None)
        ck.seen(('or', bits, s))
        ck.hist('oracle_random_len', len(s) // 10 * 10)
    # (c) Keyvalues.parse: only KeyValError, same outcome for every chunking
    kw_sets = [dict(), dict(single_line=True, newline_keys=True), dict(allow_escapes=False, newline_values=False), dict(single_block=True)]
    kv_alpha = ['"', '\\', '/', '{', '}', '[', ']', '\r', '\n', ' ', 'a', '#', '!']
    texts = list(U.strings_upto(kv_alpha, 4 if big else 3))
    texts += [gen_text(rng) for _ in range(3000 if big else 600)]
    texts += ['"a" "b"\n"c"\n{\n"d" "e" [f]\n"g" "h" [!f]\n}\n', '"a"\r\n{\r\n"b" "c\\n"\r\n}', '"a" { "b" "c" } "d" "e"', '#base "x"\n"a" "b"', '"a" "b" [f] [g]']
    for j, s in enumerate(texts):
        kw = kw_sets[j % len(kw_sets)]
        ck.count('oracle_kvparse')
        ref = kv_oracle(s, None, **kw)
        ck.hist('kvparse_outcome', ref[0])
        if ref[0] == 'FOREIGN':
            if capped('kvparse-foreign:' + ref[1]):
                continue
            small = shrink(s, lambda t: kv_oracle(t, None, **kw)[:2] == ref[:2])
            ck.violation(f'kvparse-foreign-exception:{ref[1]}:' + '+'.join(cname(c) for c in small[:8]),
                         f'Keyvalues.parse({small!r}, {kw}) raised {ref[1]}: {kv_oracle(small, None, **kw)[2]} (only KeyValError may escape)',
                         {'kind': 'kvparse', 'text': [ord(c) for c in small], 'kw': kw})
            continue
        for cs in ([c for c in s], s.splitlines(keepends=True), random_chunks(rng, s)):
            got = kv_oracle(s, cs, **kw)
            if got != ref:
                if capped('kvparse-chunks'):
                    break
                small = shrink(s, lambda t: kv_oracle(t, None, **kw) != kv_oracle(t, [c for c in t], **kw))
                ck.violation('kvparse-chunk-dependence:' + '+'.join(cname(c) for c in small[:8]),
                             f'Keyvalues.parse({small!r}, {kw}) differs between one string and per-character chunks',
                             {'kind': 'kvparse-chunks', 'text': [ord(c) for c in small], 'kw': kw})
                break
    basetok_search(ck, big)
    U.stage_bounded(ck, "error-text-oracle", errtext_oracle, ck)
    U.stage_bounded(ck, 'premade-tokenizer-oracle', premade_oracle, ck)
    U.stage_bounded(ck, 'format-active-oracle', fmtactive_oracle, ck)
    source_kind_oracle(ck)
    ck.sample({'oracle_example': {'text': 'a\r\n/*x*/b', 'chunks': ['a\r', '', '\n/*x*', '/b'], 'check': 'same trace as the single string'}})


# ------------------------------------------------------------------------------------------------ the edge of the domain: what the chunk source may be
SOURCE_PREFIXES = ['', '"a" "b"\n', '"a"\r', '"unterminated', '"esc\\', '// comment', '/* star', '[flag', '(par\n', 'bare', '#dir', '{ "k" "v" }\n']
BAD_ITEMS = ['bytes', 'int', 'None', 'list', 'decode-error', 'runtime-error']


def _bad_source(prefix: str, item: str, cut: bool):
    """A chunk iterator that delivers `prefix` (whole, or one character per chunk with an empty chunk in between) and then
    misbehaves: a bytes / non-str chunk, or it raises UnicodeDecodeError (a file opened with the wrong encoding) / RuntimeError."""
    chunks = ([c for ch in prefix for c in (ch, '')] if cut else [prefix])
    yield from chunks
    if item == 'bytes':
        yield b'more'
    elif item == 'int':
        yield 5
    elif item == 'None':
        yield None
    elif item == 'list':
        yield ['x']
    elif item == 'decode-error':
        raise UnicodeDecodeError('utf-8', b'\xff', 0, 1, 'invalid start byte')
    else:
        raise RuntimeError('the iterator failed')
    yield '"never reached"'


@U.bounded('hang: no result within the time limit')
def source_kind_case(prefix: str, item: str, cut: bool, bits: int, via_kv: bool) -> str | None:
    """What the property allows at the edge of its domain ("any text" = str chunks):
    * a bytes or other non-str chunk: ValueError when the chunk is reached (documented; such a source is not a text and is
      outside the property), never a half-made token;
    * an iterator raising UnicodeDecodeError: the tokenizer's own error type (TokenSyntaxError; KeyValError through
      Keyvalues.parse) with the message 'Could not decode file!', the current line number and the decode error as __cause__ -
      "TokenSyntaxError and nothing else" covers files in the wrong encoding;
    * any other exception of the iterator is the caller's and propagates unchanged;
    * in every case the tokens delivered before are a prefix of the tokens of the text delivered so far."""
    from srctools.keyvalues import KeyValError, Keyvalues
    from srctools.tokenizer import Token, Tokenizer, TokenSyntaxError
    opts = U.opts_of_bits(bits)
    if via_kv:
        try:
            Keyvalues.parse(_bad_source(prefix, item, cut), allow_escapes=opts['allow_escapes'])
            return 'no exception'
        except KeyValError as e:
            if item == 'decode-error' and e.mess == 'Could not decode file!' and not isinstance(e.__cause__, UnicodeDecodeError):
                return 'KeyValError without the UnicodeDecodeError as __cause__'
            return None               # a syntax error of the prefix may come first
        except ValueError as e:
            return None if item in ('bytes', 'int', 'None', 'list') and not isinstance(e, UnicodeDecodeError) else f'{type(e).__name__} escaped'
        except RuntimeError:
            return None if item == 'runtime-error' else 'RuntimeError escaped'
        except BaseException as e:  # noqa: BLE001
            return f'{type(e).__name__} escaped'
    try:
        want = []
        for tv in Tokenizer(prefix, None, **opts):
            want.append(tv)
    except TokenSyntaxError:
        pass
    tk = Tokenizer(_bad_source(prefix, item, cut), None, **opts)
    got = []
    try:
        for _ in range(len(prefix) + 3):
            tv = tk()
            if tv[0] is Token.EOF:
                return 'EOF although the source misbehaved'
            got.append(tv)
        return 'no exception'
    except TokenSyntaxError as e:
        if got != want[:len(got)]:
            return 'tokens before the error differ from the tokens of the text'
        if e.mess == 'Could not decode file!':
            if item != 'decode-error':
                return 'decode error reported for another failure'
            if not isinstance(e.__cause__, UnicodeDecodeError) or e.line_num != tk.line_num or type(e) is not TokenSyntaxError:
                return 'decode error without cause / with the wrong line or type'
        return None                   # a syntax error of the prefix may come first (e.g. a line break inside [flag)
    except ValueError as e:
        if isinstance(e, UnicodeDecodeError):
            return 'UnicodeDecodeError escaped'
        if item not in ('bytes', 'int', 'None', 'list'):
            return f'ValueError for {item}'
        return None if got == want[:len(got)] else 'tokens before the ValueError differ from the tokens of the text'
    except RuntimeError:
        return None if item == 'runtime-error' and got == want[:len(got)] else 'RuntimeError escaped'
    except BaseException as e:  # noqa: BLE001
        return f'{type(e).__name__} escaped'


def source_kind_oracle(ck: Ck) -> None:
    from srctools.tokenizer import Tokenizer
    try:
        Tokenizer(b'"bytes"')
        r0 = 'Tokenizer(bytes) accepted'
    except TypeError:
        r0 = None
    except BaseException as e:  # noqa: BLE001
        r0 = f'Tokenizer(bytes) raised {type(e).__name__}'
    ck.count('oracle_source_kinds')
    if r0:
        ck.violation('bad-source:bytes-data', r0, {'kind': 'badsource', 'prefix': '', 'item': 'bytes-data', 'cut': False, 'bits': 6, 'kv': False})
    done: set[str] = set()
    for prefix in SOURCE_PREFIXES:
        for item in BAD_ITEMS:
            for cut in (False, True):
                for bits in (6, 127, 2):
                    for via_kv in (False, True):
                        ck.count('oracle_source_kinds')
                        r = source_kind_case(prefix, item, cut, bits, via_kv)
                        if prefix and cut:
                            ck.seen(('src', prefix, item, bits, via_kv))
                        if r is None:
                            continue
                        key = f'bad-source:{item}:{"kvparse:" if via_kv else ""}{r.split(" ")[0]}'
                        if key in done:
                            continue
                        done.add(key)
                        ck.violation(key, f'chunk source delivering {prefix!r}{" one character per chunk" if cut else ""} and then {item}: {r}',
                                     {'kind': 'badsource', 'prefix': prefix, 'item': item, 'cut': cut, 'bits': bits, 'kv': via_kv})
    ck.hist('oracle', 'chunk sources that misbehave after a prefix (bytes / non-str chunk, UnicodeDecodeError, RuntimeError) x 12 prefixes x whole / per character x 3 option vectors x Tokenizer / Keyvalues.parse', len(SOURCE_PREFIXES) * len(BAD_ITEMS) * 12)


# ------------------------------------------------------------------------------------------------ main
def _stage(ck: Ck, name: str) -> None:
    """Wall time per stage (evidence only)."""
    import os
    import time
    now = time.time()
    tm = os.times()
    cpu = tm.user + tm.system + tm.children_user + tm.children_system
    ck.extra.setdefault('stage_seconds', {})[name] = round(now - ck.extra.get('_t_last', ck.t0), 1)
    ck.extra.setdefault('stage_cpu_seconds', {})[name] = round(cpu - ck.extra.get('_cpu_last', 0.0), 1)
    ck.extra['_t_last'] = now
    ck.extra['_cpu_last'] = cpu


def run(ck: Ck) -> None:
    U.guarded('C03', _run, ck)


def _run(ck: Ck) -> None:
    _REPORTED.clear()
    ck.rule = ('exhaustive: every string over the 23-symbol syntax alphabet (" \\ / * { } [ ] ( ) # : + = , CR LF space a n BOM \' ;) up to '
               'length 3 (4 thorough for the correspondence) x all 128 option vectors; oracle additionally x every way of cutting the '
               'string into chunks, with empty chunks inserted, and split into lines; non-trivial = length >= 1 (every such string '
               'reaches a distinct branch prefix); random texts of length 4..60+ mixing the alphabet, digraphs (// /* */ CRLF \\n \\" '
               '#inc [f] (p)), case-folding characters and arbitrary code points incl. surrogates, random option vector, random '
               'chunking with empty chunks; distinct by (options, text, chunking)')
    ck.trusted.append('hand-written model Text/Tokenizer.v and Text/Prog.v cnext/cunread (tied by exhaustive small-scope differential runs and the reader-state comparison on every run)')
    ck.trusted.append('harness/c02_util.py checksum mirror of Text/TokEnum.v (63-bit; a collision would hide a disagreement)')
    ck.assumptions.append('the chunk iterable yields str objects (bytes / non-str chunks raise ValueError by design and are outside the property)')
    ck.assumptions.append('Keyvalues.parse is modelled at exception level only (which exception leaves it); the tree it builds is C01')
    ck.assumptions.append('pure-Python tokenizer only; the Cython twin _tokenizer.pyx cannot be built in this sandbox')
    ok_t = ck.translate('EscTables_gen', c02_tables.translate)
    side = ck.extra.get('translated', {}).get('EscTables_gen', {})
    escalate = bool(side) and any(side.get('digests', {}).get(k) != v for k, v in c02_tables.MODEL_DIGESTS.items())
    if escalate:
        ck.notes.append('hand-modelled tokenizer functions changed since the model was written: budgets escalated')
    ok_k = ck.translate('KvParseSites_gen', c03_kvparse.translate)
    ok_b = ck.translate('BaseTokSites_gen', c03_basetok.translate)
    ok_e = ck.translate('ErrFmt_gen', c03_errfmt.translate)
    if not ok_e:            # keep everything else alive: an all-"raises" configuration; its obligations and correspondence are skipped
        ck.gen('ErrFmt_gen', c03_errfmt.EMPTY_GEN, {'failed_closed': True})
    ok_h = ck.translate('HsRows_gen', c02_hstring.translate)      # _handle_string is part of the chunk-independence model as well
    if not ok_h:
        ck.gen('HsRows_gen', c02_hstring.EMPTY_GEN, {'failed_closed': True})
    ok_g = U.translate_get_token_trees(ck)      # _get_token / _handle_comment as decision trees + the state census
    ok_n = ck.translate('NextChar_gen', c03_nextchar.translate)      # _next_char as a table over what the chunk iterator can do
    if not ok_n:
        ck.gen('NextChar_gen', c03_nextchar.EMPTY_GEN, {'failed_closed': True})
    built = ok_t and ok_k and ok_b and ck.build(['Props/C03.vo', 'Text/TokEnum.vo', 'Text/KvErrGen.vo', 'Text/BaseTokEnum.vo', 'Text/ErrFmtGen.vo',
                                                 'Text/HsGen.vo', 'Text/GtGen.vo', 'Text/NextCharGen.vo'])
    if built:
        started = start_exhaustive_model(ck)
        th = U.theorems_in_background(ck, 'Props/C03.v')
        gt_group = U.get_token_tree_group(ok_g, hs_rows=ok_h, next_char=ok_n)
        inst_res = U.instance_obligations_parallel(ck, ([gt_group] if gt_group else []) + [(U.IMPORTS + ['SV.Text.TokenizerProofs'], {
            'EOF_is_not_an_operator_token': 'ops_no_eof gen_tables',
            'token_enum_values_distinct': 'token_values_distinct',
            'operators_name_known_tokens': 'operators_all_known',
        }, 'inst'), (KV_IMPORTS, {
            'keyvalues_parse_every_modelled_site_guarded': 'kv_sites_all_guarded',
            'read_flag_leading_bang_test_cannot_raise': 'bang_total gen_kcfg',
            'flag_replace_test_block_only_indexes_nonempty_list': 'guard_replace_block gen_kcfg',
            'flag_replace_test_leaf_only_indexes_nonempty_list': 'guard_replace_leaf gen_kcfg',
            'single_block_return_only_indexes_nonempty_root': 'guard_single_root gen_kcfg',
            'too_many_closing_braces_caught_as_KeyValError': 'close_guarded gen_kcfg',
            'no_unguarded_indexing_conversion_or_unknown_call_on_the_parse_path': 'kv_no_unmodelled_site',
            'parse_path_census_wellformed': 'kv_census_rows_wellformed',
            'error_messages_format_with_the_arguments_passed': 'error_formats_ok',
            'tokenizer_every_indexing_site_guarded': 'tokenizer_sites_all_guarded',
            'tokenizer_every_raise_goes_through_self_error': 'tokenizer_raises_only_through_error',
            'tokenizer_sees_chunks_only_through_next_char': 'tokenizer_sees_chunks_only_through_next_char',
            'tokenizer_pushes_back_only_after_a_read': 'tokenizer_pushes_back_only_after_a_read',
            'keyvalues_parse_raises_only_KeyValError': 'kvparse_raises_only_keyvalerror',
            'keyvalues_parse_installs_KeyValError_on_the_tokenizer_on_every_path': 'kvparse_tokenizer_errors_are_keyvalerror',
        }, 'kvinst'), (BT_IMPORTS, {
            'pushback_list_is_a_stack_LIFO': 'pushback_is_lifo',
            'error_of_a_token_covers_every_member': 'error_covers_every_token',
            'push_back_of_an_operator_redelivers_what_the_tokenizer_delivers': 'operator_vals_match_tokenizer',
            'push_back_keeps_the_value_of_value_tokens': 'value_tokens_keep_their_value',
        }, 'btinst')] + ([] if not ok_e else [(EF_IMPORTS + ['SV.Gen.ErrFmt_gen'], {
            'format_exc_fileinfo_never_raises': 'fileinfo_never_raises',
            'error_text_starts_with_the_message': 'fileinfo_starts_with_the_message',
            'error_text_is_the_message_without_file_and_line': 'fileinfo_is_the_message_without_file_and_line',
            'error_text_shows_the_line_number': 'fileinfo_shows_the_line',
            'error_text_shows_the_file_name': 'fileinfo_shows_the_file',
            'error_text_pieces_wellformed': 'fileinfo_pieces_wellformed',
            'error_builds_a_message_for_every_token_with_and_without_value': 'every_token_has_a_message',
            'token_messages_consist_of_text_and_the_value': 'token_messages_wellformed',
            'error_passes_message_filename_line_num_to_error_type': 'gen_error_ctor_ok',
            'error_formats_str_messages_exactly_when_arguments_are_given': 'gen_error_str_form_ok',
            'error_refuses_a_token_with_two_values': 'gen_error_two_values_refused',
        }, 'efinst')]))
        U.get_token_tree_obligations(ck, ok_g, hs_rows=ok_h, res={k: v for k, v in inst_res.items() if gt_group and k in gt_group[1]})
        _stage(ck, 'translate+build+theorems+instances')
        corr_exhaustive(ck, escalate, started)
        _stage(ck, 'corr_exhaustive')
        corr_random(ck, escalate)
        _stage(ck, 'corr_random')
        U.corr_options_by_attribute(ck)
        _stage(ck, 'corr_options_by_attribute')
        corr_kvparse(ck, escalate)
        _stage(ck, 'corr_kvparse')
        corr_basetok(ck, escalate)
        _stage(ck, 'corr_basetok')
        if ok_e:
            corr_errfmt(ck)
        _stage(ck, 'corr_errfmt')
        U.join_theorems(ck, th)
    search(ck, escalate)
    _stage(ck, 'search')
    ck.extra.pop('_t_last', None)
    ck.extra.pop('_cpu_last', None)
    if ck.violations:
        ck.explain('instance:')
        ck.explain('correspondence:')
        ck.explain('build:')
        ck.explain('translate:')


def replay(data: dict) -> int:
    r = data.get('replay', data)
    if r.get('kind') == 'kvparse-tokens':
        ixs, bits, fs = r['tokens'], r['bits'], r.get('flagset', 0)
        c, what = kv_code(kv_tokens_arg(ixs), bits, True, KV_FLAGSETS[fs])
        print(f'Keyvalues.parse(IterTokenizer({[(KV_TOK_NAMES[i], KV_TOK_ALPHA[i][1]) for i in ixs]}), flags={KV_FLAGSETS[fs]}, **{kv_kw(bits)})\n -> {kv_name(c)}: {what}')
        alpha = coq_list(f'({KV_TOK_ALPHA[i][0]}, {coq_str(KV_TOK_ALPHA[i][1])})' for i in ixs)
        mv = U.model_eval([f'kv_tokens_code {bits} {coq_flags(KV_FLAGSETS[fs])} {alpha}'], imports=KV_IMPORTS)
        if mv is not None:
            print(f' model (parser model as configured by the last ./check run): {kv_name(int(mv[0].split("%")[0]))}')
        print('VIOLATED' if c >= 300 else 'property holds on this input')
        return 1 if c >= 300 else 0
    if r.get('kind') == 'kvparse-toklist':
        kw = dict(r.get('kw', {}))
        if r.get('flags'):
            kw['flags'] = r['flags']
        toks = [(t, v) for t, v in r['tokens']]
        a = fmt_tokens_outcome(toks, kw)
        print(f'Keyvalues.parse(IterTokenizer({[(U_tokname(t), v) for t, v in toks]}), **{kw})\n -> {a}')
        print('VIOLATED' if a[0] == 'FOREIGN' else 'property holds on this input')
        return 1 if a[0] == 'FOREIGN' else 0
    if r.get('kind') == 'premade':
        class _Ck:                      # run the oracle alone and show what it reports
            violations: list = []
            def count(self, *_a): pass
            def violation(self, key, what, _r): self.violations.append((key, what))
        _REPORTED.clear()
        fake = _Ck()
        premade_oracle(fake)            # type: ignore[arg-type]
        for key, what in fake.violations:
            print(key, '::', what)
        print('VIOLATED' if fake.violations else 'property holds on this input')
        return 1 if fake.violations else 0
    if r.get('kind') == 'badsource':
        if r['item'] == 'bytes-data':
            from srctools.tokenizer import Tokenizer as _T
            try:
                _T(b'"bytes"')
                res = 'Tokenizer(bytes) accepted'
            except TypeError:
                res = None
        else:
            res = source_kind_case(r['prefix'], r['item'], r['cut'], r['bits'], r['kv'])
        print(f'chunk source: {r["prefix"]!r} ({"one character per chunk" if r["cut"] else "one chunk"}), then {r["item"]}; options {U.opts_of_bits(r["bits"])}; '
              f'{"Keyvalues.parse" if r["kv"] else "Tokenizer"}\n -> {res}')
        print('VIOLATED' if res else 'property holds on this input')
        return 1 if res else 0
    if r.get('kind') == 'errtext':
        from srctools.tokenizer import Token, Tokenizer, TokenSyntaxError
        tk = Tokenizer('', r.get('file'))
        tk.line_num = 3
        t, v = Token(r['token']), r.get('value')
        try:
            e = tk.error(t) if v is None else tk.error(t, v)
            txt = str(e)
            good = isinstance(e, TokenSyntaxError) and e.line_num == 3 and txt.startswith(e.mess) and '3' in txt[len(e.mess):]
            print(f'error({t}, {v!r}) -> {e!r}\n str: {txt!r}')
        except Exception as ex:  # noqa: BLE001
            good = False
            print(f'error({t}, {v!r}) raised {type(ex).__name__}: {ex}')
        print('property holds on this input' if good else 'VIOLATED')
        return 0 if good else 1
    if r.get('kind') == 'basetok':
        s = ''.join(map(chr, r['text']))
        res = basetok_delivery(s, r['bits'], r['plan'])
        print(f'text {s!r} options {U.opts_of_bits(r["bits"])}\n plan {r["plan"]}\n plain stream: {_plain_stream(s, r["bits"])}\n -> {res}')
        print('VIOLATED' if res else 'property holds on this input')
        return 1 if res else 0
    if 'text' not in r:
        print(json.dumps(r, indent=1)[:3000])
        print('no concrete input recorded (broken proof obligation / correspondence)')
        return 1
    s = ''.join(map(chr, r['text']))
    if r.get('kind', '').startswith('kvparse'):
        kw = dict(r.get('kw', {}))
        if r.get('flags'):
            kw['flags'] = r['flags']
        a = kv_oracle(s, None, **kw)
        b = kv_oracle(s, [c for c in s], **kw)
        print(f'Keyvalues.parse({s!r}, {kw})\n one string : {a}\n per char   : {b}')
        bad = a[0] == 'FOREIGN' or a != b
    else:
        bits = r['bits']
        cs = [''.join(map(chr, x)) for x in r.get('chunks') or []] or [c for c in s]
        a = U.impl_results(s, bits, len(s) + 2)
        b = U.impl_results(iter(cs), bits, len(s) + 2)
        print(f'text {s!r} options {U.opts_of_bits(bits)}\n one string       : {U.decode_results(a)}\n chunks {cs!r}: {U.decode_results(b)}')
        bad = a != b or 4 in _markers(a) or eof_oracle(s, bits) is not None or reads_oracle(s, bits, None) is not None
        from harness.common import parse_coq_N_list
        mv = U.model_eval([f'tok_case {bits} {coq_str(s)}', f'chk_case {bits} false {coq_list(coq_str(c) for c in cs)}'])
        if mv is not None:
            m = parse_coq_N_list(mv[0])[2 + len(s):]
            print(f' model (flat)     : {U.decode_results(m)}')
            print(f' model == implementation on the single string: {m == a};  model chunked trace (results, _char_index+1, len(_cur_chunk)): {mv[1]}')
        else:
            print(' model: not evaluated (rocq/ not built?)')
    print('VIOLATED' if bad else 'property holds on this input')
    return 1 if bad else 0
