"""C05 — Angle stays in [0,360), frozen values never change, text form is canonical."""
from __future__ import annotations

import ast
import contextlib
import copy
import math
import pickle
import random
import re
import struct
import warnings

from harness.common import Ck, coq_list, parse_coq_N_list
from translate import c05_sites

MANIFEST = dict(
    technique='Rocq proof (Flocq binary64 model of Python float % 360.0: range, identity-on-range and exact-subtraction-on-[360,720) theorems '
              'over all finite doubles; the constructors of Angle/FrozenAngle as a dispatch table over argument forms; exact dyadic model of '
              'format_float: shape/value/error theorems and the exact "-0" carve-out; model of parse_vec_str with the round-trip theorem '
              'parse(format) within 5e-7 for every bracket/whitespace wrapping; the composed chain str -> parse_vec_str -> float() -> % 360 % 360 '
              'for whole angles and vectors; string-level model of the zero stripping of __format__ with a user spec; frame + heap/alias '
              'theorems for frozen values and copies; slot-transfer model for the VALUE of a copy; hash kinds per class; ONE composed statement '
              'c05_property over all generated objects) + fail-closed, semantically normalising ast census of math.py (store sites, angle '
              'creations, constructor paths per argument form by symbolic run, format/parse pipelines by return-path enumeration, __format__ '
              'as text terms, mutation events, result kinds of every public method, symbolic run of every copy-like method, __hash__ after '
              'Python\'s resolution, in-place operator methods, the census of STATE KEPT BETWEEN CALLS (stores into module-/class-level objects, '
              'mutable defaults, caching decorators: must be empty - the register models of the history theorems have no other state); the sets of names the census relies on are least fixpoints computed from the '
              'source) + vm_compute correspondences (bit-exact / string-exact / parse results / frames / result aliasing / copied slots bit for '
              'bit / __format__ components string-exact) + searches (histories over 66 operation kinds incl. ERROR PATHS - public calls with '
              'arguments they must refuse, then the same frame/range checks on what was left behind -, matrix->angle routes, every constructor '
              'argument form x boundary values x copies (a mutable copy taken twice must be two new objects: caches), hash/== of frozen values '
              'as keys, every in-place operator on frozen receivers, __format__ specs, text round trips of str/join/repr), every call into the '
              'implementation under a CPU-time limit.  Violations are raised only for what the property text states; behaviour beyond it '
              '(which classes are hashable, the bits a numeric constructor stores inside the range, zero stripping of format(v, ".2f"), '
              'repr spelled differently from str but canonical, == within the tolerance vs hash) is recorded as observations',
    text='Theorems in Props/C05.v; c05_property states the whole property over the record of everything read from the source, under the boolean '
         'hypotheses c05_source_ok which are kernel-checked on today\'s objects on every run. (a) For EVERY finite binary64 x the executable '
         'Flocq model of x % 360.0 % 360.0 is finite and in [0,360) (a single % reaches exactly 360.0, witness -1e-14), is the identity on '
         '[0,360) and subtracts exactly 360 on [360,720); hence, if every store to _pitch/_yaw/_roll is a double modulo, a copy of an angle '
         'slot or 0.0, all angle slots stay in [0,360) after every history of stores with finite operands - also after every PREFIX of the '
         'stores of a call that raises half-way; and for the dispatch table of '
         'Angle.__init__/FrozenAngle.__new__ every form of the argument (number, same class, twin angle class, Vec, FrozenVec, other '
         'iterable) has a path whose result is in range (a slot is taken over unchanged only from an angle). The census also lists every '
         'expression that creates an Angle, none unclassified. (b) Frame theorem: with a mutation census in which no method reachable with '
         'a frozen receiver writes its receiver, an argument or a copy() of either, frozen objects never change and non-receivers are never '
         'written (the new values of written registers are arbitrary: covers interrupted calls); the hash of a frozen object (unhashable, or a '
         'function of all of its slots and nothing else - never the identity; the hash of mutable classes is outside the property) is the same '
         'after every history and equal for equal values; histories carry no state but the objects (census of shared state empty); no class '
         'of a frozen object defines an in-place operator; two objects of one family '
         'with identical slots compare == (per-slot comparisons read from __eq__, each accepting a difference of zero; the == table is a field of '
         'the source record of c05_property). Copy theorem on a heap '
         'with aliasing, and the VALUE of a copy (class, every slot; angles: same real value, in range). (c) format_float on every dyadic: '
         'text is -?digits(.1-6 digits), no trailing zero, no exponent; "-0" is printed IF AND ONLY IF the input is in the carved-out class; '
         'value within 5e-7 of x. parse_vec_str applied to three formatted numbers in any documented bracket style with any whitespace '
         'returns three decimals each within 5e-7 of its component; with float() modelled as correctly rounded the double read back is '
         'within 5e-7 + ulp/2; from_str(str(angle)) is in range again and within that bound on the circle. __format__ with a spec: a '
         'fixed-point text loses only trailing zeros of its fraction (and the dot with them), a text with an exponent or without a dot is '
         'unchanged (the pinned tree stripped zeros of the exponent: repaired, refuted in the model).',
    note='Trusted: Coq kernel + vm_compute, Flocq, translate/c05_sites.py, the hand models Num/Mod360.v, Num/Dec6.v, Num/VecText.v, '
         'Num/SpecStrip.v (tied by bit-exact / string-exact / parse-result differential runs; str.isspace() table compared on all 1114112 '
         'code points), SM/FrozenCopyValue.v (tied bit for bit on executed copies). Axioms: the four classical real-number axioms of Coq '
         'Reals (through Flocq) for the % 360 theorems, the constructor theorem, the float() corollaries, the composed round-trip theorems '
         'and c05_property only; frame, copy, hash, format, parse and __format__ theorems are axiom-free. Assumptions: operands of the modulo '
         'are finite; printf("%.6f"), format() and float() are correctly rounded; only plain-decimal fields are predicted by the parse model; '
         'only the public API is used. Not modelled: float VALUES of rotations (sin/cos/atan2; only finiteness assumed, searched), what '
         'format(value, spec) itself prints (Python\'s; only the post-processing is modelled), == against tuples and the relation of == to the hash '
         '(== of two objects with identical slots is proved from the comparisons read from __eq__), the Cython '
         'twin. Known findings kept: format_float and str/join/repr of vectors print "-0" on negative values that round to zero (the suite pins '
         'that output). Observations only (outside the property): == within the tolerance does not imply equal hashes; format(v, ".3f") '
         'prints "-0".',
)

IMPORTS = ['Coq.ZArith.ZArith', 'Coq.NArith.NArith', 'Coq.Lists.List', 'Coq.Strings.String', 'SV.Num.Mod360', 'SV.Num.AngleSites', 'SV.Num.AngleCtor', 'SV.Num.SpecStrip', 'SV.Num.C05Whole',
           'SV.Num.Dec6', 'SV.Num.Dec6CarveProofs', 'SV.Num.VecText', 'SV.SM.FrozenOps', 'SV.SM.FrozenCopy', 'SV.SM.FrozenCopyValue', 'SV.SM.FrozenHash', 'SV.SM.FrozenEq',
           'SV.Gen.AngleSites_gen']
PRE = '''Import ListNotations.
Fixpoint bad_idx {A} (f : A -> bool) (n : N) (l : list A) : list N := match l with [] => [] | x :: r => (if f x then [] else [n]) ++ bad_idx f (n + 1)%N r end.
Definition t3_eqb (a b : Z * Z * Z) : bool := let '(a1, a2, a3) := a in let '(b1, b2, b3) := b in (Z.eqb a1 b1 && Z.eqb a2 b2 && Z.eqb a3 b3)%bool.
Fixpoint nl_eqb (a b : list N) : bool := match a, b with [], [] => true | x :: a', y :: b' => (N.eqb x y && nl_eqb a' b')%bool | _, _ => false end.
'''


class ImplTimeout(Exception):
    """A call into the implementation used more CPU time than IMPL_CPU_LIMIT: treated as a failing input (a fault can
    turn a normalisation into a loop that does not end for 1e300)."""


IMPL_CPU_LIMIT = 20.0       # seconds of CPU time of this process for ONE call that normally takes microseconds
HANGS = [0]                 # calls that ran into the limit so far; after the first one the limit drops to 2 s, after
MAX_HANGS = 3               # MAX_HANGS the searches stop early (each hang is already a failing input with a replay)


def too_many_hangs() -> bool:
    return HANGS[0] >= MAX_HANGS



@contextlib.contextmanager
def impl_limit(seconds: float = IMPL_CPU_LIMIT):
    """Bound one call into the implementation by CPU time (ITIMER_VIRTUAL: does not advance while the process waits for
    a loaded machine, so slowness cannot raise it).  Only available in the main thread; elsewhere no limit."""
    import signal
    import threading
    if threading.current_thread() is not threading.main_thread():
        yield
        return

    def handler(sig, frame):
        HANGS[0] += 1
        raise ImplTimeout()
    old = signal.signal(signal.SIGVTALRM, handler)
    signal.setitimer(signal.ITIMER_VIRTUAL, seconds if HANGS[0] == 0 else min(seconds, 2.0))
    try:
        yield
    finally:
        signal.setitimer(signal.ITIMER_VIRTUAL, 0)
        signal.signal(signal.SIGVTALRM, old)


@contextlib.contextmanager
def no_limit():
    yield


OBSERVATIONS: dict[str, str] = {}      # key -> text; behaviour the property does not state (never a violation); flushed into ck.notes


def observe(key: str, text: str) -> None:
    """Round 5: record something a user might care about but C05 does not state (which classes are hashable, what
    format(obj, '.2f') strips, the exact bits a constructor stores inside the range, repr() spelled differently from
    str() but canonical).  A check that demands more than the property states raises a false alarm: these go to the
    evidence as notes/histograms only."""
    OBSERVATIONS.setdefault(key, text)


class Pending:
    """A correspondence written as a generator: it prepares its cases, yields (jobs, name, preamble) - independent
    coq_eval jobs, evaluated here in a thread pool while the caller goes on - and receives the list of their results
    when finish() is called.  Results are recorded in the order finish() is called, so the run stays deterministic."""

    def __init__(self, ck: Ck, gen, pool):
        self.gen = gen
        self.futs = []
        try:
            jobs, name, preamble = next(gen)
        except StopIteration:
            self.gen = None
            return
        self.futs = [pool.submit(ck.coq_eval, IMPORTS, j, f'{name}{i}', 600, preamble) for i, j in enumerate(jobs)]

    def finish(self) -> None:
        if self.gen is None:
            return
        try:
            self.gen.send([f.result() for f in self.futs])
        except StopIteration:
            pass
        self.gen = None


# ------------------------------------------------------------------------------------------------ doubles
def dbl_parts(x: float) -> tuple[int, int, int]:
    """(sign, mantissa, exponent) with x = (-1)^s * m * 2^e, canonical as in Flocq (53-bit mantissa for normals)."""
    b = struct.unpack('<Q', struct.pack('<d', x))[0]
    s, E, F = b >> 63, (b >> 52) & 0x7FF, b & ((1 << 52) - 1)
    if E == 0x7FF:
        return (2, 0, 0)
    if E == 0:
        return (s, F, -1074 if F else 0)
    return (s, F + (1 << 52), E - 1075)


def from_bits(b: int) -> float:
    return struct.unpack('<d', struct.pack('<Q', b & ((1 << 64) - 1)))[0]


def nextafter_n(x: float, n: int) -> float:
    for _ in range(abs(n)):
        x = math.nextafter(x, math.inf if n > 0 else -math.inf)
    return x


SPECIAL = [0.0, -0.0, 360.0, -360.0, 720.0, 1e-14, -1e-14, -1e-9, 1e-9, -5e-324, 5e-324, -2.2250738585072014e-308, 359.99999999999994,
           -359.99999999999994, 360.00000000000006, -1e-300, 1e300, -1e300, 1.7976931348623157e308, -1.7976931348623157e308, 180.0,
           -180.0, 90.0, -90.0, 270.0, -4.263256e-14, -2.0 ** -45, -2.0 ** -44, -2.0 ** -46, 2.0 ** 52, -2.0 ** 53 + 1, 1e16, -1e16,
           -3.5e-15, 45.0, 0.1, -0.1, 725.5, -725.5, 123456789.125, -7.0e-17]


def gen_double(rng: random.Random) -> tuple[str, float]:
    r = rng.random()
    if r < 0.10:
        return 'special', rng.choice(SPECIAL)
    if r < 0.35:    # any binade, any sign
        while True:
            x = from_bits(rng.getrandbits(64))
            if math.isfinite(x):
                return 'allbinades', x
    if r < 0.55:    # around multiples of 360
        k = rng.choice([0, 1, -1, 2, -2, 3, 7, -7, 1000, -1000, rng.randint(-10 ** 6, 10 ** 6), rng.randint(-2 ** 40, 2 ** 40)])
        return 'near_multiple', nextafter_n(360.0 * k, rng.randint(-4, 4))
    if r < 0.65:    # subnormals and the smallest normals
        return 'subnormal', from_bits((rng.getrandbits(1) << 63) | rng.getrandbits(rng.choice([1, 8, 30, 52, 53])))
    if r < 0.80:    # tiny negatives that can round up to 360
        return 'tiny_negative', -rng.random() * 10.0 ** rng.randint(-20, -10)
    if r < 0.90:
        return 'ordinary', rng.uniform(-2000, 2000)
    return 'integer', float(rng.randint(-10 ** 7, 10 ** 7))


def corr_mod(ck: Ck) -> None:
    n = ck.budget(1000, 8000)
    cases = []
    for i in range(n):
        kind, x = ('special', SPECIAL[i]) if i < len(SPECIAL) else gen_double(ck.rng)
        one = x % 360.0
        two = x % 360.0 % 360.0
        cases.append((x, dbl_parts(x), dbl_parts(one), dbl_parts(two)))
        ck.count('mod360_cases')
        ck.hist('mod360_input_class', kind)
        ck.hist('mod360_binade', (dbl_parts(x)[2] + 1074) // 128 * 128 - 1074)
        if one != x:          # non-trivial: the modulo changed the value
            ck.seen(('mod', x.hex()))
        if not (0.0 <= two < 360.0):
            ck.violation('python-double-modulo-out-of-range', f'{x!r} % 360.0 % 360.0 = {two!r}', {'x': x.hex()})
    ck.sample({'x': cases[5][0].hex(), 'x % 360.0 (s,m,e)': cases[5][2], 'x % 360.0 % 360.0 (s,m,e)': cases[5][3]})
    bad: list[int] = []
    t = lambda p: f'({p[0]}, {p[1]}, ({p[2]}))'
    jobs = []
    for lo in range(0, len(cases), 500):
        part = cases[lo:lo + 500]
        lit = coq_list(f'(({"true" if s else "false"}, {m}, ({e})), {t(one)}, {t(two)})' for _, (s, m, e), one, two in part)
        jobs.append(['bad_idx (fun c : (bool * Z * Z) * (Z * Z * Z) * (Z * Z * Z) => let \'(i, one, two) := c in let \'(s, m, e) := i in '
                     f'(t3_eqb (show (pymod360 (mk s m e))) one && t3_eqb (show (double360 (mk s m e))) two)%bool) 0%N ({lit})%Z'])
    for lo, vals in zip(range(0, len(cases), 500), (yield (jobs, 'mod360', PRE))):
        if vals is None:
            ck.obligation('correspondence:pymod360', False, 'model could not be evaluated')
            ck.tie_broken.append('correspondence pymod360: model evaluation failed')
            return
        bad += [lo + i for i in parse_coq_N_list(vals[0])]
    ck.obligation('correspondence:pymod360', not bad,
                  f'{len(cases)} doubles: Num/Mod360.v pymod360/double360 (vm_compute) vs Python % bit-exact: {len(bad)} disagreements')
    if bad:
        ck.tie_broken.append('correspondence pymod360 (Num/Mod360.v vs CPython float %)')
        ck.extra['mod360_disagreement'] = [{'x': cases[i][0].hex(), 'python_one': cases[i][2], 'python_two': cases[i][3]} for i in bad[:5]]


# ------------------------------------------------------------------------------------------------ format_float
FMT_SPECIAL = [-1e-9, -0.0, 0.0, -4.9e-7, -5e-7, -5.000001e-7, 5e-7, 0.5, 1.5e-6, 2.5e-6, 0.0078125, 0.0234375, 359.9999995, 359.99999949,
               359.9999997, 359.99999999999994, 719.9999999,
               1e16, 123456789012345680.0, 1e22, -1e22, 0.1, 0.3, 1 / 3, 2 / 3, 100.0, -100.0, 1e-7, -1e-7, 0.000001, 0.0000015,
               1.0000005, -1.0000005, 1.9999995, 9.9999995, 0.9999995, 99999.9999995, 5e-324, -5e-324, 1e300, 128.0, 1e-300]


def gen_fmt_double(rng: random.Random) -> tuple[str, float]:
    r = rng.random()
    if r < 0.25:       # exact ties at the 7th decimal: odd k / 128
        return 'tie', (2 * rng.randint(-5000, 5000) + 1) / 128.0 + rng.choice([0, 0, 1, -3, 1000])
    if r < 0.40:       # tiny values of both signs (the '-0' class)
        return 'tiny', rng.choice([-1, 1]) * rng.random() * 10.0 ** rng.randint(-12, -5)
    if r < 0.55:       # decimals with 5-8 places
        return 'decimal', round(rng.uniform(-1000, 1000), rng.choice([0, 1, 3, 5, 6, 7, 8]))
    if r < 0.65:       # just below/above a rounding boundary
        base = rng.randint(-10 ** 6, 10 ** 6) / 10 ** rng.choice([0, 2, 6]) + 5e-7
        return 'boundary', nextafter_n(base, rng.randint(-2, 2))
    if r < 0.75:
        return 'large', rng.choice([-1, 1]) * rng.random() * 10.0 ** rng.randint(6, 25)
    if r < 0.85:
        while True:
            x = from_bits(rng.getrandbits(64))
            if math.isfinite(x) and abs(x) < 1e40:
                return 'anybits', x
    return 'ordinary', rng.uniform(-400, 400)


def corr_format(ck: Ck) -> None:
    from srctools.math import format_float
    n = ck.budget(1000, 6000)
    cases = []
    for i in range(n):
        kind, x = ('special', FMT_SPECIAL[i]) if i < len(FMT_SPECIAL) else gen_fmt_double(ck.rng)
        s = format_float(x)
        cases.append((x, dbl_parts(x), s))
        ck.count('format_cases')
        ck.hist('format_input_class', kind)
        if '.' in s or s.startswith('-'):
            ck.seen(('fmt', x.hex()))
    ck.sample({'x': cases[40][0].hex(), 'format_float(x)': cases[40][2]})
    bad: list[int] = []
    jobs = []
    for lo in range(0, len(cases), 500):
        part = cases[lo:lo + 500]
        lit = coq_list(f'(({"true" if s else "false"}, {m}%N, ({e})%Z), [{";".join(str(ord(c)) for c in txt)}]%N)' for _, (s, m, e), txt in part)
        jobs.append(['bad_idx (fun c : (bool * N * Z) * list N => let \'(s, m, e) := fst c in '
                     f'nl_eqb (format6 format_float_cfg {{| dneg := s; dm := m; de := e |}}) (snd c)) 0%N {lit}'])
    for lo, vals in zip(range(0, len(cases), 500), (yield (jobs, 'format6', PRE))):
        if vals is None:
            ck.obligation('correspondence:format6', False, 'model could not be evaluated')
            ck.tie_broken.append('correspondence format6: model evaluation failed')
            return
        bad += [lo + i for i in parse_coq_N_list(vals[0])]
    ck.obligation('correspondence:format6', not bad,
                  f'{len(cases)} doubles: Num/Dec6.v format6 over the generated pipeline vs srctools.math.format_float as strings: {len(bad)} disagreements')
    if bad:
        ck.tie_broken.append('correspondence format6 (Num/Dec6.v vs format_float)')
        ck.extra['format6_disagreement'] = [{'x': cases[i][0].hex(), 'impl': cases[i][2]} for i in bad[:5]]


# ------------------------------------------------------------------------------------------------ parse_vec_str
WS_CHOICES = [' ', ' ', ' ', '  ', '\t', '\n', ' \r\n', '\x0b\x0c', '\x1c', '\x1f ', '\x85', '\xa0', '\u1680', '\u2003', '\u2028', '\u202f', '\u205f', '\u3000']
NOT_WS = ['\x1b', '\u200b', '\u180e', '\ufeff', '\x00', '_']        # look like spaces, are not (str.isspace() is False)
EXOTIC = ['1e5', '+3', 'inf', '-inf', 'nan', '1_0', '.5', '5.', '0x10', '\uff11\uff12', '1,5', '--1', '1-', '1..2', '-', '.', '-.5', '1e', 'e1', '१२']
LITERALS = ['0', '-0', '007', '-000.5', '1.50', '0.1234567891234', '123456789012345678901234567890', '3.000000', '0.0000001', '9' * 40 + '.' + '9' * 40,
            '-0.000', '360', '359.999999', '0.5', '2.5e0'[:3], '1.0000005', '4503599627370497.5', '0.30000000000000004', '179.99999999999997']
PARSE_CORPUS = ['(1 2 3)', ' <0 -0 5.5> ', '[1 2 3}', '((1 2 3))', '(1 2 3', '1 2 3)', ')1 2 3(', '1 2', '1 2 3 4', '', '   ', '(', ')', '()', '( )', '(1 2 3) )',
                '1\t2\n3', '1\xa02\u30003', '1\u200b2 3 4', '\x1f(1 2 3)\x1f', '(1 (2) 3)', '1 2 3\x00', '{ 1 2 3 }', '<1.5 -2.25 1e3>', '1 2 nan', '(-0 -0 -0)',
                '5 6 7 ', '[ 0.000001 359.999999 0.5 ]', '1  2   3', '(1 2 3]', '1_0 2 3', '+1 2 3', '1. 2 3', '.5 2 3']


def gen_parse_case(rng: random.Random) -> tuple[str, str]:
    from srctools.math import format_float
    r = rng.random()
    def num():
        q = rng.random()
        if q < 0.6:
            return format_float(gen_fmt_double(rng)[1])
        if q < 0.85:
            return rng.choice(LITERALS)
        if q < 0.93:
            return ('-' if rng.random() < 0.3 else '') + str(rng.randint(0, 10 ** rng.randint(1, 25))) + \
                ('.' + ''.join(rng.choice('0123456789') for _ in range(rng.randint(1, 30))) if rng.random() < 0.7 else '')
        return rng.choice(EXOTIC)
    ws = lambda: rng.choice(WS_CHOICES) if rng.random() < 0.85 else rng.choice(NOT_WS)
    pad = lambda: ''.join(rng.choice(WS_CHOICES) for _ in range(rng.choice([0, 0, 0, 1, 2])))
    if r < 0.62:
        kind = 'three'
        body = num() + ws() + num() + ws() + num()
    elif r < 0.80:
        kind = 'count'
        n = rng.choice([0, 1, 2, 4, 5])
        body = ' '.join(num() for _ in range(n))
    else:
        kind = 'odd'
        parts = [num(), num(), num()]
        j = rng.randrange(3)
        parts[j] = rng.choice(['(', ')', '', '[', '<>']) + parts[j] + rng.choice(['', ')', '>', ']]'])
        body = ' '.join(parts)
    op = rng.choice(['', '', '(', '{', '[', '<', '((', ')', '"', '1'])
    cl = rng.choice(['', '', ')', '}', ']', '>', '))', '(', '"', '0'])
    return kind, pad() + op + pad() + body + pad() + cl + pad()


def expected_float(neg: int, num: int, k: int) -> float | None:
    from fractions import Fraction
    try:
        v = float(Fraction(num, 10 ** k))
    except OverflowError:
        return None
    return -v if neg else v


def corr_parse(ck: Ck) -> None:
    """parse_vec_str on real strings against Num/VecText.v parse_vec over the generated configuration; and the
    whitespace table of the model against str.isspace() on EVERY code point."""
    from srctools.math import parse_vec_str
    n = ck.budget(500, 4000)
    cases: list[tuple[str, str]] = [('corpus', t) for t in PARSE_CORPUS]
    while len(cases) < n:
        cases.append(gen_parse_case(ck.rng))
    pre = PRE + ('Definition enc_dec (o : option decimal) : list N := match o with None => [0%N] | Some (neg, num, k) => [1%N; (if neg then 1 else 0)%N; num; N.of_nat k] end.\n'
                 'Definition enc_parsed (p : parsed) : list N := match p with PDefaults => [0%N] | PFields a b c => (1%N :: enc_dec a ++ enc_dec b ++ enc_dec c) end.\n')
    model: list[list[int]] = []
    spaces: list[int] | None = None
    jobs = []
    for lo in range(0, len(cases), 500):
        part = cases[lo:lo + 500]
        lit = coq_list('[' + ';'.join(str(ord(c)) for c in t) + ']%N' for _, t in part)
        exprs = [f'map (fun s => enc_parsed (parse_vec parse_vec_cfg s)) ({lit} : list (list N))']
        if lo == 0:
            exprs.append('rev (snd (N.iter 70000 (fun p : N * list N => (fst p + 1, if py_space (fst p) then fst p :: snd p else snd p))%N (0%N, [])))')
        jobs.append(exprs)
    for lo, vals in zip(range(0, len(cases), 500), (yield (jobs, 'parsevec', pre))):
        if vals is None:
            ck.obligation('correspondence:parse_vec_str', False, 'model could not be evaluated')
            ck.tie_broken.append('correspondence parse_vec_str: model evaluation failed')
            return
        from harness.common import parse_coq_nested
        model += parse_coq_nested(vals[0])
        if lo == 0:
            spaces = parse_coq_N_list(vals[1])
    py_spaces = [c for c in range(0x110000) if chr(c).isspace()]
    ck.obligation('correspondence:py_space_table', spaces == py_spaces,
                  f'Num/VecText.v py_space vs str.isspace() on all 1114112 code points: model {len(spaces or [])} whitespace characters, Python {len(py_spaces)}')
    if spaces != py_spaces:
        ck.tie_broken.append('py_space table differs from str.isspace()')
    bad: list[dict] = []
    D = (object(), object(), object())
    for (kind, t), m in zip(cases, model):
        ck.count('parse_cases')
        ck.hist('parse_input_class', kind)
        got = parse_vec_str(t, *D)
        is_default = got[0] is D[0] and got[1] is D[1] and got[2] is D[2]
        if m == [0]:
            ck.hist('parse_model_result', 'defaults')
            if not is_default:
                bad.append({'text': t, 'model': 'defaults', 'impl': repr(got)})
            continue
        fields = []
        rest = m[1:]
        while rest:
            if rest[0] == 0:
                fields.append(None); rest = rest[1:]
            else:
                fields.append(tuple(rest[1:4])); rest = rest[4:]
        assert len(fields) == 3, m
        ck.hist('parse_model_result', 'fields:' + ''.join('d' if f else '?' for f in fields))
        if all(fields):
            ck.seen(('parse', t))
        if is_default:
            if all(fields) and all(expected_float(*f) is not None for f in fields):
                bad.append({'text': t, 'model': fields, 'impl': 'defaults'})
            continue
        for f, g in zip(fields, got):
            if f is None:
                continue
            e = expected_float(*f)
            if e is None:
                continue
            if not (isinstance(g, float) and g == e and math.copysign(1.0, g) == math.copysign(1.0, e)):
                bad.append({'text': t, 'model': fields, 'impl': repr(got), 'expected': e})
                break
    ck.sample({'parse_vec_str text': cases[1][1], 'model (1=fields; per field 1 neg num k)': model[1]})
    ck.obligation('correspondence:parse_vec_str', not bad,
                  f'{len(cases)} strings: Num/VecText.v parse_vec over the generated configuration vs srctools.math.parse_vec_str '
                  f'(defaults / three fields / each plain decimal field == correctly rounded float of the exact decimal): {len(bad)} disagreements')
    if bad:
        ck.tie_broken.append('correspondence parse_vec_str (Num/VecText.v vs parse_vec_str)')
        ck.extra['parse_vec_disagreement'] = bad[:5]


def corr_format_spec(ck: Ck, side: dict):
    """format(obj, spec) per component against Num/SpecStrip.v spec_post over the generated configuration, as strings: the
    input of the model is what Python's format(component, spec) prints, its output must be the component of the result."""
    import srctools.math as M
    cfgs = side.get('format_spec', {})
    n = ck.budget(480, 2400)
    rng = random.Random(ck.seed + 5)
    cases: list[tuple[str, str, str]] = []
    special = [1.5e20, 1e10, 2.5e-10, 100.0, 0.5, -1e-9, 1e100, 1234567.0, 0.0001, 1e-5, 120.0, 1e22, 100000.0, 1e6, -0.0, 359.9999995, 0.0, 10.0]
    specs = [sp for sp in FORMAT_SPECS if not (re.match(r'.?[<>^=]|0?\d', sp) or sp.startswith(' '))]
    i = 0
    while len(cases) < n:
        v = [special[(i + j * 7) % len(special)] for j in range(3)] if i < len(special) else \
            [gen_fmt_double(rng)[1] if rng.random() < 0.6 else rng.choice(special) * rng.choice([1, 10, 1000, -1]) for _ in range(3)]
        i += 1
        if not all(math.isfinite(x) and abs(x) < 1e300 for x in v):
            continue
        for cname in ('Vec', 'FrozenAngle', 'FrozenVec', 'Angle')[:2 if i > len(special) else 4]:
            fam = 'angle' if 'Angle' in cname else 'vec'
            o = getattr(M, cname)(*v)
            for sp in (specs if i <= 3 else rng.sample(specs, 3)):
                parts = format(o, sp).split(' ')
                if len(parts) != 3:
                    continue            # reported by the search
                for c, t in zip(raw_slots(o), parts):
                    cases.append((fam, format(c + 0.0 if cfgs.get(fam, {}).get('adds_zero') else c, sp), t))
                    ck.count('format_spec_corr_cases')
    cases = cases[:n]
    enc = lambda t: '[' + ';'.join(str(ord(ch)) for ch in t) + ']%N'
    jobs = []
    for lo in range(0, len(cases), 500):
        lit = coq_list(f'({"true" if f == "vec" else "false"}, {enc(a)}, {enc(b)})' for f, a, b in cases[lo:lo + 500])
        jobs.append(['bad_idx (fun c : bool * list N * list N => let \'(v, a, b) := c in '
                     f'nl_eqb (spec_post (if v then vec_spec_cfg else angle_spec_cfg) a) b) 0%N {lit}'])
    bad: list[int] = []
    for lo, vals in zip(range(0, len(cases), 500), (yield (jobs, 'fspec', PRE))):
        if vals is None:
            ck.obligation('correspondence:format_spec', False, 'model could not be evaluated')
            ck.tie_broken.append('correspondence format_spec: model evaluation failed')
            return
        bad += [lo + i for i in parse_coq_N_list(vals[0])]
    ck.obligation('correspondence:format_spec', not bad,
                  f'{len(cases)} components of format(obj, spec): Num/SpecStrip.v spec_post over the generated configuration applied to '
                  f"Python's format(component, spec) vs the component of the result, as strings: {len(bad)} disagreements")
    if bad:
        ck.tie_broken.append('correspondence format_spec (Num/SpecStrip.v vs __format__)')
        ck.extra['format_spec_disagreement'] = [{'family': cases[i][0], 'format(component, spec)': cases[i][1], 'implementation': cases[i][2]} for i in bad[:5]]


PLAIN = re.compile(r'-?[0-9]+(\.[0-9]{1,6})?\Z')


def in_carve_out(x: float) -> bool:
    """The carved-out class of c05_format6_shape for the pinned pipeline (Props/C05.v c05_carved_pinned_iff), evaluated
    exactly: x strictly negative, not zero, and |x|*10^6 <= 1/2."""
    from fractions import Fraction
    return x < 0 and Fraction(-x) * 10 ** 6 * 2 <= 1


def text_problem(s: str, x: float | None = None) -> str | None:
    """The property's demands on one printed number.  A '-0' outside the known carve-out is a different failure."""
    if s == '-0':
        return 'negative-zero' if x is None or in_carve_out(x) else 'negative-zero-outside-carve-out'
    if not PLAIN.match(s):
        return 'not-plain'
    return None


def circ(a: float, b: float) -> float:
    d = abs(a - b) % 360.0
    return min(d, 360.0 - d)


def flocq_ulp(fr) -> 'Fraction':
    """ulp radix2 (FLT_exp (-1074) 53) of an exact rational, as in Props/C05.v c05_angle_component_roundtrip."""
    from fractions import Fraction
    if fr == 0:
        return Fraction(1, 2 ** 1074)
    fr = abs(fr)
    e = fr.numerator.bit_length() - fr.denominator.bit_length()
    if Fraction(2) ** e > fr:
        e -= 1                       # now 2^e <= fr < 2^(e+1)
    return Fraction(2) ** max(e - 52, -1074)


def roundtrip_within_theorem(field: str, before: float, after: float) -> bool:
    """Conclusion of c05_angle_component_roundtrip evaluated exactly: the slot read back is in [0, 360) and within
    5e-7 + ulp(decimal)/2 of the printed slot, directly or after the wrap-around 360 -> 0."""
    from fractions import Fraction
    dec = Fraction(field)
    bound = Fraction(5, 10 ** 7) + flocq_ulp(dec) / 2
    p, q = Fraction(before), Fraction(after)
    return 0.0 <= after < 360.0 and (abs(q - p) <= bound or abs(q + 360 - p) <= bound)


def other_form(found: dict, fam: str, what: str, cname: str, t2: list, parts: list, comps: tuple, circle: bool) -> None:
    """join() / repr() of an object whose str() printed `parts` (already found canonical).  The same three texts: nothing
    more to test.  Different texts are a violation only when they break what the property states - each component a plain
    decimal of at most 6 places, never '-0', denoting the component to within 5e-7 (+ the rounding of float()); a different
    but canonical spelling ('1.0' for '1') is an observation."""
    if t2 == parts:
        return
    rp = {'call': what, 'cls': cname, 'xyz': [c.hex() for c in comps]}
    x = comps[0]
    if len(t2) != 3:
        found.setdefault(f'{fam}-{what}-not-plain', (x, f'{what} of {cname}{comps!r} prints {t2!r}: not three components', rp))
        return
    for t, c in zip(t2, comps):
        pr = text_problem(t, c)
        if pr:
            found.setdefault(f'{fam}-{what}-' + ('negative-zero' if pr.startswith('negative-zero') else 'not-plain'),
                             (x, f'{what} of {cname}{comps!r} prints {t2!r} (str() prints {parts!r})', rp))
            return
        d = abs(float(t) - c)
        if circle:
            d = min(d, abs(360.0 - d))
        if d > 5e-7 + math.ulp(c) / 2:
            found.setdefault(f'{fam}-{what}-error', (x, f'{what} of {cname}{comps!r} prints {t2!r}: {t!r} is not within 5e-7 of {c!r}', rp))
            return
    observe(f'{fam}-{what}-spelled-differently-from-str', f'{what} of {cname}{comps!r} prints {t2!r}, str() prints {parts!r} (both canonical)')


def search_text(ck: Ck) -> None:
    from srctools.math import Angle, FrozenAngle, FrozenVec, Vec, format_float, parse_vec_str
    n = ck.budget(6000, 30000)
    found: dict[str, tuple] = {}

    def one(i: int) -> None:
        kind, x = ('special', FMT_SPECIAL[i]) if i < len(FMT_SPECIAL) else gen_fmt_double(ck.rng)
        if abs(x) > 1e300:
            return
        ck.count('text_cases')
        s = format_float(x)
        p = text_problem(s, x)
        if p:
            key = 'format-float-' + p
            if key not in found or abs(x) > abs(found[key][0]):
                found[key] = (x, f'format_float({x!r}) == {s!r}', {'call': 'format_float', 'x': x.hex()})
            return
        tol = 5e-7 + math.ulp(x) / 2
        if abs(float(s) - x) > tol:
            found.setdefault('format-float-error', (x, f'float(format_float({x!r})) = {float(s)!r} differs by more than 5e-7', {'call': 'format_float', 'x': x.hex()}))
        # vectors and angles: str -> from_str
        y, z = ck.rng.choice([0.0, -0.0, x / 3, -x, 1.0]), ck.rng.choice([0.0, x * 7, 2.5])
        for cls in (Vec, FrozenVec):
            v = cls(x, y, z)
            txt = str(v)
            parts = txt.split(' ')
            probs = [text_problem(t, c) for t, c in zip(parts, (x, y, z))]
            if len(parts) != 3 or any(probs):
                key = 'vec-str-negative-zero-outside-carve-out' if 'negative-zero-outside-carve-out' in probs else \
                    'vec-str-negative-zero' if 'negative-zero' in probs else 'vec-str-not-plain'
                found.setdefault(key, (x, f'str({v!r}) == {txt!r}', {'call': 'str', 'cls': cls.__name__, 'xyz': [x.hex(), y.hex(), z.hex()]}))
                continue
            # join() and repr() are text forms too: the same demands (canonical, reads back) on whatever they print
            for what, t2 in (('join', v.join(';').split(';')), ('repr', repr(v)[len(cls.__name__) + 1:-1].split(', '))):
                other_form(found, 'vec', what, cls.__name__, t2, parts, (x, y, z), False)
            # every bracket style, and (c05_parse_format_vec: ANY non-empty whitespace between the numbers) other separators
            for wrap, sep in (('{}', ' '), ('({})', ' '), ('[{}]', ' '), (' <{}> ', ' '), ('{{{}}}', ' '), ('{}', '  '), ('({})', '\t'), ('[ {} ]', ' \n')):
                text = wrap.format(txt.replace(' ', sep))
                back = cls.from_str(text, 9e9, 9e9, 9e9)
                if any(abs(a - b) > 5e-7 + math.ulp(b) / 2 for a, b in zip(back, v)):
                    found.setdefault('vec-from-str-error', (x, f'{cls.__name__}.from_str({text!r}) = {back!r} for {v!r}',
                                                            {'call': 'from_str', 'cls': cls.__name__, 'xyz': [x.hex(), y.hex(), z.hex()], 'wrap': wrap, 'sep': sep}))
            if parse_vec_str(v) != (v.x, v.y, v.z):
                found.setdefault('parse-vec-str-passthrough', (x, 'parse_vec_str(vec) != components', {'xyz': [x.hex(), y.hex(), z.hex()]}))
        if abs(x) < 1e15:
            for cls in (Angle, FrozenAngle):
                a = cls(x, y, z)
                txt = str(a)
                parts = txt.split(' ')
                probs = [text_problem(t, c) for t, c in zip(parts, (a.pitch, a.yaw, a.roll))]
                if len(parts) != 3 or any(probs):
                    key = 'angle-str-negative-zero' if any(p and p.startswith('negative-zero') for p in probs) else 'angle-str-not-plain'
                    found.setdefault(key, (x, f'str({a!r}) == {txt!r}', {'call': 'str', 'cls': cls.__name__, 'xyz': [x.hex(), y.hex(), z.hex()]}))
                    continue
                back = cls.from_str(txt, 77, 77, 77)
                for what, t2 in (('join', a.join(';').split(';')), ('repr', repr(a)[len(cls.__name__) + 1:-1].split(', '))):
                    other_form(found, 'angle', what, cls.__name__, t2, parts, tuple(a), True)
                ck.count('angle_roundtrip_cases')
                for p, q in zip(a, back):       # which branch of the theorem: read back directly, or 360.0 stored as 0.0
                    ck.hist('angle_roundtrip_branch', 'wrap-around 360 -> 0' if p - q > 180 else 'direct')
                if not all(roundtrip_within_theorem(t, p, q) for t, p, q in zip(parts, a, back)):
                    found.setdefault('angle-from-str-error', (x, f'{cls.__name__}.from_str({txt!r}) = {back!r} for {tuple(a)!r}',
                                                              {'call': 'from_str', 'cls': cls.__name__, 'xyz': [x.hex(), y.hex(), z.hex()]}))
    for i in range(n):
        if too_many_hangs():
            break
        try:
            with impl_limit():
                one(i)
        except ImplTimeout:
            found.setdefault('implementation-hangs-in-text', (0.0, f'text case {i} (format_float / str / from_str) did not return within the CPU time limit', {'call': 'search_text', 'case': i}))
    ck.sample({'str(Vec(-1e-9, 0.1, 725.5))': str(Vec(-1e-9, 0.1, 725.5)), 'str(Angle(-1e-14, 725.5, 359.9999997))': str(Angle(-1e-14, 725.5, 359.9999997))})
    for key, (x, what, rp) in found.items():
        ck.violation(key, what, rp)


# ------------------------------------------------------------------------------------------------ histories
VEC_SLOTS = ('_x', '_y', '_z')
ANG_SLOTS = ('_pitch', '_yaw', '_roll')
MAT_SLOTS = ('_aa', '_ab', '_ac', '_ba', '_bb', '_bc', '_ca', '_cb', '_cc')


def slots_of(o) -> tuple[str, ...]:
    n = type(o).__name__
    return VEC_SLOTS if 'Vec' in n else ANG_SLOTS if 'Angle' in n else MAT_SLOTS


def safe_hash(o):
    """hash(o), or a marker when the object is unhashable (a frozen vector/angle must be usable as a key: reported by
    the searches as frozen-class-unhashable-<Class>)."""
    try:
        return hash(o)
    except TypeError:
        return 'UNHASHABLE'


def snap(o) -> tuple:
    """Observable value of an object: raw slots (as exact hex), hash for the hashable ones, extra instance attributes."""
    raw = tuple(getattr(o, s).hex() if isinstance(getattr(o, s, None), float) else repr(getattr(o, s, None)) for s in slots_of(o))
    h = safe_hash(o) if type(o).__name__ in ('FrozenVec', 'FrozenAngle') and finite_obj(o) else None
    d = tuple(sorted(getattr(o, '__dict__', {}).items()))
    return (type(o).__name__, raw, h, d)


def is_frozen(o) -> bool:
    return type(o).__name__.startswith('Frozen')


ANGLE_VALUES = [0.0, -0.0, 360.0, -360.0, 720.0, -1e-14, 1e-14, -1e-9, -3.5e-15, -1e-16, 359.99999999999994, 90.0, -90.0, 180.0, 270.0,
                45.0, 12.5, -725.5, 1e9, -4.2e-14, 359.9999999, 89.99999999999999, -2.0 ** -45, 1e-300, -5e-324]


def rnd_val(rng: random.Random) -> float:
    r = rng.random()
    if r < 0.55:
        return rng.choice(ANGLE_VALUES)
    if r < 0.7:
        return float(rng.randint(-4, 4) * 90)
    if r < 0.8:
        return -rng.random() * 10.0 ** rng.randint(-18, -12)
    return rng.uniform(-800, 800)


def pick(rng, regs, pred):
    idx = [i for i, o in enumerate(regs) if pred(o)]
    return rng.choice(idx) if idx else None


def isvec(o): return 'Vec' in type(o).__name__
def isang(o): return 'Angle' in type(o).__name__
def ismat(o): return 'Matrix' in type(o).__name__


def gen_op(rng: random.Random, regs: list) -> tuple:
    """One operation as a plain tuple (replayable): (name, receiver index or None, argument indexes, scalars)."""
    names = ['new_vec', 'new_fvec', 'new_ang', 'new_fang', 'new_mat_yaw', 'new_mat_pitch', 'new_mat_roll', 'new_mat_angle', 'new_fmat_angle',
             'ang_from_basis', 'ang_from_str', 'vec_from_str', 'copy', 'copy_copy', 'deepcopy', 'pickle', 'freeze', 'thaw', 'ctor_same', 'ctor_frozen',
             'binop_scalar', 'binop_vec', 'rbinop_scalar', 'neg', 'abs', 'norm', 'cross', 'vec_to_angle', 'matmul', 'tuple_matmul',
             'iop_scalar', 'iop_vec', 'imatmul', 'set_attr', 'set_item', 'vec_minmax', 'vec_localise', 'vec_rotate', 'transform',
             'ang_mul', 'ang_rmul', 'ang_imul', 'mat_to_angle', 'mat_transpose', 'mat_inverse', 'mat_setitem', 'str', 'hash', 'eq', 'iter_ctor',
             'bbox', 'with_axes', 'divmod', 'round', 'ctor_cross', 'new_kw', 'set_key', 'vec_to_angle_roll', 'vec_rotation_around',
             'vec_rotate_by_str', 'vec_clamped', 'vec_lerp', 'mat_from_angstr', 'to_matrix', 'vec_reads', 'bad_call', 'bad_call']
    name = rng.choice(names)
    a = rng.randrange(len(regs)) if regs else None
    b = rng.randrange(len(regs)) if regs else None
    sc = [rnd_val(rng), rnd_val(rng), rnd_val(rng)]
    k = rng.choice([0, 1, 2, 3])
    return (name, a, b, sc, k)


def apply_op(op: tuple, regs: list):
    """Execute one operation. Returns (census_method or None, receiver index or None, arg indexes, list of result objects).
    Exceptions of the TypeError/AttributeError/... family for unsupported combinations mean 'not applicable'."""
    from srctools.math import Angle, FrozenAngle, FrozenMatrix, FrozenVec, Matrix, Vec
    name, a, b, sc, k = op
    A = regs[a] if a is not None and a < len(regs) else None
    B = regs[b] if b is not None and b < len(regs) else None
    x, y, z = sc
    new = lambda *objs: (None, None, [], list(objs))
    if name == 'new_vec': return new(Vec(x, y, z))
    if name == 'new_fvec': return new(FrozenVec(x, y, z))
    if name == 'new_ang': return new(Angle(x, y, z))
    if name == 'new_fang': return new(FrozenAngle(x, y, z))
    if name == 'new_mat_yaw': return new((Matrix, FrozenMatrix)[k & 1].from_yaw(x))
    if name == 'new_mat_pitch': return new((Matrix, FrozenMatrix)[k & 1].from_pitch(x))
    if name == 'new_mat_roll': return new((Matrix, FrozenMatrix)[k & 1].from_roll(x))
    if name == 'new_mat_angle': return new(Matrix.from_angle(x, y, z))
    if name == 'new_fmat_angle': return new(FrozenMatrix.from_angle(x, y, z))
    if name == 'new_kw':
        cls = (Vec, FrozenVec, Angle, FrozenAngle)[k]
        kw = dict(zip(FAMILY_KW['ang' if k >= 2 else 'vec'], sc))
        if x < 0: del kw[FAMILY_KW['ang' if k >= 2 else 'vec'][1]]
        return new(cls(**kw))
    if name == 'ang_from_str': return new((Angle, FrozenAngle)[k & 1].from_str(f'{x!r} {y!r} {z!r}'))
    if name == 'vec_from_str': return new((Vec, FrozenVec)[k & 1].from_str(f'({x!r} {y!r} {z!r})'))
    if A is None:
        return None
    if name == 'ang_from_basis':
        if not ismat(A): return None
        return ('from_basis', None, [a], [(Angle, FrozenAngle)[k & 1].from_basis(x=A.forward(), z=A.up())])
    if name == 'copy': return ('copy', a, [], [A.copy()])
    if name == 'copy_copy': return ('__copy__', a, [], [copy.copy(A)])
    if name == 'deepcopy': return ('__deepcopy__', a, [], [copy.deepcopy(A)])
    if name == 'pickle': return ('__reduce__', a, [], [pickle.loads(pickle.dumps(A, protocol=k + 2))])
    if name == 'freeze':
        if is_frozen(A): return None
        return ('freeze', a, [], [A.freeze()])
    if name == 'thaw':
        if not is_frozen(A): return None
        return ('thaw', a, [], [A.thaw()])
    if name == 'ctor_same':
        return ('__init__', None, [a], [type(A)(A)])
    if name == 'ctor_frozen':
        cls = FrozenVec if isvec(A) else FrozenAngle if isang(A) else FrozenMatrix
        return ('__new__', None, [a], [cls(A)])
    if name == 'vec_to_angle_roll':
        if not isvec(A) or not isvec(B): return None
        return ('to_angle_roll', a, [b], [A.norm().to_angle_roll(A.norm().cross((0.0, 0.0, 1.0) if abs(A.norm().z) < 0.9 else (1.0, 0.0, 0.0)).norm())])
    if name == 'vec_rotation_around':
        if not isvec(A): return None
        return ('rotation_around', a, [], [type(A)(*[(x if i == k % 3 else 0.0) for i in range(3)]).rotation_around(y)])
    if name == 'vec_rotate_by_str':
        if not isvec(A) or not hasattr(A, 'rotate_by_str'): return None
        T = A.rotate_by_str(f'{x!r} {y!r} {z!r}')
        return ('rotate_by_str', a, [], [] if T is A else [T])
    if name == 'vec_clamped':
        if not isvec(A) or not isvec(B): return None
        return ('clamped', a, [b], [A.clamped(mins=B) if k & 1 else A.clamped(B, B + (1.0, 1.0, 1.0))])
    if name == 'vec_lerp':
        if not isvec(A) or not isvec(B): return None
        return ('lerp', None, [a, b], [type(A).lerp(0.25, 0.0, 1.0, A, B)])
    if name == 'mat_from_angstr':
        M_ = (Matrix, FrozenMatrix)[k & 1]
        if A is not None and isang(A) and k & 2:
            return ('from_angstr', None, [a], [M_.from_angstr(A)])
        return new(M_.from_angstr(f'{x!r} {y!r} {z!r}'))
    if name == 'to_matrix':
        from srctools.math import to_matrix
        return ('to_matrix', None, [a], [to_matrix(A)])
    if name == 'vec_reads':
        if not isvec(A): return None
        A.len_sq(); A.mag(); A.other_axes('xyz'[k % 3]); A.in_bbox(A, A); A.dot(A); A.as_tuple()
        try:
            A.axis()
        except ValueError:
            pass                    # not on an axis (within its tolerance)
        if finite_small(A): list(A.iter_line(A + (0.0, 0.0, 8.0), 4))
        return ('<reads>', a, [], [])
    if name == 'bad_call':
        # ERROR PATHS (round 5): a public call with an argument it must refuse (wrong type, short tuple, unknown key, zero
        # divisor, a body that raises inside transform()).  Whatever it raises is fine; what it LEFT BEHIND is checked by the
        # caller like after any other step: frozen registers and non-receivers unchanged, every angle still in range.
        calls = BAD_CALLS['vec' if isvec(A) else 'ang' if isang(A) else 'mat']
        f = calls[(k * 17 + int(abs(x) * 7) + len(regs)) % len(calls)]
        try:
            f(A)
        except ImplTimeout:
            raise
        except Exception:           # noqa: BLE001 - the refusal itself
            pass
        return ('<raised>', a, [], [])
    if name == 'ctor_cross':          # an angle from a vector object, a vector from an angle object (and the same family)
        if ismat(A): return None
        return ('__init__', None, [a], [(Vec, FrozenVec, Angle, FrozenAngle)[k](A)])
    if name == 'set_key':
        if not isang(A): return None
        key = ANG_KEYS[k % 3][1 + (k + len(regs)) % (len(ANG_KEYS[k % 3]) - 1)]
        try:
            A[key] = x
        except TypeError:
            if is_frozen(A): return ('__setitem__', a, [], [])
            raise
        return ('__setitem__', a, [], [])
    if name == 'iter_ctor':
        if ismat(A): return None
        return ('__init__', None, [a], [(Vec, FrozenVec, Angle, FrozenAngle)[k](iter(A))])
    if name == 'binop_scalar':
        if not isvec(A): return None
        s = x if x else 2.0
        return ('__OP__', a, [], [(A + s, A - s, A * s, A / s)[k]])
    if name == 'rbinop_scalar':
        if not isvec(A): return None
        return ('__rOP__', a, [], [(x + A, x - A, x * A, (1.0, 2.0, 3.0) + A)[k]])
    if name == 'binop_vec':
        if not isvec(A) or not isvec(B): return None
        return ('__OP__', a, [b], [(A + B, A - B, A + tuple(B), B - A)[k]])
    if name == 'neg': return ('__neg__', a, [], [-A]) if isvec(A) else None
    if name == 'abs': return ('__abs__', a, [], [abs(A)]) if isvec(A) else None
    if name == 'round': return ('__round__', a, [], [round(A, k)]) if isvec(A) else None
    if name == 'divmod':
        if not isvec(A): return None
        q, r = divmod(A, 7.0)
        return ('__divmod__', a, [], [q, r])
    if name == 'norm': return ('norm', a, [], [A.norm()]) if isvec(A) else None
    if name == 'cross': return ('cross', a, [b], [A.cross(B)]) if isvec(A) and isvec(B) else None
    if name == 'vec_to_angle': return ('to_angle', a, [], [A.to_angle(x)]) if isvec(A) else None
    if name == 'bbox':
        if not isvec(A) or not isvec(B): return None
        lo, hi = type(A).bbox(A, B)
        return ('bbox', None, [a, b], [lo, hi])
    if name == 'with_axes':
        if ismat(A): return None
        if isvec(A): return ('with_axes', None, [a], [type(A).with_axes('x', A, 'z', x)])
        return ('with_axes', None, [a], [type(A).with_axes('yaw', A, 'roll', x)])
    if name == 'matmul':          # A @ B for every sensible combination
        if B is None or isvec(B): return None
        if ismat(A) and isvec(B): return None
        return ('__matmul__', a, [b], [A @ B])
    if name == 'tuple_matmul':
        if not (ismat(A) or isang(A)): return None
        return ('__rmatmul__', a, [], [(x, y, z) @ A])
    if name == 'iop_scalar':
        if not isvec(A): return None
        s = x if x else 2.0
        T = A
        if k == 0: T += s
        elif k == 1: T -= s
        elif k == 2: T *= s
        else: T /= s
        meth = '__iOP__' if hasattr(type(A), '__iadd__') else '__OP__'
        return (meth, a, [], [] if T is A else [T])
    if name == 'iop_vec':
        if not isvec(A) or not isvec(B): return None
        T = A
        if k & 1: T += B
        else: T -= B
        meth = '__iOP__' if hasattr(type(A), '__iadd__') else '__OP__'
        return (meth, a, [b], [] if T is A else [T])
    if name == 'imatmul':
        if B is None or isvec(B) or (ismat(A) and isvec(B)): return None
        T = A
        T @= B
        meth = '__imatmul__' if hasattr(type(A), '__imatmul__') else '__matmul__'
        return (meth, a, [b], [] if T is A else [T])
    if name == 'set_attr':
        if ismat(A): return None
        attr = ('x', 'y', 'z')[k % 3] if isvec(A) else ('pitch', 'yaw', 'roll')[k % 3]
        try:
            setattr(A, attr, x)
        except AttributeError:
            if is_frozen(A): return (attr, a, [], [])
            raise
        return (attr, a, [], [])
    if name == 'set_item':
        if ismat(A): return None
        try:
            A[k % 3] = x
        except TypeError:
            if is_frozen(A): return ('__setitem__', a, [], [])
            raise
        return ('__setitem__', a, [], [])
    if name == 'mat_setitem':
        if not ismat(A): return None
        try:
            A[k % 3, (k + 1) % 3] = math.cos(x)
        except TypeError:
            if is_frozen(A): return ('__setitem__', a, [], [])
            raise
        return ('__setitem__', a, [], [])
    if name == 'vec_minmax':
        if not isvec(A) or not isvec(B): return None
        if not hasattr(A, 'max'): return ('max', a, [b], [])
        (A.max if k & 1 else A.min)(B)
        return ('max' if k & 1 else 'min', a, [b], [])
    if name == 'vec_localise':
        if not isvec(A) or B is None or isvec(B): return None
        if not hasattr(A, 'localise'): return ('localise', a, [b], [])
        A.localise((x, y, 1.0), B)
        return ('localise', a, [b], [])
    if name == 'vec_rotate':
        if not isvec(A) or not hasattr(A, 'rotate'): return None
        with warnings.catch_warnings():
            warnings.simplefilter('ignore')
            A.rotate(x, y, z)
        return ('rotate', a, [], [])
    if name == 'transform':
        if ismat(A) or not hasattr(A, 'transform'): return None
        with A.transform() as m:
            m @= Matrix.from_yaw(x)
            if B is not None and (ismat(B) or isang(B)):
                m @= B
        return ('transform', a, [b] if B is not None else [], [])
    if name == 'ang_mul': return ('__mul__', a, [], [A * (x if k else 2)]) if isang(A) else None
    if name == 'ang_rmul': return ('__rmul__', a, [], [(x if k else -1) * A]) if isang(A) else None
    if name == 'ang_imul':
        if not isang(A): return None
        T = A
        T *= (x if k else 3)
        meth = '__imul__' if hasattr(type(A), '__imul__') else '__mul__'
        return (meth, a, [], [] if T is A else [T])
    if name == 'mat_to_angle': return ('to_angle', a, [], [A.to_angle()]) if ismat(A) else None
    if name == 'mat_transpose': return ('transpose', a, [], [A.transpose()]) if ismat(A) else None
    if name == 'mat_inverse':
        if not ismat(A): return None
        try:
            return ('inverse', a, [], [A.inverse()])
        except ArithmeticError:
            return ('inverse', a, [], [])
    if name == 'str':
        str(A); repr(A)
        if not ismat(A):
            A.join(';'); format(A, '.3f'); list(A); tuple(reversed(A)); A.as_tuple() if not isvec(A) else None
        return ('__str__', a, [], [])
    if name == 'hash':
        if type(A).__name__ in ('FrozenVec', 'FrozenAngle') and safe_hash(A) != 'UNHASHABLE':
            hash(A); {A: 1}
        return ('__hash__', a, [], [])
    if name == 'eq':
        if B is not None:
            _ = (A == B, A != B)
        return ('__eq__', a, [b] if B is not None else [], [])
    raise AssertionError(name)


def _bad_calls() -> dict:
    import operator as O

    def boom(A):
        with A.transform() as m:
            m @= type(m).from_yaw(33.0)
            raise ValueError('body failed')

    def iop(fn, arg):
        def g(A):
            fn(A, arg)          # operator.iadd & co. fall back to the binary operator exactly like `x += y`
        return g
    common = [lambda A: A * 'x', lambda A: 'x' * A, lambda A: A @ 'x', lambda A: A['q'], lambda A: A[7], iop(O.imul, 'x'), iop(O.imatmul, 'x'),
              iop(O.imul, None), lambda A: type(A)('a', 'b', 'c'), lambda A: type(A)([1.0, 'a']), lambda A: type(A)(1.0, 'a', 2.0),
              lambda A: type(A).from_str(None), lambda A: type(A).with_axes('q', 1.0), lambda A: format(A, 'zz'), lambda A: A.join(5),
              lambda A: A.__setitem__(9, 1.0) if hasattr(A, '__setitem__') else None, boom, lambda A: pickle.loads(pickle.dumps(A)[:-3])]
    vec = common + [lambda A: A + (1.0, 'a', 3.0), lambda A: A - None, lambda A: A / 0.0, lambda A: A // 0.0, lambda A: A % 0.0, lambda A: divmod(A, 0.0),
                    lambda A: A.cross((1.0,)), iop(O.iadd, (1.0, 'a', 3.0)), iop(O.isub, (1.0, 2.0, 'c')), iop(O.itruediv, 0.0), iop(O.ifloordiv, 0.0),
                    iop(O.imod, 0.0), iop(O.iadd, None), lambda A: setattr(A, 'y', 'abc'), lambda A: A.__setitem__('z', 'abc'),
                    lambda A: A.to_angle('x'), lambda A: A.localise('junk', None), lambda A: A.rotate('a', 0, 0), lambda A: A.max((1.0,)),
                    lambda A: A.min('ab'), lambda A: type(A).with_axes('x', 'abc'), lambda A: A.in_bbox(1, 2), lambda A: A.rotate_by_str(5),
                    lambda A: A.norm_mask if False else (A * 0.0).norm().norm(), lambda A: A.axis() if False else type(A)(0, 0, 0).axis()]
    ang = common + [lambda A: setattr(A, 'yaw', 'abc'), lambda A: A.__setitem__('rol', 'abc'), lambda A: A.__setitem__('nope', 1.0),
                    lambda A: type(A).with_axes('yaw', 'abc'), lambda A: type(A).from_basis(), lambda A: A @ (1.0, 'a', 3.0), lambda A: (1.0, 'a') @ A,
                    lambda A: type(A).with_axes('pitch', 1.0, 'pitch', 'b'), iop(O.imatmul, (1.0, 2.0, 3.0)), lambda A: A * (1, 2)]
    mat = [lambda A: A @ 'x', iop(O.imatmul, 'x'), iop(O.imatmul, None), lambda A: A[5, 5], lambda A: A['a'], lambda A: A.__setitem__((0, 0), 'abc'),
           lambda A: A.__setitem__((7, 7), 1.0), lambda A: type(A).from_angle('a', 'b', 'c'), lambda A: type(A).from_basis(),
           lambda A: type(A).from_yaw('q'), lambda A: type(A).from_angstr(None), lambda A: (1.0, 'a', 3.0) @ A, lambda A: type(A).axis_angle((0.0, 0.0, 0.0), 'x'),
           lambda A: pickle.loads(pickle.dumps(A)[:-3]), lambda A: type(A).from_basis(x=A.forward(), y=A.forward())]
    return {'vec': vec, 'ang': ang, 'mat': mat}


BAD_CALLS = _bad_calls()

COPY_OPS = {'copy', 'copy_copy', 'deepcopy', 'pickle', 'freeze', 'thaw', 'ctor_same', 'ctor_frozen'}
SHAPE_OPS = {'copy', 'copy_copy', 'deepcopy', 'pickle', 'freeze', 'thaw'}       # the methods of Gen copy_shapes
NEVER_RAISES = COPY_OPS | {'new_vec', 'new_fvec', 'new_ang', 'new_fang', 'new_kw', 'new_mat_yaw', 'new_mat_pitch', 'new_mat_roll', 'new_mat_angle',
                           'new_fmat_angle', 'ang_from_str', 'vec_from_str', 'ctor_cross', 'iter_ctor', 'str', 'hash', 'eq', 'neg', 'abs', 'mat_to_angle',
                           'mat_transpose', 'to_matrix', 'mat_from_angstr', 'ang_mul', 'ang_rmul', 'with_axes'}


def finite_small(o) -> bool:
    return all(abs(getattr(o, sl)) < 1e6 for sl in slots_of(o))


def finite_obj(o) -> bool:
    return all(isinstance(getattr(o, s, None), float) and math.isfinite(getattr(o, s)) for s in slots_of(o))


def missing_slots(o) -> list[str]:
    return [s for s in slots_of(o) if not hasattr(o, s)]


class HistRunner:
    """Executes a history on real objects one operation at a time.  problems are property violations (key, text, step);
    frames record for every executed op (classes, census method, receiver, args, changed registers)."""

    def __init__(self) -> None:
        self.regs: list = []
        self.problems: list[tuple[str, str, int]] = []
        self.frames: list[dict] = []
        self.n = 0

    def step(self, op: tuple) -> None:
        regs, problems, frames, step = self.regs, self.problems, self.frames, self.n
        self.n += 1
        if problems:
            return
        before = [snap(o) for o in regs]
        try:
            with warnings.catch_warnings(), impl_limit():
                warnings.simplefilter('ignore')
                res = apply_op(tuple(op), regs)
        except ImplTimeout:
            problems.append((f'implementation-hangs-in-{op[0]}', f'{op[0]} did not return within {IMPL_CPU_LIMIT:.0f} s of CPU time', step))
            return
        except (TypeError, AttributeError, ValueError, ZeroDivisionError, KeyError, NotImplementedError, OverflowError, ArithmeticError) as e:
            if op[0] in NEVER_RAISES and not isinstance(e, ArithmeticError):     # (overflow of huge finite values is legitimate)
                # constructions from finite numbers, copies, reading: no input makes these fail
                problems.append((f'raised-{type(e).__name__}-in-{op[0]}', f'{op[0]} raised {type(e).__name__}: {e}', step))
                return
            res = ('<raised>', op[1], [], [])
        if res is None:
            return
        meth, recv, args, out = res
        after = [snap(o) for o in regs]
        changed = [i for i, (p, q) in enumerate(zip(before, after)) if p != q]
        nregs = len(regs)
        for o in out:
            if isinstance(o, tuple) or o is NotImplemented or o is None:
                continue
            if (isvec(o) or isang(o) or ismat(o)) and missing_slots(o):          # an object escaped without all of its slots written
                problems.append((f'{"angle" if isang(o) else type(o).__name__.lower()}-slot-missing-after-{op[0]}',
                                 f'{type(o).__name__} returned by {op[0]} has no {missing_slots(o)}', step))
                continue
            if not any(o is r for r in regs) and finite_obj(o):      # non-finite results are outside the property
                regs.append(o)
        res_is = None
        if out and not isinstance(out[0], tuple):
            src_i = recv if recv is not None else (args[0] if args else None)
            if src_i is not None and src_i < nregs:
                res_is = 'same' if out[0] is regs[src_i] else 'new'
        frames.append({'op': op[0], 'meth': meth, 'recv': recv, 'args': args, 'changed': changed, 'classes': [type(o).__name__ for o in regs[:nregs]],
                       'res_is': res_is, 'res_cls': type(out[0]).__name__ if out else None})
        if op[0] in SHAPE_OPS and recv is not None and recv < nregs and out and not missing_slots(out[0]) and finite_obj(out[0]):
            frames[-1]['src_raw'] = {s: getattr(regs[recv], s) for s in slots_of(regs[recv])}
            frames[-1]['dst_raw'] = {s: getattr(out[0], s) for s in slots_of(out[0])}
        # (b) frozen values never change; nothing but a mutable receiver is written
        for i in changed:
            cls = before[i][0]
            if cls.startswith('Frozen'):
                key = 'frozenmatrix-matmul-mutates' if cls == 'FrozenMatrix' and meth == '__matmul__' and i == recv \
                    else f'frozen-{cls}-changed-by-{op[0]}'
                problems.append((key, f'{cls} register {i} changed from {before[i][1]} to {after[i][1]} by {op[0]}', step))
            elif i != recv:
                problems.append((f'non-receiver-{cls}-changed-by-{op[0]}', f'{cls} register {i} (not the receiver) changed by {op[0]}', step))
            elif op[0] in COPY_OPS:
                problems.append((f'source-changed-by-{op[0]}-{cls}', f'{cls} register {i} changed from {before[i][1]} to {after[i][1]} by {op[0]} of itself', step))
        # copies are equal to and distinct from their (mutable) source
        if op[0] in COPY_OPS and out and op[1] is not None and op[1] < nregs:
            src, dst = regs[op[1]], out[0]
            if finite_obj(src) and raw_slots(src) != raw_slots(dst):        # "equal" = the same numbers (-0.0 == 0.0); every slot, exactly
                problems.append((f'copy-not-equal-{op[0]}-{type(src).__name__}', f'{op[0]} of {snap(src)} gave {snap(dst)}', step))
            if dst is src and not is_frozen(src):
                problems.append((f'copy-is-same-object-{op[0]}-{type(src).__name__}', f'{op[0]} returned the mutable source itself', step))
            elif dst is not src and not is_frozen(dst) and any(dst is r for r in regs[:nregs]):
                # (round 5: caches) a mutable "copy" that is an object handed out EARLIER is not independent: whoever holds
                # the earlier result changes this one
                problems.append((f'copy-returns-object-handed-out-before-{op[0]}-{type(src).__name__}',
                                 f'{op[0]} of register {op[1]} returned the mutable object already held in register {next(i for i, r in enumerate(regs[:nregs]) if r is dst)}', step))
        for o in regs[nregs:]:
            if type(o).__name__ in ('FrozenVec', 'FrozenAngle') and safe_hash(o) == 'UNHASHABLE':
                observe(f'frozen-class-unhashable-{type(o).__name__}', f'hash() of the {type(o).__name__} returned by {op[0]} raises TypeError')
        # (a) every angle in range, now and for every register
        for i, o in enumerate(regs):
            if isang(o) and finite_obj(o):
                for s in ANG_SLOTS:
                    v = getattr(o, s)
                    if not (0.0 <= v < 360.0):
                        via = op[0] if (i >= nregs or i in changed) else 'earlier'
                        problems.append((classify_range(via, meth), f'{type(o).__name__}.{s[1:]} == {v!r} after {op[0]}', step))
                # observation through the public properties must agree with the slots
                if (o.pitch, o.yaw, o.roll) != (o._pitch, o._yaw, o._roll):
                    problems.append(('angle-property-differs-from-slot', repr(o), step))


def run_history(hist: list[tuple]):
    """Execute a history on real objects. Returns (problems, frames, regs)."""
    r = HistRunner()
    for op in hist:
        r.step(op)
        if r.problems:
            break
    return r.problems, r.frames, r.regs


TO_ANGLE_OPS = {'mat_to_angle', 'ang_from_basis', 'matmul', 'imatmul', 'transform', 'tuple_matmul', 'vec_to_angle', 'vec_to_angle_roll'}


def classify_range(opname: str, meth) -> str:
    if opname in TO_ANGLE_OPS:
        return 'angle-360-from-matrix-to-angle'
    return f'angle-out-of-range-after-{opname}'


CORPUS_HIST = [
    [('new_mat_yaw', None, None, [-1e-14, 0.0, 0.0], 0), ('mat_to_angle', 0, 0, [0.0, 0.0, 0.0], 0)],
    [('new_fmat_angle', None, None, [10.0, 20.0, 30.0], 0), ('new_mat_yaw', None, None, [45.0, 0.0, 0.0], 0), ('matmul', 0, 1, [0.0, 0.0, 0.0], 0)],
    [('new_fmat_angle', None, None, [10.0, 20.0, 30.0], 0), ('imatmul', 0, 0, [0.0, 0.0, 0.0], 0)],
    [('new_ang', None, None, [-1e-14, 360.0, -360.0], 0), ('freeze', 0, 0, [0, 0, 0], 0), ('ang_imul', 0, 0, [-1e-14, 0, 0], 1), ('thaw', 1, 0, [0, 0, 0], 0),
     ('set_attr', 2, 0, [-1e-16, 0, 0], 1), ('pickle', 1, 0, [0, 0, 0], 0), ('pickle', 2, 0, [0, 0, 0], 1)],
    [('new_ang', None, None, [0.0, 90.0, 0.0], 0), ('new_mat_yaw', None, None, [-90.00000000000001, 0.0, 0.0], 0), ('imatmul', 0, 1, [0, 0, 0], 0), ('transform', 0, 1, [-1e-14, 0, 0], 0)],
    [('new_fvec', None, None, [1.0, 2.0, 3.0], 0), ('iop_scalar', 0, 0, [2.0, 0, 0], 0), ('imatmul', 0, 0, [0, 0, 0], 0), ('new_fang', None, None, [0.0, 90.0, 0.0], 0),
     ('matmul', 0, 2, [0, 0, 0], 0), ('imatmul', 0, 2, [0, 0, 0], 0), ('set_attr', 0, 0, [5.0, 0, 0], 0), ('vec_minmax', 0, 0, [0, 0, 0], 1)],
    [('new_vec', None, None, [1.0, 2.0, 3.0], 0), ('copy', 0, 0, [0, 0, 0], 0), ('iop_scalar', 1, 0, [2.0, 0, 0], 2), ('freeze', 0, 0, [0, 0, 0], 0), ('set_attr', 0, 0, [9.0, 0, 0], 1),
     ('deepcopy', 0, 0, [0, 0, 0], 0), ('vec_rotate', 3, 0, [10.0, 20.0, 30.0], 0)],
]


def shrink(hist, pred):
    cur = list(hist)
    changed = True
    while changed:
        changed = False
        for i in range(len(cur) - 1, -1, -1):
            cand = cur[:i] + cur[i + 1:]
            if cand and pred(cand):
                cur = cand
                changed = True
                break
    return cur


def search_histories(ck: Ck) -> list[dict]:
    n = ck.budget(2000, 10000)
    found: dict[str, tuple] = {}
    all_frames: list[dict] = []
    for i in range(n):
        if too_many_hangs():
            break
        if i < len(CORPUS_HIST):
            hist = [tuple(o) for o in CORPUS_HIST[i]]
            problems, frames, regs = run_history(hist)
        else:
            # generate while executing so that indexes refer to existing registers
            hist = []
            regs_n = 0
            length = ck.rng.choice([4, 8, 14, 24])
            runner = HistRunner()
            for _ in range(length):
                hist.append(gen_op(ck.rng, [None] * max(regs_n, 1)) if regs_n else gen_op(ck.rng, []))
                runner.step(hist[-1])
                regs_n = len(runner.regs)
                if runner.problems:
                    break
            problems, frames, regs = runner.problems, runner.frames, runner.regs
        ck.count('histories')
        for f in frames:
            ck.hist('history_ops', f['op'])
        if any(f['changed'] for f in frames) and any(c.startswith('Frozen') for f in frames for c in f['classes']):
            ck.seen(('hist', repr(hist)))
        if len(all_frames) < 6000:
            all_frames.extend(f for f in frames if f['meth'] not in (None, '<raised>'))
        for key, what, step in problems:
            if key in found and len(found[key][0]) <= 3:
                continue
            small = shrink(hist, lambda h, key=key: any(p[0] == key for p in run_history(h)[0]))
            again = [p[1] for p in run_history(small)[0] if p[0] == key]
            if not again:
                # the shrunken history does not fail a second time: the implementation keeps state between calls (a cache
                # survives from one replay to the next).  Report the history as it was generated.
                small, again = hist, [what + ' (not reproducible call by call: state is kept between calls)']
            if key not in found or len(small) < len(found[key][0]):
                found[key] = (small, again[0])
    ck.sample({'history': [list(o) for o in CORPUS_HIST[3]], 'final_registers': [snap(o)[:2] for o in run_history(CORPUS_HIST[3])[2]]})
    for key, (hist, what) in found.items():
        ck.violation(key, what, {'history': [list(o) for o in hist], 'how': 'checks.c05.run_history(history)'})
    ck.extra['history_violation_keys'] = sorted(found)
    return all_frames


def corr_frames(ck: Ck, frames: list[dict]) -> None:
    """Which registers did an operation change on the implementation?  Must be allowed by the model's frame
    (may_write over the generated mutation census)."""
    frames = [f for f in frames if f['recv'] is not None][:ck.budget(1000, 6000)]
    if not frames:
        ck.obligation('correspondence:frames', False, 'no frames recorded')
        return
    s = lambda x: '"' + x + '"'
    bad: list[int] = []
    jobs = []
    for lo in range(0, len(frames), 500):
        part = frames[lo:lo + 500]
        lit = coq_list('(%s, %s, %d, %s, %s)' % (coq_list(f'({s(c)}, 0)' for c in f['classes']), s(f['meth']), f['recv'],
                                                 coq_list(str(i) for i in f['args']), coq_list(str(i) for i in f['changed'])) for f in part)
        jobs.append(['bad_idx (fun c : list (string * nat) * string * nat * list nat * list nat => let \'(st, m, r, ar, ch) := c in '
                     'forallb (may_write nat mut_events st {| meth := m; recv := r; args := ar |}) ch) 0%N (' + lit + ')%nat'])
    for lo, vals in zip(range(0, len(frames), 500), (yield (jobs, 'frames', PRE + 'Open Scope string_scope.\n'))):
        part = frames[lo:lo + 500]
        if vals is None:
            ck.obligation('correspondence:frames', False, 'model could not be evaluated')
            ck.tie_broken.append('correspondence frames: model evaluation failed')
            return
        bad += [lo + i for i in parse_coq_N_list(vals[0])]
        for f in part:
            ck.count('frame_cases')
    ck.obligation('correspondence:frames', not bad,
                  f'{len(frames)} executed operations: registers changed on the implementation vs SM/FrozenOps.v may_write over the census: {len(bad)} not allowed by the model')
    if bad:
        ck.tie_broken.append('correspondence frames (SM/FrozenOps.v may_write vs real objects)')
        ck.extra['frame_disagreement'] = [frames[i] for i in bad[:5]]


def corr_results(ck: Ck, frames: list[dict], side: dict) -> None:
    """Is the result of a copy-like call / constructor call the source object itself or a new one?  Compared with the
    generated table result_kinds (SM/FrozenCopy.v kinds): RFresh = always new, RSelf = always the receiver,
    RArgFrozen = the argument itself exactly when it already is of that frozen class."""
    kinds = {(c, m): k for c, m, k in side.get('result_kinds', [])}
    bad = []
    n = 0
    for f in frames:
        if f['op'] not in COPY_OPS or f['res_is'] is None:
            continue
        if f['recv'] is not None:
            cls = f['classes'][f['recv']]
            k = kinds.get((cls, f['meth']))
            want = {'RFresh': 'new', 'RSelf': 'same'}.get(k)
        else:
            cls = f['res_cls']
            k = kinds.get((cls, '__new__')) or kinds.get((cls, '__init__'))
            src_cls = f['classes'][f['args'][0]]
            want = {'RFresh': 'new', 'RArgFrozen': 'same' if src_cls == cls else 'new'}.get(k)
        n += 1
        ck.count('result_cases')
        ck.hist('result_kind_checked', f'{cls}.{f["meth"]}:{k}')
        if want != f['res_is']:
            bad.append({'class': cls, 'method': f['meth'], 'model_kind': k, 'implementation': f['res_is']})
    ck.obligation('correspondence:results', n > 0 and not bad,
                  f'{n} copy-like / constructor calls: result is the source object or a new one vs Gen result_kinds: {len(bad)} disagreements')
    if bad or not n:
        ck.tie_broken.append('correspondence results (result_kinds vs real objects)')
        ck.extra['result_disagreement'] = bad[:5]


def corr_shapes(ck: Ck, frames: list[dict], side: dict) -> None:
    """The slot transfer the translator computed for each copy-like method (Gen copy_shapes, SM/FrozenCopyValue.v
    `built`) against the objects the implementation returned: class of the result, and every slot bit for bit - the
    source slot itself for TId/TFloat, `v % 360.0 % 360.0` for TNorm360 (that operator is tied to Num/Mod360.v by
    correspondence:pymod360)."""
    table = {(c, m): (rc, t) for c, m, rc, t in side.get('copy_shapes', [])}
    bad = []
    n = 0
    for f in frames:
        if 'src_raw' not in f:
            continue
        cls = f['classes'][f['recv']]
        ent = table.get((cls, f['meth']))
        n += 1
        ck.count('shape_cases')
        ck.hist('copy_shape_checked', f'{cls}.{f["meth"]}')
        if ent is None:
            bad.append({'class': cls, 'method': f['meth'], 'model': 'no entry'})
            continue
        rc, term = ent
        if f['res_cls'] != rc:
            bad.append({'class': cls, 'method': f['meth'], 'model_result_class': rc, 'implementation': f['res_cls']})
            continue
        if term == 'CSelf':
            if f['res_is'] != 'same':
                bad.append({'class': cls, 'method': f['meth'], 'model': 'CSelf', 'implementation': f['res_is']})
            continue
        if term == 'CUnknown':
            continue            # no prediction (the instance obligation fails)
        exp = {}
        for d, sl, x in re.findall(r'\("(\w+)", "(\w+)", (\w+)\)', term):
            v = f['src_raw'][sl]
            exp[d] = v % 360.0 % 360.0 if x == 'TNorm360' else v
        got = f['dst_raw']
        if set(exp) != set(got) or any(exp[k].hex() != got[k].hex() for k in exp):
            bad.append({'class': cls, 'method': f['meth'], 'model': {k: v.hex() for k, v in exp.items()}, 'implementation': {k: v.hex() for k, v in got.items()}})
    ck.obligation('correspondence:copy_shapes', n > 0 and not bad,
                  f'{n} executed copy / __copy__ / __deepcopy__ / pickle / freeze / thaw calls: result class and every slot bit for bit vs Gen copy_shapes: {len(bad)} disagreements')
    if bad or not n:
        ck.tie_broken.append('correspondence copy_shapes (slot transfer vs real objects)')
        ck.extra['copy_shape_disagreement'] = bad[:5]


# ------------------------------------------------------------------------------------------------ direct oracles
def search_to_angle(ck: Ck) -> None:
    """Targeted oracle for the conversion matrix -> angle: rotations by tiny negative angles about each axis,
    alone and composed, through every public route that ends in _to_angle."""
    from srctools.math import Angle, FrozenAngle, FrozenMatrix, Matrix, Vec
    n = ck.budget(6000, 40000)
    found: dict[str, tuple] = {}
    for i in range(n):
        rng = ck.rng
        v = [rnd_val(rng), rnd_val(rng), rnd_val(rng)]
        route = rng.choice(['from_yaw', 'from_pitch', 'from_roll', 'from_angle', 'angle_matmul', 'angle_imatmul', 'transform', 'from_basis', 'rmatmul',
                            'axis_angle', 'vec_to_angle', 'to_angle_roll', 'rotation_around', 'from_angstr', 'to_matrix_angle'])
        if too_many_hangs():
            break
        try:
          with impl_limit():
            if route == 'from_yaw': a = Matrix.from_yaw(v[0]).to_angle()
            elif route == 'from_pitch': a = FrozenMatrix.from_pitch(v[0]).to_angle()
            elif route == 'from_roll': a = Matrix.from_roll(v[0]).to_angle()
            elif route == 'from_angle': a = Matrix.from_angle(*v).to_angle()
            elif route == 'angle_matmul': a = FrozenAngle(v[0], 0, 0) @ Angle(0, v[1], v[2])
            elif route == 'angle_imatmul':
                a = Angle(0, v[0], 0); a @= Matrix.from_yaw(v[1])
            elif route == 'transform':
                a = Angle(0, 0, 0)
                with a.transform() as m:
                    m @= Matrix.from_yaw(v[0])
            elif route == 'from_basis':
                m = Matrix.from_yaw(v[0])
                a = FrozenAngle.from_basis(x=m.forward(), y=m.left())
            elif route == 'rmatmul': a = Angle(0, 0, 0) @ FrozenMatrix.from_yaw(v[0])
            elif route == 'axis_angle': a = Matrix.axis_angle(Vec(0, 0, 1), v[0]).to_angle()
            elif route == 'to_angle_roll':
                m = Matrix.from_yaw(v[0])
                with warnings.catch_warnings():
                    warnings.simplefilter('ignore')
                    a = m.forward().to_angle_roll(m.up())
            elif route == 'rotation_around':
                with warnings.catch_warnings():
                    warnings.simplefilter('ignore')
                    a = Vec(*[(1.0 if j == i % 3 else 0.0) for j in range(3)]).rotation_around(v[0])
            elif route == 'from_angstr': a = FrozenMatrix.from_angstr(f'{v[0]!r} {v[1]!r} {v[2]!r}').to_angle()
            elif route == 'to_matrix_angle':
                from srctools.math import to_matrix
                a = to_matrix(FrozenAngle(*v)).to_angle()
            else: a = Vec(1.0, math.sin(math.radians(v[0])), 0.0).to_angle(v[1])
        except ImplTimeout:
            found.setdefault(f'implementation-hangs-in-{route}', (route, v, ('did not return within the CPU time limit',)))
            continue
        except (ValueError, ZeroDivisionError):
            continue
        except AttributeError as e:         # an angle escaped from a conversion without all of its slots and was read
            found.setdefault('angle-slot-missing-after-to_angle', (route, v, (repr(e),)))
            continue
        ck.count('to_angle_cases')
        ck.hist('to_angle_route', route)
        if any(abs(x) < 1e-9 and x != 0 for x in v):
            ck.seen(('toang', route, tuple(x.hex() for x in v)))
        if missing_slots(a):
            found.setdefault('angle-slot-missing-after-to_angle', (route, v, tuple(missing_slots(a))))
            continue
        vals = (a.pitch, a.yaw, a.roll)
        if not all(type(x) is float and math.isfinite(x) for x in vals):
            # the operands of % in _to_angle are degrees(atan2(...)): finite (|x| <= 180) for every finite rotation
            found.setdefault(f'angle-not-finite-after-{route}', (route, v, vals))
            continue
        if all(math.isfinite(x) for x in vals) and not all(0.0 <= x < 360.0 for x in vals):
            key = 'angle-360-from-matrix-to-angle' if route not in ('vec_to_angle', 'rotation_around') else f'angle-out-of-range-after-{route}'
            if key not in found:
                found[key] = (route, v, vals)
    for key, (route, v, vals) in found.items():
        ck.violation(key, f'{route}{tuple(v)!r} gives (pitch, yaw, roll) = {vals!r}', {'route': route, 'values': [x.hex() for x in v]})


# ------------------------------------------------------------------------------------------------ constructor argument forms
CTOR_FLOATS = [0.0, -0.0, 360.0, -360.0, 720.0, -720.0, -90.0, -1e-14, 1e-14, -1e-9, -3.5e-15, 359.99999999999994, 360.00000000000006,
               -359.99999999999994, 90.0, 180.0, 270.0, 450.0, -725.5, 1e9, -1e9, 1e300, -1e300, -5e-324, 5e-324, 359.9999999, -2.0 ** -45,
               12.5, 1e16, -1e16, 359.9999997, -4.2e-14]
CTOR_INTS = [0, 1, -1, 90, -90, 359, 360, 361, -360, 720, -725, 10 ** 6, -10 ** 9, True, False, 10 ** 18]
FAMILY_KW = {'ang': ('pitch', 'yaw', 'roll'), 'vec': ('x', 'y', 'z')}
ANG_KEYS = ((0, 'p', 'pit', 'pitch'), (1, 'y', 'yaw'), (2, 'r', 'rol', 'roll'))
VEC_KEYS = ((0, 'x'), (1, 'y'), (2, 'z'))


def norm360(x) -> float:
    """What the property demands of a stored angle component: the double modulo of the float (tied to Num/Mod360.v by
    correspondence:pymod360)."""
    return float(x) % 360.0 % 360.0


def ctor_forms() -> dict:
    """Every public way of building an Angle/FrozenAngle/Vec/FrozenVec from given numbers: name -> f(C, v, fam, k) returning
    (object, the three numbers it must hold BEFORE normalisation).  `nrm` marks values that arrive through an existing
    angle (already normalised there)."""
    import array
    import collections
    from srctools.math import Angle, FrozenAngle, FrozenVec, Matrix, Vec, Vec_tuple
    nrm = lambda v: tuple(norm360(x) for x in v)
    fl = lambda v: tuple(float(x) for x in v)
    txt = lambda v: ' '.join(repr(float(x)) for x in v)
    mut = lambda fam: Angle if fam == 'ang' else Vec
    frz = lambda fam: FrozenAngle if fam == 'ang' else FrozenVec
    own = lambda fam, v: nrm(v) if fam == 'ang' else fl(v)      # components of an existing object of the same family
    F: dict = {}
    F['floats'] = lambda C, v, fam, k: (C(float(v[0]), float(v[1]), float(v[2])), v)
    F['numbers'] = lambda C, v, fam, k: (C(v[0], v[1], v[2]), v)                       # ints / bools / floats as given
    F['one'] = lambda C, v, fam, k: (C(v[0]), (v[0], 0.0, 0.0))
    F['two'] = lambda C, v, fam, k: (C(v[0], v[1]), (v[0], v[1], 0.0))
    F['none'] = lambda C, v, fam, k: (C(), (0.0, 0.0, 0.0))
    F['kw'] = lambda C, v, fam, k: (C(**dict(zip(FAMILY_KW[fam], v))), v)
    F['kw_one'] = lambda C, v, fam, k: (C(**{FAMILY_KW[fam][k % 3]: v[k % 3]}), tuple(v[i] if i == k % 3 else 0.0 for i in range(3)))
    F['pos_kw'] = lambda C, v, fam, k: (C(v[0], **{FAMILY_KW[fam][2]: v[2]}), (v[0], 0.0, v[2]))
    F['vec'] = lambda C, v, fam, k: (C(Vec(*v)), fl(v))
    F['fvec'] = lambda C, v, fam, k: (C(FrozenVec(*v)), fl(v))
    F['vec_and_defaults'] = lambda C, v, fam, k: (C((Vec, FrozenVec)[k & 1](*v), 5.0, -7.0), fl(v))
    F['angle'] = lambda C, v, fam, k: (C(Angle(*v)), nrm(v))
    F['fangle'] = lambda C, v, fam, k: (C(FrozenAngle(*v)), nrm(v))
    F['angle_and_defaults'] = lambda C, v, fam, k: (C((Angle, FrozenAngle)[k & 1](*v), 5.0, -7.0), nrm(v))
    F['tuple'] = lambda C, v, fam, k: (C(tuple(v)), v)
    F['list'] = lambda C, v, fam, k: (C(list(v)), v)
    F['iterator'] = lambda C, v, fam, k: (C(iter(list(v))), v)
    F['generator'] = lambda C, v, fam, k: (C(x for x in v), v)
    F['map'] = lambda C, v, fam, k: (C(map(float, v)), v)
    F['reversed'] = lambda C, v, fam, k: (C(reversed([v[2], v[1], v[0]])), v)
    F['vec_tuple'] = lambda C, v, fam, k: (C(Vec_tuple(*v)), v)
    F['as_tuple'] = lambda C, v, fam, k: (C((Angle, FrozenAngle)[k & 1](*v).as_tuple()), nrm(v))
    F['deque'] = lambda C, v, fam, k: (C(collections.deque(v)), v)
    F['array'] = lambda C, v, fam, k: (C(array.array('d', fl(v))), v)
    F['dict_keys'] = lambda C, v, fam, k: (C(dict.fromkeys(fl(v)[:1])), (v[0], 0.0, 0.0))
    F['short1'] = lambda C, v, fam, k: (C([v[0]]), (v[0], 0.0, 0.0))
    F['short1_defaults'] = lambda C, v, fam, k: (C((v[0],), v[1], v[2]), v)
    F['short2_defaults'] = lambda C, v, fam, k: (C([v[0], v[1]], 123.0, v[2]), v)
    F['empty_defaults'] = lambda C, v, fam, k: (C((), v[1], v[2]), (0.0, v[1], v[2]))
    F['long4'] = lambda C, v, fam, k: (C([v[0], v[1], v[2], 99.0]), v)
    F['from_str'] = lambda C, v, fam, k: (C.from_str(txt(v)), v)
    F['from_str_brackets'] = lambda C, v, fam, k: (C.from_str(('({})', '[{}]', ' <{}> ', '{{{}}}')[k].format(txt(v))), v)
    F['from_str_defaults'] = lambda C, v, fam, k: (C.from_str(('not a vector', '1 2', '', '1 2 3 4')[k], v[0], v[1], v[2]), v)
    F['from_str_vec'] = lambda C, v, fam, k: (C.from_str((Vec, FrozenVec)[k & 1](*v)), fl(v))
    F['from_str_angle'] = lambda C, v, fam, k: (C.from_str((Angle, FrozenAngle)[k & 1](*v)), nrm(v))
    F['with_axes1'] = lambda C, v, fam, k: (C.with_axes(FAMILY_KW[fam][k % 3], v[k % 3]), tuple(v[i] if i == k % 3 else 0.0 for i in range(3)))
    F['with_axes2'] = lambda C, v, fam, k: (C.with_axes(FAMILY_KW[fam][2], v[2], FAMILY_KW[fam][0], v[0]), (v[0], 0.0, v[2]))
    F['with_axes3'] = lambda C, v, fam, k: (C.with_axes(FAMILY_KW[fam][1], v[1], FAMILY_KW[fam][2], v[2], FAMILY_KW[fam][0], v[0]), v)
    F['with_axes_objects'] = lambda C, v, fam, k: (C.with_axes(FAMILY_KW[fam][1], mut(fam)(*v), FAMILY_KW[fam][0], frz(fam)(*v)),
                                                   (own(fam, v)[0], own(fam, v)[1], 0.0))

    def from_basis(C, v, fam, k):
        if fam != 'ang':
            raise LookupError
        m = Matrix.from_angle(*nrm(v))
        return (C.from_basis(x=m.forward(), z=m.up()) if k & 1 else C.from_basis(x=m.forward(), y=m.left())), None
    F['from_basis'] = from_basis

    def setter(how):
        def f(C, v, fam, k):
            if C not in (Angle, Vec):
                raise LookupError               # frozen classes have no setters (their refusal is part of the histories)
            o = C(1.0, 2.0, 3.0)
            keys = ANG_KEYS if fam == 'ang' else VEC_KEYS
            for i in range(3):
                if how == 'attr':
                    setattr(o, FAMILY_KW[fam][i], v[i])
                else:
                    o[keys[i][0] if how == 'index' else keys[i][1 + k % (len(keys[i]) - 1)]] = v[i]
            return o, v
        return f
    F['set_attr'], F['set_index'], F['set_key'] = setter('attr'), setter('index'), setter('key')
    return F


def ctor_posts() -> dict:
    """What is done with a constructed object: name -> f(o) returning the object that must equal o (or LookupError)."""
    from srctools.math import Angle, FrozenAngle, FrozenVec, Vec

    def twin(o, frozen: bool):
        return ((Angle, FrozenAngle) if isang(o) else (Vec, FrozenVec))[frozen]

    def only(pred, f):
        def g(o):
            if not pred(o):
                raise LookupError
            return f(o)
        return g
    P = {'copy': lambda o: o.copy(), 'copy_copy': copy.copy, 'deepcopy': copy.deepcopy}
    for proto in range(0, pickle.HIGHEST_PROTOCOL + 1):
        P[f'pickle{proto}'] = lambda o, proto=proto: pickle.loads(pickle.dumps(o, protocol=proto))
    P['freeze'] = only(lambda o: not is_frozen(o), lambda o: o.freeze())
    P['thaw'] = only(is_frozen, lambda o: o.thaw())
    P['freeze_thaw'] = only(lambda o: not is_frozen(o), lambda o: o.freeze().thaw())
    P['ctor_same'] = lambda o: type(o)(o)
    P['ctor_mutable'] = lambda o: twin(o, False)(o)
    P['ctor_frozen'] = lambda o: twin(o, True)(o)
    P['from_str_object'] = lambda o: type(o).from_str(o)
    P['ctor_components'] = lambda o: type(o)(*o)
    P['ctor_str'] = only(isang, lambda o: type(o).from_str(' '.join(repr(c) for c in o)))
    P['pos'] = only(isvec, lambda o: +o)            # "+ on a Vector simply copies it"
    return P


def raw_slots(o) -> tuple:
    return tuple(getattr(o, s, None) for s in slots_of(o))


def unhex(x):
    return float.fromhex(x) if isinstance(x, str) and 'x' in x else ast.literal_eval(x) if isinstance(x, str) else x


def hexes(t) -> list:
    return [x.hex() if isinstance(x, float) else repr(x) for x in t]


def ctor_case(cname: str, form: str, v: list, k: int, limit=None) -> list[tuple[str, str]]:
    """Build one object and test it.  Returns [(violation key, text)].  An exception from the implementation is a
    failure too: every form listed is part of the documented constructor interface."""
    import srctools.math as M
    C = getattr(M, cname)
    fam = 'ang' if 'Angle' in cname else 'vec'
    F = ctor_forms()
    try:
        with (limit or no_limit)():
            o, raw = F[form](C, v, fam, k)
    except LookupError:
        return []
    except ImplTimeout:
        return [(f'implementation-hangs-in-ctor-{form}-{cname}', f'{cname} by {form} of {v!r} did not return within the CPU time limit')]
    except Exception as e:          # noqa: BLE001 - whatever a broken tree raises
        return [(f'ctor-raised-{form}-{cname}', f'{cname} by {form} of {v!r} raised {type(e).__name__}: {e}')]
    out: list[tuple[str, str]] = []
    what = f'{cname} by {form} of {v!r} (k={k})'
    if type(o) is not C:
        return [(f'ctor-wrong-class-{form}-{cname}', f'{what} is a {type(o).__name__}')]
    got = raw_slots(o)
    if not all(type(x) is float for x in got):
        return [(f'ctor-slot-not-float-{form}-{cname}', f'{what} holds {got!r}')]
    if not all(math.isfinite(x) for x in got):
        return []                                   # non-finite values are outside the property
    if fam == 'ang' and not all(0.0 <= x < 360.0 for x in got):
        out.append((f'angle-out-of-range-after-ctor-{form}-{cname}', f'{what} holds {got!r}'))
    if (o.pitch, o.yaw, o.roll) != got if fam == 'ang' else (o.x, o.y, o.z) != got:
        out.append((f'ctor-property-differs-from-slot-{form}-{cname}', f'{what}: slots {got!r}'))
    if raw is not None:
        exp = tuple(norm360(x) for x in raw) if fam == 'ang' else tuple(float(x) for x in raw)
        if hexes(exp) != hexes(got):
            if form in COPY_FORMS[fam]:
                # the argument is an existing object of the same family: the result is a copy and must hold its value
                out.append((f'{"angle" if fam == "ang" else "vec"}-ctor-wrong-value-{form}-{cname}', f'{what} holds {got!r}, the source holds {exp!r}'))
            else:
                # built from numbers: C05 states the RANGE of what an angle reports (tested above), not the bits stored
                observe(f'ctor-value-differs-from-float-{form}-{cname}', f'{what} holds {got!r}; float(x){" % 360.0 % 360.0" if fam == "ang" else ""} of the components given is {exp!r}')
        # equal to, and (frozen) hashing like, the same value built from three floats
        ref = C(*got)
        if hexes(raw_slots(ref)) == hexes(got):
            if not (o == ref) or (o != ref) or not (o == got) or not (ref == o):
                out.append((f'ctor-not-equal-to-same-value-{form}-{cname}', f'{what} == {ref!r} is false although all slots are identical'))
            if is_frozen(o) and safe_hash(o) == 'UNHASHABLE':
                observe(f'frozen-class-unhashable-{cname}', f'hash() of {what} raises TypeError')
            elif is_frozen(o) and hash(o) != hash(ref):
                out.append((f'frozen-hash-differs-for-same-value-constructed-{cname}', f'hash of {what} differs from hash({ref!r})'))
    if out:
        return out
    for pname, post in ctor_posts().items():
        try:
            with (limit or no_limit)():
                r = post(o)
        except LookupError:
            continue
        except ImplTimeout:
            return [(f'implementation-hangs-in-{pname}-{cname}', f'{pname} of {what} did not return within the CPU time limit')]
        except Exception as e:      # noqa: BLE001
            out.append((f'copy-raised-{pname}-{cname}', f'{pname} of {what} raised {type(e).__name__}: {e}'))
            continue
        frozen_res = pname in ('freeze', 'ctor_frozen') or (is_frozen(o) and pname not in ('thaw', 'ctor_mutable'))
        want = ((M.Angle, M.FrozenAngle) if fam == 'ang' else (M.Vec, M.FrozenVec))[frozen_res]
        if type(r) is not want:
            out.append((f'copy-wrong-class-{pname}-{cname}', f'{pname} of {what} is a {type(r).__name__}'))
            continue
        if raw_slots(r) != got:                     # "equal" = the same numbers (-0.0 == 0.0); every slot, exactly
            out.append((f'copy-not-equal-{pname}-{cname}', f'{pname} of {what} = {got!r} holds {raw_slots(r)!r}'))
        elif not (r == o) or (r != o) or (is_frozen(r) and is_frozen(o) and safe_hash(r) != safe_hash(o)):
            out.append((f'copy-compares-unequal-{pname}-{cname}', f'{pname} of {what}: == / hash disagree although all slots are identical'))
        if r is o and not is_frozen(o):
            out.append((f'copy-is-same-object-{pname}-{cname}', f'{pname} of {what} returned the mutable object itself'))
        elif not is_frozen(r):
            try:
                with (limit or no_limit)():
                    r2 = post(o)
            except Exception:       # noqa: BLE001 - the first call worked: reported as a copy that raises
                out.append((f'copy-raised-{pname}-{cname}', f'the second {pname} of {what} raised'))
                continue
            if r2 is r:
                out.append((f'copy-returns-object-handed-out-before-{pname}-{cname}', f'{pname} of {what} twice returned the same mutable object'))
        if raw_slots(o) != got:
            out.append((f'source-changed-by-{pname}-{cname}', f'{pname} changed {what} from {got!r} to {raw_slots(o)!r}'))
    return out


# constructor forms whose argument is an existing object of the SAME family: the result is a copy of it
COPY_FORMS = {'vec': {'vec', 'fvec', 'vec_and_defaults', 'from_str_vec'}, 'ang': {'angle', 'fangle', 'angle_and_defaults', 'from_str_angle'}}

# constructor forms that call the constructor directly with an argument of one form of Num/AngleCtor.v (None: depends on the class)
FORM_TO_ARGFORM = {'floats': 'FNumber', 'numbers': 'FNumber', 'one': 'FNumber', 'two': 'FNumber', 'kw': 'FNumber', 'pos_kw': 'FNumber',
                   'vec': 'FVec', 'fvec': 'FFrozenVec', 'angle': None, 'fangle': None, 'tuple': 'FIterable', 'list': 'FIterable',
                   'iterator': 'FIterable', 'generator': 'FIterable', 'map': 'FIterable', 'reversed': 'FIterable', 'vec_tuple': 'FIterable',
                   'deque': 'FIterable', 'array': 'FIterable', 'long4': 'FIterable', 'short1_defaults': 'FIterable', 'short2_defaults': 'FIterable'}
CTOR_CORR_CASES: list[tuple] = []


def corr_ctor_rows(ck: Ck, side: dict):
    """The generated dispatch table angle_ctor_rows with its meaning ctor_eval (Num/AngleCtor.v) against the objects the
    constructors really built in search_ctor_forms: for the row of (constructor, argument form) the three slots the model
    computes from the supplied floats (vm_compute, Flocq % 360.0) must be the slots of the object, bit for bit."""
    import srctools.math as M
    ctors = {c.split('.')[0]: c for c in side.get('angle_ctors', [])}
    cases = []
    per: dict = {}
    for cname, form, v, k in CTOR_CORR_CASES:
        af = FORM_TO_ARGFORM[form]
        if af is None:
            src = 'Angle' if form == 'angle' else 'FrozenAngle'
            af = 'FSameClass' if src == cname else 'FOtherAngle'
        if per.get((cname, af), 0) >= 45 or cname not in ctors:
            continue
        try:
            o, raw = ctor_forms()[form](getattr(M, cname), v, 'ang', k)
        except Exception:           # noqa: BLE001 - reported by the search
            continue
        supplied = [norm360(x) for x in raw] if af in ('FSameClass', 'FOtherAngle') else [float(x) for x in raw]
        got = raw_slots(o)
        if not all(type(x) is float and math.isfinite(x) for x in tuple(supplied) + tuple(got)):
            continue
        per[(cname, af)] = per.get((cname, af), 0) + 1
        cases.append((ctors[cname], af, supplied, got))
        ck.count('ctor_row_corr_cases')
        ck.hist('ctor_row_checked', f'{cname}:{af}')
    cases = cases[:500]
    if not cases:
        ck.obligation('correspondence:ctor_rows', False, 'no constructor case recorded')
        ck.tie_broken.append('correspondence ctor_rows: no cases')
        return
    t = lambda x: '(%s, %d, (%d))' % (('true' if dbl_parts(x)[0] else 'false'), dbl_parts(x)[1], dbl_parts(x)[2])
    z = lambda x: '(%d, %d, (%d))' % dbl_parts(x)
    lit = coq_list(f'("{c}"%string, {af}, ({t(sv[0])}, {t(sv[1])}, {t(sv[2])}), ({z(g[0])}, {z(g[1])}, {z(g[2])}))' for c, af, sv, g in cases)
    pre = PRE + '''Definition row_of (c : string) (f : argform) : option ctor_action :=
  match filter (fun r : ctor_row => (String.eqb (fst (fst r)) c && argform_eqb (snd (fst r)) f)%bool) angle_ctor_rows with r :: _ => Some (snd r) | [] => None end.
Definition mk3 (p : bool * Z * Z) : b64 := let '(s, m, e) := p in mk s m e.
'''
    expr = ('bad_idx (fun c : string * argform * ((bool * Z * Z) * (bool * Z * Z) * (bool * Z * Z)) * ((Z * Z * Z) * (Z * Z * Z) * (Z * Z * Z)) => '
            "let '(cn, f, sv, g) := c in let '(s1, s2, s3) := sv in let '(g1, g2, g3) := g in "
            'match row_of cn f with Some a => match ctor_eval a (mk3 s1, mk3 s2, mk3 s3) with '
            "Some (r1, r2, r3) => (t3_eqb (show r1) g1 && t3_eqb (show r2) g2 && t3_eqb (show r3) g3)%bool | None => false end | None => false end) 0%N "
            f'({lit})%Z')
    vals = (yield ([[expr]], 'ctorrows', pre))[0]
    if vals is None:
        ck.obligation('correspondence:ctor_rows', False, 'model could not be evaluated')
        ck.tie_broken.append('correspondence ctor_rows: model evaluation failed')
        return
    bad = parse_coq_N_list(vals[0])
    ck.obligation('correspondence:ctor_rows', not bad,
                  f'{len(cases)} executed constructor calls over {len(per)} (class, argument form) pairs: slots computed by Num/AngleCtor.v ctor_eval over the '
                  f'generated dispatch table vs the slots of the real object, bit for bit: {len(bad)} disagreements')
    if bad:
        ck.tie_broken.append('correspondence ctor_rows (dispatch table vs real constructors)')
        ck.extra['ctor_rows_disagreement'] = [{'ctor': cases[i][0], 'form': cases[i][1], 'supplied': hexes(cases[i][2]), 'implementation': hexes(cases[i][3])} for i in bad[:5]]


def search_ctor_forms(ck: Ck) -> None:
    """Every constructor argument form x boundary and out-of-range values x the four vector/angle classes, then every
    copy-like operation on the result (input 3 of round 4: a fast path for ONE argument form of ONE class)."""
    rng = ck.rng
    forms = list(ctor_forms())
    n = ck.budget(40, 300)
    triples: list[list] = [[s, s, s] for s in CTOR_FLOATS[:12]]
    triples += [[CTOR_FLOATS[(i + j) % len(CTOR_FLOATS)] for j in (0, 7, 19)] for i in range(len(CTOR_FLOATS))][:max(0, n // 2 - 12)]
    while len(triples) < n:
        q = rng.random()
        triples.append([rng.choice(CTOR_INTS) if q < 0.3 or (q < 0.5 and rng.random() < 0.5) else rnd_val(rng) if rng.random() < 0.5 else rng.choice(CTOR_FLOATS)
                        for _ in range(3)])
    found: dict[str, tuple] = {}
    for ti, v in enumerate(triples):
        if too_many_hangs():
            break
        for form in forms:
            for cname in ('Angle', 'FrozenAngle', 'Vec', 'FrozenVec'):
                k = (ti + len(form)) % 4
                probs = ctor_case(cname, form, v, k, impl_limit)
                if form in FORM_TO_ARGFORM and 'Angle' in cname and len(CTOR_CORR_CASES) < 4000 \
                        and not any(key.startswith(('ctor-raised', 'implementation-hangs', 'ctor-wrong-class', 'ctor-slot-not-float')) for key, _ in probs):
                    CTOR_CORR_CASES.append((cname, form, list(v), k))
                ck.count('ctor_form_cases')
                ck.hist('ctor_form', form)
                if 'Angle' in cname and any(not (0.0 <= float(x) < 360.0) or str(x) == '-0.0' for x in v):
                    ck.seen(('ctor', cname, form, repr(v), k))
                for key, what in probs:
                    if key not in found:
                        found[key] = (what, {'call': 'ctor_case', 'cls': cname, 'form': form, 'values': hexes(v), 'k': k,
                                             'how': 'checks.c05.ctor_case(cls, form, values, k)'})
    ck.sample({'ctor_case': ['FrozenAngle', 'vec', [-90.0, 720.0, -1e-14]], 'slots': hexes(raw_slots(ctor_forms()['vec'](__import__('srctools.math').math.FrozenAngle, [-90.0, 720.0, -1e-14], 'ang', 0)[0]))})
    for key, (what, rp) in found.items():
        ck.violation(key, what, rp)


# ------------------------------------------------------------------------------------------------ frozen values as keys; in-place operators
INPLACE_OPS = ('iadd', 'isub', 'imul', 'itruediv', 'ifloordiv', 'imod', 'ipow', 'imatmul', 'ilshift', 'irshift', 'iand', 'ixor', 'ior')


def inplace_case(cname: str, v: list, opname: str, argkind: str) -> list[tuple[str, str]]:
    """`x = frozen; x <op>= arg` for one operator and one kind of argument: the frozen object and the argument keep
    their value (and hash), the name is rebound to another object unless the value is the same."""
    import operator
    import srctools.math as M
    mk = {'FrozenVec': lambda: M.FrozenVec(*v), 'FrozenAngle': lambda: M.FrozenAngle(*v),
          'FrozenMatrix': lambda: M.FrozenMatrix.from_angle(*v)}[cname]
    a = mk()
    arg = {'float': 2.5, 'int': 3, 'zero': 0.0, 'tuple': (1.0, 2.0, 3.0), 'vec': M.Vec(1.0, -2.0, 0.5), 'fvec': M.FrozenVec(1.0, -2.0, 0.5),
           'angle': M.Angle(10.0, 20.0, 30.0), 'fangle': M.FrozenAngle(10.0, 20.0, 30.0), 'matrix': M.Matrix.from_yaw(45.0),
           'fmatrix': M.FrozenMatrix.from_pitch(-1e-14), 'self': a}[argkind]
    before, hb = snap(a), (safe_hash(a) if cname != 'FrozenMatrix' else None)
    arg_before = snap(arg) if hasattr(arg, '__slots__') and not isinstance(arg, tuple) else None
    out: list[tuple[str, str]] = []
    try:
        with warnings.catch_warnings():
            warnings.simplefilter('ignore')
            x = getattr(operator, opname)(a, arg)
    except (TypeError, ZeroDivisionError, ValueError, ArithmeticError):
        x = None
    what = f'x = {cname}{tuple(v)!r}; x {opname} {argkind}'
    if snap(a) != before or (hb is not None and safe_hash(a) != hb):
        out.append((f'frozen-{cname}-changed-by-inplace-{opname}', f'{what}: the frozen object went from {before[1]} to {snap(a)[1]}'))
    if arg_before is not None and arg is not a and snap(arg) != arg_before:
        out.append((f'argument-changed-by-inplace-{opname}-{cname}', f'{what}: the argument went from {arg_before[1]} to {snap(arg)[1]}'))
    if x is not None and not isinstance(x, tuple) and (isvec(x) or isang(x) or ismat(x)):
        if isang(x) and finite_obj(x) and not all(0.0 <= c < 360.0 for c in raw_slots(x)):
            out.append((f'angle-out-of-range-after-inplace-{opname}-{cname}', f'{what} gives {raw_slots(x)!r}'))
        if x is a and False:
            pass
    return out


def search_frozen_keys(ck: Ck) -> None:
    """(1) hash/==: the same value reached by different routes hashes and compares equal and is found in a dict/set; the hash
    of a frozen object is the same after reading operations; mutable classes are unhashable.  == within the tolerance
    but different hashes is reported under its own key (inherent to a tolerance equality; known finding).
    (2) every in-place operator on every frozen class with every kind of argument."""
    import srctools.math as M
    rng = ck.rng
    found: dict[str, tuple] = {}
    for o in (M.Vec(1, 2, 3), M.Angle(1, 2, 3), M.Matrix()):
        try:
            hash(o)
            observe(f'mutable-class-hashable-{type(o).__name__}', f'hash({o!r}) works although the value can change')
        except TypeError:
            pass
    n = ck.budget(400, 4000)
    for i in range(n):
        if too_many_hangs():
            break
        q = rng.random()
        if i < len(CTOR_FLOATS):
            v = [CTOR_FLOATS[i], CTOR_FLOATS[(i * 7 + 3) % len(CTOR_FLOATS)], CTOR_FLOATS[(i * 5 + 1) % len(CTOR_FLOATS)]]
        elif q < 0.4:       # around the rounding boundaries of round(x, 6) and the tolerance of ==
            v = [nextafter_n(rng.randint(-10 ** 6, 10 ** 6) / 10 ** rng.choice([0, 3, 6]) + rng.choice([0.0, 5e-7, -5e-7, 1e-6, 4.9e-7]), rng.randint(-2, 2)) for _ in range(3)]
        else:
            v = [rnd_val(rng) for _ in range(3)]
        for cls in (M.FrozenVec, M.FrozenAngle):
            with impl_limit():
                a = cls(*v)
                if not finite_obj(a):
                    continue
                try:
                    hash(a)
                except TypeError as e:
                    observe(f'frozen-class-unhashable-{cls.__name__}', f'hash({a!r}) raises {e}')
                    continue
                ck.count('hash_cases')
                if any(c != round(c) for c in raw_slots(a)):
                    ck.seen(('hash', cls.__name__, tuple(hexes(v))))
                h0, s0 = hash(a), raw_slots(a)
                makers = {'components': lambda: cls(*a), 'pickle': lambda: pickle.loads(pickle.dumps(a)), 'thaw_freeze': lambda: a.thaw().freeze(),
                          'from_mutable': lambda: cls(a.thaw()), 'iterator': lambda: cls(iter(a)), 'deepcopy_of_thawed': lambda: cls(copy.deepcopy(a.thaw())),
                          'from_str_object': lambda: cls.from_str(a)}
                routes = {}
                for rname, mk in makers.items():
                    try:
                        routes[rname] = mk()
                    except Exception as e:      # noqa: BLE001 - none of these may fail for a finite frozen value
                        found.setdefault(f'frozen-route-raised-{rname}-{cls.__name__}', (f'{rname} of {a!r} raised {type(e).__name__}: {e}',
                                                                                       {'call': 'hash_route', 'cls': cls.__name__, 'values': hexes(v), 'route': rname}))
                if 'pickle' not in routes:
                    continue
                for rname, b in routes.items():
                    if hexes(raw_slots(b)) != hexes(s0):
                        continue                      # a different value: reported by the constructor / copy oracles
                    if hash(b) != h0 or not (a == b) or (a != b) or {a: 1}.get(b) != 1 or b not in {a} or a not in frozenset([b]):
                        found.setdefault(f'frozen-hash-differs-for-same-value-{rname}-{cls.__name__}',
                                         (f'{a!r} and the same value by {rname}: hash {h0} / {hash(b)}, == {a == b}', {'call': 'hash_route', 'cls': cls.__name__, 'values': hexes(v), 'route': rname}))
                # reading operations leave value and hash alone
                reads = [str, repr, lambda o: o.join(';'), lambda o: format(o, '.2f'), list, lambda o: o.thaw(), lambda o: o == routes['pickle'],
                         lambda o: o == tuple(o), lambda o: o @ M.Angle(10, 20, 30), lambda o: o * 2]
                if isvec(a):
                    reads += [bool, lambda o: -o, abs, lambda o: o + o, lambda o: o - (1, 2, 3), lambda o: o.norm(), lambda o: o.mag(), lambda o: o.to_angle(),
                              lambda o: o.cross(o), lambda o: o.dot(o), lambda o: round(o, 3), lambda o: divmod(o, 7.0), lambda o: o.rotate_by_str('0 90 0') if hasattr(o, 'rotate_by_str') else None]
                else:
                    reads += [lambda o: M.Matrix.from_angle(o), lambda o: 3 * o, lambda o: o.as_tuple(), lambda o: reversed(o)]
                for rd in reads:
                    try:
                        with warnings.catch_warnings():
                            warnings.simplefilter('ignore')
                            rd(a)
                    except (OverflowError, ZeroDivisionError, ValueError, ArithmeticError):
                        pass
                if hash(a) != h0 or hexes(raw_slots(a)) != hexes(s0):
                    found.setdefault(f'frozen-{cls.__name__}-changed-by-reading', (f'{cls.__name__}{tuple(v)!r}: slots {hexes(s0)} -> {hexes(raw_slots(a))}, hash {h0} -> {hash(a)}',
                                                                                  {'call': 'hash_read', 'cls': cls.__name__, 'values': hexes(v)}))
                # == implies equal hashes (Python's contract for keys)
                for d in (0.0, 1e-7, 4e-7, -6e-7, 9.9e-7):
                    b = cls(s0[0] + d, s0[1], s0[2] - d)
                    if finite_obj(b) and a == b and hash(a) != hash(b):
                        ck.hist('eq_but_hash_differs', cls.__name__)
                        if hexes(raw_slots(b)) == hexes(s0):
                            found.setdefault(f'frozen-hash-differs-for-same-value-shift-{cls.__name__}', (f'{a!r} twice: different hashes', {'call': 'hash_eq', 'cls': cls.__name__, 'values': hexes(v), 'd': d}))
                        else:
                            # An observation, not a violation: C05 says nothing about hashes of *different* values that the
                            # tolerant == (1e-6 per component) calls equal; the hash rounds to six places, so two values on either
                            # side of a rounding boundary compare equal and hash differently. Recorded in the evidence only
                            # (histogram 'eq_but_hash_differs' above and one note); the integrator removed the three known-finding
                            # entries a builder had filed for this and for format(v, '.Nf') printing '-0' (DESIGN.md 11.3).
                            note = (f'observation (outside C05): {cls.__name__}{s0!r} == {cls.__name__}{raw_slots(b)!r} under the 1e-6 '
                                    f'tolerance of ==, but their hashes differ')
                            if not any(n.startswith('observation (outside C05): ' + cls.__name__) for n in ck.notes):
                                ck.notes.append(note)
    # in-place operators
    m = ck.budget(3, 12)
    for j in range(m):
        v = [rnd_val(rng) for _ in range(3)] if j else [-1e-14, 90.0, 359.99999999999994]
        for cname in ('FrozenVec', 'FrozenAngle', 'FrozenMatrix'):
            for opname in INPLACE_OPS:
                for argkind in ('float', 'int', 'zero', 'tuple', 'vec', 'fvec', 'angle', 'fangle', 'matrix', 'fmatrix', 'self'):
                    ck.count('inplace_cases')
                    ck.hist('inplace_op', opname)
                    try:
                        with impl_limit():
                            probs = inplace_case(cname, v, opname, argkind)
                    except ImplTimeout:
                        probs = [(f'implementation-hangs-in-inplace-{opname}-{cname}', f'{cname} {opname} {argkind} did not return')]
                    for key, what in probs:
                        found.setdefault(key, (what, {'call': 'inplace_case', 'cls': cname, 'values': hexes(v), 'op': opname, 'arg': argkind,
                                                      'how': 'checks.c05.inplace_case(cls, values, op, arg)'}))
    for key, (what, rp) in found.items():
        ck.violation(key, what, rp)


# ------------------------------------------------------------------------------------------------ __format__ with a user spec
FORMAT_SPECS = ['.0f', '.1f', '.2f', '.3f', '.6f', '.7f', '.9f', '.12f', 'f', 'F', 'e', 'E', '.0e', '.1e', '.3e', '.10e', 'g', 'G', '.1g', '.3g', '.10g', '.17g',
                '.3', '.12', '.2%', '.0%', ',.2f', '_.3f', '+.3f', ' .2f', '10.2f', '<10.3f', '>12.4f', '^9.1f', '010.3f', '+.2e', '#.3g', '012.4e']


def spec_number(t: str) -> float | None:
    """The number a formatted component denotes (padding, thousands separators, a percent sign removed)."""
    t = t.strip().replace(',', '').replace('_', '')
    pct = t.endswith('%')
    try:
        from fractions import Fraction
        v = Fraction(t[:-1] if pct else t)
        return float(v / 100 if pct else v)
    except (ValueError, ZeroDivisionError):
        return None


def format_spec_case(cname: str, v: list, spec: str) -> list[tuple[str, str]]:
    """format(obj, spec): three components, each denoting exactly the number Python's format() of that component denotes
    (the zero stripping must not change a value); an empty spec is str(); '.Nf' output is plain and never '-0'."""
    import srctools.math as M
    o = getattr(M, cname)(*v)
    comps = raw_slots(o)
    fam = 'angle' if isang(o) else 'vec'
    kind = re.sub(r'[^a-zA-Z%]', '', spec) or 'general'
    txt = format(o, spec)
    out: list[tuple[str, str]] = []
    if format(o, '') != str(o) or f'{o}' != str(o):
        out.append((f'{fam}-format-empty-spec-differs-from-str', f'format({o!r}, "") = {format(o, "")!r}, str = {str(o)!r}'))
    padded = bool(re.match(r'.?[<>^=]|0?\d', spec)) or spec.startswith(' ')
    parts = txt.split(' ') if not padded else None
    if padded:
        # with padding the components contain spaces: compare the numbers found
        parts = re.findall(r'[-+]?[0-9][0-9,_]*\.?[0-9]*(?:[eE][-+]?[0-9]+)?%?|[-+]?\.[0-9]+(?:[eE][-+]?[0-9]+)?%?', txt)
    if len(parts) != 3:
        return out + [(f'{fam}-format-spec-{kind}-not-three-numbers', f'format({o!r}, {spec!r}) = {txt!r}')]
    for c, t in zip(comps, parts):
        want = spec_number(format(c + 0.0, spec))
        got = spec_number(t)
        if want is None:
            continue
        if got is None or got != want:
            out.append((f'{fam}-format-spec-{kind}-changes-value', f'format({o!r}, {spec!r}) = {txt!r}: component {c!r} is written {t!r}, format() of the float gives {format(c + 0.0, spec)!r}'))
            break
        if re.fullmatch(r'\.\d+f', spec) and not padded:
            if t == '-0':
                # An observation, not a violation: the property's "never '-0'" is about the string form (str/repr/join), which
                # has no user format spec; format(v, '.3f') follows Python's format() of the float, which keeps the sign.
                continue
            if not re.fullmatch(r'-?[0-9]+(\.[0-9]*[1-9])?', t):
                # An observation as well: that __format__ strips trailing zeros is today's behaviour, not a clause of C05
                # (the value it denotes is compared above).
                observe(f'{fam}-format-spec-f-not-plain', f'format({o!r}, {spec!r}) = {txt!r}: {t!r} is not a plain decimal without trailing zeros')
    return out


def search_format_spec(ck: Ck) -> None:
    rng = ck.rng
    n = ck.budget(150, 1500)
    found: dict[str, tuple] = {}
    special = [1.5e20, 1e10, 2.5e-10, 100.0, 0.5, -1e-9, 1e100, 1234567.0, 0.0001, 1e-5, 120.0, 1e22, 5e-324, 100000.0, 1e6, 1e16, -0.0, 359.9999995]
    for i in range(n):
        if too_many_hangs():
            break
        if i < len(special):
            v = [special[i], special[(i + 5) % len(special)], special[(i + 11) % len(special)]]
        else:
            v = [gen_fmt_double(rng)[1] if rng.random() < 0.6 else rng.choice(special) * rng.choice([1, 10, 100, 1000, -1]) for _ in range(3)]
        if not all(math.isfinite(x) and abs(x) < 1e300 for x in v):
            continue
        for cname in ('Vec', 'FrozenVec', 'Angle', 'FrozenAngle'):
            specs = FORMAT_SPECS if i < len(special) else rng.sample(FORMAT_SPECS, 6)
            for spec in specs:
                ck.count('format_spec_cases')
                ck.hist('format_spec', spec)
                try:
                    with impl_limit():
                        probs = format_spec_case(cname, v, spec)
                except ImplTimeout:
                    probs = [(f'implementation-hangs-in-format-{cname}', f'format({cname}{tuple(v)!r}, {spec!r}) did not return')]
                except Exception as e:      # noqa: BLE001
                    probs = [(f'format-spec-raised-{cname}', f'format({cname}{tuple(v)!r}, {spec!r}) raised {type(e).__name__}: {e}')]
                if any('e' in format(c + 0.0, spec).lower() for c in v):
                    ck.seen(('fspec', cname, spec, tuple(hexes(v))))
                for key, what in probs:
                    found.setdefault(key, (what, {'call': 'format_spec_case', 'cls': cname, 'values': hexes(v), 'spec': spec,
                                                  'how': 'checks.c05.format_spec_case(cls, values, spec)'}))
    for key, (what, rp) in found.items():
        ck.violation(key, what, rp)


def theorems_with_axioms(ck: Ck, props_file: str = 'Props/C05.v'):
    """Starts the Print Assumptions pass in the background (it only reads the built .vo files and costs ~30 s through
    Flocq/Reals); the returned function waits for it and records the obligations.  A background job that could not run
    (thread or process limits on a loaded machine) is repeated once in the foreground, one coqc at a time."""
    import threading
    box: list = []
    err: list = []

    def job() -> None:
        try:
            box.append(_theorems_job(ck, props_file, 4))
        except BaseException as e:          # noqa: BLE001 - reported below
            err.append(repr(e))
    try:
        th = threading.Thread(target=job, daemon=True)
        th.start()
    except RuntimeError as e:
        th = None
        err.append(repr(e))

    def finish() -> None:
        if th is not None:
            th.join()
        if not box or any(rc != 0 for rc, _ in box[0][2]):      # (a failed fast path has already fallen back to the detailed pass)
            first = err[:] + ([out[-300:] for rc, out in box[0][2] if rc != 0] if box else [])
            try:
                box[:] = [_theorems_job(ck, props_file, 1)]
                ck.extra['print_assumptions_retried'] = first
            except Exception as e:          # noqa: BLE001
                err.append(repr(e))
                box.clear()
        if not box:
            ck.obligation(f'assumptions:{props_file}', False, 'Print Assumptions job could not run: ' + '; '.join(err)[:1500])
            ck.tie_broken.append(f'Print Assumptions failed for {props_file}')
            return
        _theorems_record(ck, props_file, *box[0])
    return finish


# statements of Props/C05.v that go through Flocq's real-number layer (the four classical axioms of Coq's Reals); every other
# statement is expected to be closed under the global context.  Only a hint for the fast path below: if it is wrong in
# either direction the per-statement pass runs and reports what Print Assumptions really says.
REALS_THEOREMS = {'c05_property', 'c05_range_after_interrupted_call', 'c05_ctor_range', 'c05_ctor_vec_copy_refuted', 'c05_norm360_range', 'c05_single_mod_closed', 'c05_single_mod_refuted', 'c05_angle_range_invariant', 'c05_single_site_refuted',
                  'c05_double360_id', 'c05_double360_idempotent', 'c05_double360_of_360', 'c05_within_5e7_R', 'c05_float_parse_error',
                  'c05_float_parse_exact', 'c05_copy_value_equal_angles', 'c05_double360_sub', 'c05_angle_component_roundtrip',
                  'c05_angle_text_roundtrip', 'c05_vec_text_roundtrip'}
ALLOWED_AXIOMS = {'ClassicalDedekindReals.sig_forall_dec', 'ClassicalDedekindReals.sig_not_dec', 'FunctionalExtensionality.functional_extensionality_dep',
                  'Classical_Prop.classic'}


def _assumption_blocks(out: str) -> list[list[str]]:
    blocks: list[list[str]] = []
    for line in out.splitlines():
        if line.startswith('Closed under the global context'):
            blocks.append([])
        elif line.startswith('Axioms:'):
            blocks.append([])
        elif blocks and line and not line[0].isspace():
            m = re.match(r"([A-Za-z_][A-Za-z0-9_.']*)", line)
            if m:
                blocks[-1].append(m.group(1))
    return blocks


def _theorems_job(ck: Ck, props_file: str, workers: int = 4):
    """Print Assumptions walks the whole dependency cone again for every statement (seconds each below Flocq/Reals).
    Fast path: two passes over TUPLES of statements - the group expected to be closed must be closed as a whole (then
    every member is), the group that uses Flocq's reals must depend on nothing but the four Reals axioms (then no
    member does).  If either expectation fails, or a statement is in neither reading, the exact per-statement pass
    runs (dealt round-robin to four coqc processes, blocks put back in source order)."""
    from concurrent.futures import ThreadPoolExecutor
    from harness.common import ROCQ
    names = re.findall(r'^\s*(?:Theorem|Lemma|Corollary)\s+([A-Za-z0-9_\']+)', (ROCQ / props_file).read_text(), re.M)
    closed = [n for n in names if n not in REALS_THEOREMS]
    reals = [n for n in names if n in REALS_THEOREMS]

    def group(tag: str, members: list[str]):
        if not members:
            return 0, 'Closed under the global context\n'
        body = f'Require Import SV.Props.C05.\nDefinition c05_group_{tag} := ({", ".join(members)}).\nPrint Assumptions c05_group_{tag}.\n'
        try:
            return ck.coq_scratch(body, f'assumptions_group_{tag}')
        except Exception as e:          # noqa: BLE001
            return 1, repr(e)
    if workers > 1:
        with ThreadPoolExecutor(max_workers=2) as ex:
            (rc1, o1), (rc2, o2) = list(ex.map(lambda a: group(*a), [('closed', closed), ('reals', reals)]))
    else:
        (rc1, o1), (rc2, o2) = group('closed', closed), group('reals', reals)
    if rc1 == 0 and rc2 == 0:
        b1, b2 = _assumption_blocks(o1), _assumption_blocks(o2)
        if len(b1) == 1 and len(b2) == 1 and not b1[0] and set(b2[0]) <= ALLOWED_AXIOMS:
            # one part per group, in the format of the detailed pass: every member gets the verdict of its group
            return names, [closed, reals], [(0, ''.join('Closed under the global context\n' for _ in closed)),
                                            (0, ''.join('Axioms:\n' + '\n'.join(b2[0]) + '\n' for _ in reals))], 'grouped'
    parts = [names[i::4] for i in range(4)]

    def one(i: int):
        body = 'Require Import SV.Props.C05.\n' + ''.join(f'Print Assumptions {n}.\n' for n in parts[i])
        try:
            return ck.coq_scratch(body, f'assumptions_full{i}')
        except Exception as e:          # noqa: BLE001 - reported as a failed obligation
            return 1, repr(e)
    if workers <= 1:
        res = [one(i) for i in range(4)]
    else:
        with ThreadPoolExecutor(max_workers=workers) as ex:
            res = list(ex.map(one, range(4)))
    return names, parts, res, 'per statement'


def _theorems_record(ck: Ck, props_file: str, names: list[str], parts: list[list[str]], res: list[tuple[int, str]], how: str = 'per statement') -> None:
    """Same job as Ck.theorems() - one `theorem:<name>` obligation per statement of the Props file with its Print
    Assumptions result - with a parser that also understands axioms whose type is printed on the following line (the
    Reals axioms are)."""
    by_name: dict[str, list[str]] = {}
    for part, (rc, out) in zip(parts, res):
        if rc != 0:
            ck.obligation(f'assumptions:{props_file}', False, out[-2000:])
            ck.tie_broken.append(f'Print Assumptions failed for {props_file}')
            return
        blocks = _assumption_blocks(out)
        if len(blocks) != len(part):
            ck.obligation(f'assumptions:{props_file}', False, f'{len(part)} statements but {len(blocks)} Print Assumptions blocks')
            ck.tie_broken.append(f'Print Assumptions output not understood for {props_file}')
            return
        by_name.update(zip(part, blocks))
    blocks = [by_name[n] for n in names]
    ck.extra['print_assumptions_mode'] = how
    for n, b in zip(names, blocks):
        ck.axioms[n] = b
        extra = [a for a in b if a not in ALLOWED_AXIOMS]
        if how == 'grouped':
            what = 'none (closed under the global context; checked on the tuple of all such statements)' if not b else \
                'no other than ' + ', '.join(b) + ' (Print Assumptions of the tuple of the statements that use Flocq reals)'
        else:
            what = 'none (closed under the global context)' if not b else ', '.join(b)
        ck.obligation(f'theorem:{n}', not extra, 'Qed; axioms: ' + what + (f' -- NOT ALLOWED: {extra}' if extra else ''))


# ------------------------------------------------------------------------------------------------ main
def run(ck: Ck) -> None:
    ck.rule = ('mod360: doubles from all binades / around multiples of 360 / subnormals / tiny negatives, non-trivial = the modulo changed '
               'the value, distinct by bit pattern; format: doubles incl. exact ties k/128, tiny values, boundaries, non-trivial = output has a '
               'fraction or a sign; histories: random operation sequences (66 operation kinds, one of them = 68 calls that must be refused: error paths) over registers of Vec/Angle/Matrix and frozen '
               'twins, non-trivial = some register changed while a frozen register exists, distinct by full history; to_angle routes: '
               'non-trivial = a tiny non-zero operand; parse: corpus + generated strings (three formatted/literal/exotic numbers, 0-5 fields, '
               'stray brackets, 18 kinds of Unicode whitespace and look-alikes, all bracket styles incl. wrong ones), non-trivial = the model '
               'predicts three decimal fields, distinct by text; constructor forms: 43 ways of building an object from three numbers x 4 classes x '
               'value triples from 32 boundary/out-of-range floats and 16 ints, then 19 copy-like operations (each mutable result taken twice: two objects), non-trivial = an angle class and a '
               'component outside [0,360) or -0.0, distinct by (class, form, values); hash: frozen values by seven routes, values around the '
               'rounding boundaries of round(x, 6), non-trivial = a non-integer component; in-place: 13 operators x 3 frozen classes x 11 kinds of '
               'argument; format specs: 38 specs x 4 classes, non-trivial = some component prints with an exponent')
    ck.trusted.append('hand-written models Num/Mod360.v (CPython float_rem on binary64), Num/Dec6.v (printf %.6f + rstrip), Num/VecText.v '
                      '(str.strip/split, bracket removal, plain-decimal reader), SM/FrozenOps.v + SM/FrozenCopy.v + SM/FrozenCopyValue.v '
                      '(frame, result aliasing, slot transfer of copies) - tied by differential runs on every execution; Num/AngleText.v '
                      'dy_of (proved equal to the (sign, mantissa, exponent) interface of the correspondences); translate/c05_sites.py; '
                      'Flocq 4 library')
    ck.assumptions += ['operands of % 360 are finite doubles (no overflow to inf/nan inside Angle arithmetic)',
                       'C printf("%.6f") and float() are correctly rounded (IEEE 754 round-half-even); float() of a plain decimal is checked against '
                       'the exactly rounded Fraction on every parse case',
                       'only the public API is used (no writes to underscore slots, no direct calls of dunder/underscore helpers)',
                       "Python's format(float, spec) is taken as given: only what __format__ does to its output is modelled",
                       'a call into the implementation that uses more than 20 s of CPU time is treated as not terminating']
    OBSERVATIONS.clear()
    ok_t = ck.translate('AngleSites_gen', c05_sites.translate)
    side = ck.extra.get('translated', {}).get('AngleSites_gen', {})
    built = ok_t and ck.build(['Gen/AngleSites_gen.vo', 'Props/C05.vo'])
    finish_theorems = None
    if built:
        finish_theorems = theorems_with_axioms(ck)
        empty = lambda e: f'match {e} with nil => true | _ => false end'
        res = ck.instance_obligations(IMPORTS, {
            'all_angle_store_sites_safe': 'all_sites_safe angle_sites',
            'no_single_modulo_store': empty('sites_of_kind is_single angle_sites'),
            'no_unclassified_angle_store': empty('sites_of_kind is_other angle_sites'),
            'no_unclassified_angle_creation': 'all_creations_ok angle_creations',
            'angle_constructors_normalise_every_argument_form': 'ctor_table_ok angle_ctors angle_ctor_rows',
            'to_angle_stores_all_slots': 'to_angle_stores_all_slots',
            'angle_init_stores_all_slots': 'angle_init_stores_all_slots',
            'format_float_pipeline_recognised': 'format_float_recognised',
            'format_float_exact_zero_has_no_sign': 'zero_sign_ok format_float_cfg',
            'parse_vec_str_recognised': 'parse_vec_recognised',
            'parse_vec_str_pipeline_ok': 'pcfg_ok parse_vec_cfg',
            'parse_vec_str_accepts_documented_brackets': 'accepts_documented_brackets parse_vec_cfg',
            'parse_vec_str_passes_objects_through': 'parse_passes_objects_through',
            'from_str_of_vectors_uses_parse_vec_str': 'vec_from_str_uses_parse',
            'from_str_of_angles_uses_parse_vec_str': 'angle_from_str_uses_parse',
            'format_float_places_is_6': 'N.eqb (places format_float_cfg) 6',
            'format_float_strips_zeros': 'strips format_float_cfg',
            'format_float_pipeline_ok_up_to_negative_zero': 'cfg_base_ok format_float_cfg',
            'str_and_join_use_format_float': 'str_uses_format_float',
            'format_with_spec_recognised': 'format_spec_recognised',
            'format_with_empty_spec_is_str': 'format_spec_empty_is_str',
            'format_with_spec_strips_zeros_of_fixed_point_text_only': '(spec_cfg_ok vec_spec_cfg && spec_cfg_ok angle_spec_cfg)%bool',
            'mutation_census_ok': 'table_ok mut_events no_carve',
            'copy_results_new_or_frozen_self': 'copy_results_ok result_kinds',
            'copy_protocol_present_on_all_six_classes': 'copy_methods_present result_kinds',
            'copy_methods_write_nothing': 'no_copy_events mut_events',
            'copy_shapes_keep_every_slot_value': 'copy_shapes_ok copy_shapes',
            'copy_shapes_agree_with_result_kinds': 'shapes_agree result_kinds copy_shapes',
            'census_fresh_by_name_justified': 'fresh_names_ok fresh_by_name',
            'hash_is_a_function_of_all_slots_of_a_frozen_value': 'hash_table_ok hash_kinds',
            'no_inplace_operator_on_a_class_of_frozen_objects': 'inplace_ok inplace_rows',
            'eq_compares_every_slot_and_accepts_identical_values': 'eq_table_ok eq_shapes',
            'ne_is_the_negation_of_eq': 'ne_is_negation_of_eq',
            'no_state_kept_between_calls': 'no_shared_state shared_state',
            'whole_property_hypotheses_hold': 'c05_source_ok {| s_sites := angle_sites; s_creations := angle_creations; s_ctors := angle_ctors; '
                                              's_ctor_rows := angle_ctor_rows; s_events := mut_events; s_results := result_kinds; s_shapes := copy_shapes; '
                                              's_hash := hash_kinds; s_inplace := inplace_rows; s_eq := eq_shapes; s_shared := shared_state; s_fmt := format_float_cfg; s_parse := parse_vec_cfg; '
                                              's_vspec := vec_spec_cfg; s_aspec := angle_spec_cfg |}',
            'no_write_through_unknown_or_aliased_object': 'forallb (fun e : mut_event => match snd (fst e) with Unknown | MaybeAlias | Param => helper (snd (fst (fst e))) | _ => true end) mut_events',
        })
        if not all(res.values()):      # a premise of the theorems no longer holds for today's source: escalate the search
            ck.tie_broken.append('instance obligations failed: ' + ', '.join(k for k, ok in res.items() if not ok))
    from concurrent.futures import ThreadPoolExecutor
    with ThreadPoolExecutor(max_workers=8) as pool:
        # the model evaluations (coqc processes) run in the pool while the searches on the implementation run here
        pend = [Pending(ck, g(ck), pool) for g in (corr_mod, corr_format, corr_parse)] if built else []
        if built:
            pend.append(Pending(ck, corr_format_spec(ck, side), pool))
        info = pool.submit(ck.coq_eval, IMPORTS, ['bad_events no_carve mut_events', 'bad_results result_kinds', 'bad_creations angle_creations',
                                                  'neg_zero_fix format_float_cfg', 'bad_shapes copy_shapes', 'bad_ctor_rows angle_ctor_rows', 'bad_hash_rows hash_kinds', 'bad_eq_rows eq_shapes', 'hash_conventions hash_kinds'], 'info', 600, 'Import ListNotations.') if built else None
        escalated = bool(ck.tie_broken)
        frames = guarded(ck, search_histories, [])
        if built:
            pend.append(Pending(ck, corr_frames(ck, frames), pool))
            corr_results(ck, frames, side)
            corr_shapes(ck, frames, side)
        guarded(ck, search_to_angle)
        CTOR_CORR_CASES.clear()
        guarded(ck, search_ctor_forms)
        if built:
            pend.append(Pending(ck, corr_ctor_rows(ck, side), pool))
        guarded(ck, search_frozen_keys)
        guarded(ck, search_format_spec)
        guarded(ck, search_text)
        for p in pend:
            p.finish()
        v = info.result() if info is not None else None
        if v:
            ck.extra['offending_census_entries'] = {'mut_events': v[0], 'result_kinds': v[1], 'angle_creations': v[2], 'copy_shapes': v[4],
                                                     'angle_ctor_rows (constructor, argument form)': v[5], 'hash_kinds': v[6], 'eq_shapes': v[7]}
            ck.extra['format_float_has_negative_zero_repair (carve-out of c05_format6_shape empty when true)'] = v[3]
            # an observation, not an obligation: C05 does not state which classes are hashable
            ck.extra['observation: hash_conventions (mutable classes unhashable, FrozenVec/FrozenAngle hash by value)'] = v[8]
            if str(v[8]).strip() != 'true':
                ck.notes.append('observation (outside C05): the hash conventions of the pinned tree no longer hold (a mutable class is hashable, '
                                'or FrozenVec/FrozenAngle is not): hash_conventions hash_kinds = ' + str(v[8]).strip())
        if finish_theorems is not None:
            finish_theorems()
    if ck.tie_broken and not escalated:
        # a correspondence failed after the searches had run with the small budget: search again with the escalated one
        guarded(ck, search_histories)
        guarded(ck, search_to_angle)
        guarded(ck, search_ctor_forms)
        guarded(ck, search_frozen_keys)
        guarded(ck, search_format_spec)
        guarded(ck, search_text)
    for key in sorted(OBSERVATIONS)[:12]:
        ck.hist('observations_outside_the_property', key)
        ck.notes.append(f'observation (outside C05) {key}: {OBSERVATIONS[key]}'[:400])
    explain_failures(ck)


def guarded(ck: Ck, search, default=None):
    """Run one search; an exception that escapes from the implementation inside it (a broken tree can raise anywhere)
    is a failing input of its own: reported as a violation whose replay is the search with this seed (and as a failed
    obligation of the check when it was raised by the check itself) instead of ending the run with an internal error."""
    try:
        return search(ck)
    except Exception as e:          # noqa: BLE001
        import traceback
        tb = traceback.extract_tb(e.__traceback__)
        impl = next((fr for fr in reversed(tb) if '/srctools/' in fr.filename), None)
        where = f'{impl.name} ({impl.filename.rsplit("/", 1)[-1]}:{impl.lineno})' if impl else 'the check'
        ck.obligation(f'search:{search.__name__}_completed', False, f'{type(e).__name__}: {e} raised in {where}')
        ck.tie_broken.append(f'{search.__name__} stopped by {type(e).__name__} in {where}')
        if impl is not None:
            ck.violation(f'implementation-raised-{type(e).__name__}-in-{impl.name}', f'{type(e).__name__}: {e} raised in {where} during {search.__name__}; '
                         + ' <- '.join(f'{fr.name}:{fr.lineno}' for fr in reversed(tb[-6:])),
                         {'search': search.__name__, 'seed': ck.seed, 'tier': ck.tier, 'how': f'./check C05 --tier {ck.tier} with VERIF_SEED={ck.seed}: checks.c05.{search.__name__}'})
            ck.explain(f'search:{search.__name__}_completed')
        return default


def explain_failures(ck: Ck) -> None:
    """Failed obligations are explained only by a concrete, replayable violation of the matching kind (a KNOWN '-0'
    finding explains nothing: it leaves no obligation failing)."""
    keys = {v['key'] for v in ck.violations}
    text = [k for k in keys if k.startswith(('format-float-', 'vec-str-', 'angle-str-', 'vec-join-', 'vec-repr-', 'angle-join-', 'angle-repr-')) and not k.endswith('-negative-zero')]
    if text:
        for o in ('instance:format_float_pipeline_recognised', 'instance:format_float_pipeline_ok_up_to_negative_zero',
                  'instance:format_float_places_is_6', 'instance:format_float_strips_zeros', 'instance:str_and_join_use_format_float',
                  'correspondence:format6'):
            ck.explain(o)
        if any(o['name'] == 'instance:format_float_pipeline_recognised' and not o['ok'] for o in ck.obligations):
            ck.explain('instance:format_float_exact_zero_has_no_sign')     # all flags are off for an unrecognised pipeline
        if any('format_float' in o['detail'] or '__str__' in o['detail'] or 'join' in o['detail'] or '__repr__' in o['detail']
               for o in ck.obligations if o['name'].startswith('translate:') and not o['ok']):
            ck.explain('translate:')       # the translator failed closed on a text method and the search shows the broken output
    if any('-format-spec-' in k or '-format-empty-spec' in k or k.startswith('format-spec-raised') for k in keys if not k.endswith('format-spec-negative-zero')):
        ck.explain('instance:format_with_')
        ck.explain('correspondence:format_spec')
    if any(k.endswith('negative-zero-outside-carve-out') for k in keys):
        ck.explain('instance:format_float_exact_zero_has_no_sign')
        ck.explain('correspondence:format6')
    if any(k.startswith(('vec-from-str', 'angle-from-str', 'parse-vec-str')) for k in keys):
        for o in ('instance:parse_vec_str_', 'instance:from_str_', 'correspondence:parse_vec_str'):
            ck.explain(o)
        # a text that does not read back can equally come from the writing side (a component printed with fewer places
        # is still a plain decimal): the round-trip replay shows it
        ck.explain('instance:str_and_join_use_format_float')
    if any(k.startswith(('angle-360-', 'angle-out-of-range', 'angle-slot-missing')) for k in keys):
        for o in ('instance:all_angle_store_sites_safe', 'instance:no_single_modulo_store', 'instance:no_unclassified_angle_store',
                  'instance:no_unclassified_angle_creation', 'instance:to_angle_stores_all_slots', 'instance:angle_init_stores_all_slots'):
            ck.explain(o)
    if any(k.startswith(('angle-out-of-range-after-ctor', 'angle-ctor-wrong-value', 'ctor-', 'angle-out-of-range-after-iter_ctor',
                         'angle-out-of-range-after-new_', 'angle-out-of-range-after-ctor_')) for k in keys):
        ck.explain('instance:angle_constructors_normalise_every_argument_form')
        ck.explain('correspondence:ctor_rows')
    if any(k.startswith(('angle-out-of-range-after-ctor-from_str', 'angle-out-of-range-after-ang_from_str', 'ctor-raised-from_str')) for k in keys):
        ck.explain('instance:from_str_of_angles_uses_parse_vec_str')        # from_str hands out an angle that did not go through the parse + constructor chain
    if any(k.startswith('angle-ctor-wrong-value') for k in keys):
        for o in ('instance:all_angle_store_sites_safe', 'instance:no_single_modulo_store', 'instance:no_unclassified_angle_store'):
            ck.explain(o)
    if any(k.startswith(('frozen-', 'frozenmatrix-', 'non-receiver-')) for k in keys):
        ck.explain('instance:mutation_census_ok')
        ck.explain('instance:no_write_through_unknown_or_aliased_object')
        ck.explain('instance:census_fresh_by_name_justified')
        ck.explain('correspondence:frames')
    if any(k.startswith(('copy-returns-object-handed-out-before', 'copy-is-same-object', 'copy-not-equal', 'source-changed-by', 'copy-raised', 'raised-', 'frozen-route-raised', 'copy-wrong-class')) for k in keys):
        ck.explain('instance:copy_')
        ck.explain('instance:no_state_kept_between_calls')
        ck.explain('correspondence:results')
        ck.explain('correspondence:copy_shapes')
    if any(k.startswith('copy-returns-object-handed-out-before') for k in keys):
        # a cache: the store into it is what the mutation census and the creation census see
        for o in ('instance:mutation_census_ok', 'instance:no_write_through_unknown_or_aliased_object', 'instance:no_unclassified_angle_creation',
                  'instance:census_fresh_by_name_justified', 'correspondence:frames'):
            ck.explain(o)
    if any(k.startswith(('copy-compares-unequal', 'ctor-not-equal-to-same-value')) for k in keys):
        ck.explain('instance:eq_compares_every_slot_and_accepts_identical_values')
        ck.explain('instance:ne_is_the_negation_of_eq')
    if any(k.startswith(('frozen-hash-differs', 'frozen-class-unhashable', 'mutable-class-hashable')) or k.endswith('-changed-by-reading') for k in keys):
        ck.explain('instance:hash_is_a_function_of_all_slots_of_a_frozen_value')
    if any('-by-inplace-' in k or k.startswith(('frozen-', 'non-receiver-')) for k in keys):
        ck.explain('instance:no_inplace_operator_on_a_class_of_frozen_objects')
    # the conjunction of all hypotheses is explained when each conjunct that failed is
    conj = [o for o in ck.obligations if o['name'].startswith('instance:') and not o['ok'] and o['name'] != 'instance:whole_property_hypotheses_hold']
    if conj and all(o.get('explained') for o in conj):
        ck.explain('instance:whole_property_hypotheses_hold')


def replay(data: dict) -> int:
    r = data['replay']
    if isinstance(r, dict) and 'history' in r:
        problems, frames, regs = run_history([tuple(o) for o in r['history']])
        for f in frames:
            print(f)
        print('registers:', [snap(o)[:2] for o in regs])
        print('problems:', problems)
        return 0
    if isinstance(r, dict) and r.get('call') == 'ctor_case':
        v = [unhex(x) for x in r['values']]
        print(f"ctor_case({r['cls']!r}, {r['form']!r}, {v!r}, {r['k']})")
        for key, what in ctor_case(r['cls'], r['form'], v, r['k']):
            print(' ', key, '--', what)
        return 0
    if isinstance(r, dict) and r.get('call') == 'format_spec_case':
        print(format_spec_case(r['cls'], [unhex(x) for x in r['values']], r['spec']))
        return 0
    if isinstance(r, dict) and r.get('call') == 'inplace_case':
        print(inplace_case(r['cls'], [unhex(x) for x in r['values']], r['op'], r['arg']))
        return 0
    if isinstance(r, dict) and r.get('call') == 'format_float':
        from srctools.math import format_float
        x = float.fromhex(r['x'])
        print(f'format_float({x!r}) = {format_float(x)!r}')
        return 0
    if isinstance(r, dict) and 'route' in r:
        print('route', r['route'], [float.fromhex(x) for x in r['values']])
        return 0
    print(r)
    return 0
