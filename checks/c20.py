"""C20 — secondary format writers emit files their own readers reproduce."""
from __future__ import annotations

import copy
import io
import json
import random
import struct
from pathlib import Path
from typing import Any

from harness.common import Ck, REPO, coq_list, parse_coq_N_list
from harness import c20_util as U
from translate import c20_formats as T
from translate import c20_keytables as KT
from translate import c20_quant as TQ
from translate import c20_vmtblocks as TV

MANIFEST = dict(
    technique='Rocq proof (byte-level codec round trips: Hammer command sequences, the scenes.image container driven by a configuration '
              'regenerated from choreo.py incl. string-pool construction and sort site, binary choreo scenes as layouts with a round-trip '
              'theorem for every layout; quoted-field lexing for the text writers; field splitting of SMD lines; the scene summary) + eight '
              'fail-closed ast translators (struct formats with the value each field carries on both sides, sort and version sites, line / '
              'field templates, operator-stack census with the version-2 test of Sound.export, the VMT quoting decision table and file '
              'frame, width paths of every binary writer/reader pair; all normalise before matching: struct spellings, helper functions, '
              'early returns, locals; round 4: the keyed tables of the writers -- dict / set / find_or_insert / DeferredWrites keys, '
              'for an object key the attributes its class compares in __eq__ / __ne__ / __hash__ -- with the key each reader stores its '
              'result under, and the quantisation sites of binary scenes; round 5: the recursion of vmt._write_block with its three templates '
              'and the blocks / Proxies part of Material.export) + vm_compute correspondence on eleven models (two exhaustive on a '
              'small scope; the quantisation model runs on the kernel\'s binary64 floats) + round-trip / second-generation / '
              'observer-effect oracle search on all eight writers with names that collide under casefold / strip, repeated names and '
              'deep-copied values; every call into the implementation under a time limit',
    text='Theorems in Props/C20.v (85): cmdseq.parse(cmdseq.write(v)) = v and byte-identical second generation for every configuration '
         'satisfying the obligations regenerated from cmdseq.py; the scenes.image writer over the configuration regenerated from choreo.py '
         'produces the bytes of the container model for both input forms whatever the dict keys are, parses back (header, pool through '
         'the offset table, CRC-sorted table, v2/v3 summaries, blobs; LZMA as a hypothesis pair), its table is sorted by the stored '
         'checksum, the string pool it builds gives every sound back, and equal images give identical files independently of caller '
         'order / input form; refuted variants for sorting by dict key, by another attribute, and for filling the pool before sorting; '
         'binary choreo scenes: decoding inverts encoding for EVERY layout (records, counted lists, marker-guarded parts, parts selected '
         'by a head field or flag bit, nested records), in particular whole scenes with events, tags, ramps, flex tracks, loop / speak / '
         'gesture tails, at the level of raw field values; the check proves per class that the layout takes exactly the width paths of '
         'export_binary and of parse_binary; text writers: a field written escaped between quotes is lexed back whatever it holds, a raw '
         'quoted field when it has no quote / backslash / line break, and the field census of choreo text / soundscripts / VMT regenerated '
         'from the source satisfies the matching boolean; soundscript operator-stack blocks are paired with the attribute of the same '
         'name on both sides; soundscript operator stacks behind lazy properties: for every census passing the guard / block booleans '
         '(discharged for today\'s source) what Sound.export writes does not depend on which lazy properties were read before, the same '
         'object exports identically twice, the reader gives the value back and the second generation is identical (refuted: a presence '
         'test `is not None`, a test that forgets a stack, a block guarded by presence); VMT: a name or value vmt._needs_quotes lets through '
         'is lexed back as that one string, a whole parameter line as name / value / newline, and the whole file of a parameter-only '
         'material as shader / { / the pairs in order / } for every decision table covering the empty string, leading / and #, and every '
         'delimiter (table regenerated from vmt.py and tokenizer.py), so the file determines the material; every line template of '
         'Sound.export, regenerated as self-delimiting items, is lexed back as exactly its keywords and field values for all field values '
         '(quoted raw fields without quote / backslash / line break, bare fields bare words); SMD: conversions never touch and every data line splits at whitespace into exactly its fields; '
         'Entry.from_scene: last-speak <= duration, sounds strictly sorted with exactly the used sounds, order independence. '
         'Round 4: every de-duplicating table of a writer (SMD bone numbers through dict[Bone, int], the scenes.image string pool, particle '
         'systems by name, scenes.image slots) is C11\'s find-or-insert table with the key read from the source -- for Bone from its '
         'comparison methods -- and for every census passing the per-table boolean the record found under the number handed out for an '
         'object is that object\'s (refuted: Bone compared through name.casefold(), a pool keyed by the casefolded string, a particle '
         'table keyed more coarsely than the reader keys systems; a hash that is finer than __eq__); the nodes section of Mesh.export '
         '(dict.fromkeys, passes numbering a bone once its parent is numbered, ValueError without progress) is read back by the '
         'line-by-line reader as exactly the (name, parent name) records of the bones, each once, whatever the dict order; every stored '
         'value of a quantised binary-scene field (all 256 byte values for factor 255, all 65536 values for absolute tags) is read as a '
         'float that min(MAX, max(0, round(v * FACTOR))) writes back as the same field, in IEEE binary64 as evaluated by the kernel. '
         'Round 5: VMT sub-blocks and proxies -- for every block configuration passing the two booleans discharged for the templates '
         'regenerated from vmt._write_block / Material.export, the whole file of a material with parameters, nested sub-blocks and proxies '
         'is lexed without error to shader / { / the pairs / the canonical tokens of every block tree / the Proxies frame / }, and a '
         'recursive-descent reader of those tokens returns exactly the trees (so the tokens determine the blocks); c20_property: ONE '
         'statement whose only hypothesis is the boolean `premises` of the record of ALL regenerated objects (discharged on every run for '
         'the objects of that run, including the enumeration of every stored value of every quantisation site), concluding the round trips '
         'of cmdseq, scenes.image (incl. the pool the writer builds, sorted table, independence of caller order), binary layouts and '
         'quantised fields, soundscript stacks (incl. independence of lazy reads), the SMD nodes section and every SMD line, VMT files '
         'with blocks, and every structured line of the soundscript and choreo text writers. '
         'cmdseq, scenes.image (container, pool+sort), binary scene layout, SMD bone numbering, tag quantisation, scene summary, soundscript stacks (all 128 small states x '
         'histories of lazy reads) and VMT quoting (all strings of length <= 2 over 25 characters, parameter lines, whole files) models '
         'are compared with the implementation byte for byte / value for value on every run. All eight writers are searched: generated values inside each format\'s alphabet, '
         'write -> read -> equal, write again -> identical, the same with every (lazy) property of the value read first or the value '
         'written once before (observer effect), plus the sample files under tests/.',
    note='Partial: proof level for cmdseq (complete), the scenes.image container with pool and sort, binary scenes at raw-field level '
         '(the float32 / byte quantisation of values and the Python objects behind the raw fields are outside the model), quoted fields of '
         'the text writers at tokenizer level, soundscript operator stacks at the level of which blocks exist with which children, VMT '
         'files incl. sub-blocks and proxies at token level (quoted strings without backslash; what Material.parse '
         'builds from the tokens is searched), SMD data lines at word level and the nodes section as a whole (skeleton / triangle '
         'sections refer to bones through the same table; their numeric text is searched), quantised fields on stored values (other '
         'values: correspondence); soundscript / PCF / choreo text whole-file round trips are decided by search only. Trusted: Coq kernel + vm_compute (incl. its primitive binary64 floats), translate/c20_formats.py, c20_keytables.py, c20_quant.py, c20_vmtblocks.py, hand models Fmt/SmdNumber.v, Fmt/ChoreoQuant.v, Fmt/VmtBlocks.v, '
         'Fmt/CmdSeq.v, Fmt/ScenesImage.v, Fmt/ChoreoBin.v layouts, Fmt/SceneSummary.v, Fmt/SndStacks.v, Fmt/VmtQuote.v (each tied by differential runs; the layouts also by '
         'kernel-checked path equality with the generated paths), the tokenizer model KV/KvLex.v of C01, CPython struct/lzma/zlib.crc32. '
         'Known finding (kept): Scene.parse_text raises NotImplementedError on the flexanimations block Event.export_text writes (a reader for '
         'it is a feature, not a small repair; round 4 repaired the writer, which never closed the block). Text scenes with flex tracks are '
         'still checked on the writer side: the check has its own reader for the block (written from the grammar the writer emits) and '
         'compares it with the tracks of the event, the rest of the file must be token for token the file of the scene without tracks, '
         'and that scene goes through the ordinary round trip.',
)

IMP_CS = ['Coq.Lists.List', 'Coq.NArith.NArith', 'Coq.ZArith.ZArith', 'Coq.Bool.Bool', 'SV.Fmt.CmdSeq', 'SV.Gen.CmdSeqFmt_gen']
IMP_SMD = ['Coq.Lists.List', 'Coq.NArith.NArith', 'Coq.Arith.PeanoNat', 'Coq.Bool.Bool', 'SV.Fmt.SmdTpl', 'SV.Fmt.SmdWords', 'SV.Gen.SmdTpl_gen']
IMP_IMG = ['Coq.Lists.List', 'Coq.NArith.NArith', 'Coq.Bool.Bool', 'SV.Fmt.ScenesImage']
IMP_TXT = ['Coq.Lists.List', 'Coq.NArith.NArith', 'Coq.Bool.Bool', 'SV.Fmt.SndStacks', 'SV.Fmt.VmtQuote', 'SV.Fmt.TextLines', 'SV.Fmt.TextFields', 'SV.Gen.TextFields_gen']
IMP_CB = ['Coq.Lists.List', 'Coq.NArith.NArith', 'Coq.Bool.Bool', 'Coq.Arith.PeanoNat', 'SV.Fmt.ChoreoBin', 'SV.Gen.ChoreoBin_gen']
IMP_KT = ['SV.Gen.KeyTables_gen']
IMP_IMGCFG = ['Coq.Lists.List', 'Coq.NArith.NArith', 'Coq.Bool.Bool', 'SV.Fmt.ScenesImage', 'SV.Fmt.ScenesImageCfg', 'SV.Gen.ScenesImg_gen']

PRE = '''Import ListNotations. Open Scope N_scope.
Fixpoint nl_eqb (a b : list N) : bool := match a, b with [], [] => true | x :: a', y :: b' => N.eqb x y && nl_eqb a' b' | _, _ => false end.
Definition onl_eqb (a b : option (list N)) : bool := match a, b with Some x, Some y => nl_eqb x y | None, None => true | _, _ => false end.
Fixpoint bad_idx {A} (f : A -> bool) (n : N) (l : list A) : list N := match l with [] => [] | x :: r => (if f x then [] else [n]) ++ bad_idx f (n + 1) r end.
Definition unrle (l : list (N * N)) : list N := flat_map (fun p => repeat (fst p) (N.to_nat (snd p))) l.
'''


def theorems_async(ck: Ck, props_file: str):
    """Ck.theorems with the slow part (one coqc printing the assumptions of every theorem) running in a thread while the
    correspondences are evaluated; the returned function joins and records the obligations (same records, fixed position)."""
    import re
    import threading
    from harness.common import ROCQ, _split_assumptions
    txt = (ROCQ / props_file).read_text()
    names = re.findall(r'^\s*(?:Theorem|Lemma|Corollary)\s+([A-Za-z0-9_\']+)', txt, re.M)
    mod = 'SV.' + props_file[:-2].replace('/', '.')
    body = f'Require Import {mod}.\n' + ''.join(f'Print Assumptions {n}.\n' for n in names)
    box: dict = {}
    th = threading.Thread(target=lambda: box.update(res=ck.coq_scratch(body, 'assumptions')))
    th.start()

    def finish() -> None:
        th.join()
        rc, out = box.get('res', (1, 'thread failed'))
        if rc != 0:
            ck.obligation(f'assumptions:{props_file}', False, out[-2000:])
            ck.tie_broken.append(f'Print Assumptions failed for {props_file}')
            return
        for n, b in zip(names, _split_assumptions(out, len(names))):
            ck.axioms[n] = b
            ck.obligation(f'theorem:{n}', True, 'Qed; axioms: ' + ('none (closed under the global context)' if not b else ', '.join(b)))
    return finish


def par_eval(ck: Ck, jobs: list[tuple]) -> list:
    """Evaluate independent batches concurrently (one coqc each; results in job order, so the outcome is deterministic).
    job = (imports, [exprs], unique name, preamble)."""
    from concurrent.futures import ThreadPoolExecutor
    if not jobs:
        return []
    with ThreadPoolExecutor(max_workers=min(6, len(jobs))) as ex:
        return list(ex.map(lambda j: ck.coq_eval(j[0], j[1], name=j[2], preamble=j[3]), jobs))


# ---- escalation per format family.  A broken tie switches the stages OF THE FORMAT IT CONCERNS to their thorough budget (that is
# where the failing input is to be found); the other formats keep the quick budget, so a run with a real fault stays in minutes.
# '*' (a tie that cannot be attributed: failed build, hygiene, unevaluable group) escalates everything, as Ck.budget would.
FAMILIES = ('cmdseq', 'smd', 'sndscript', 'vmt', 'pcf', 'vcd-text', 'vcd-binary', 'scenes-image')
FAMILY_OF_OBLIGATION = (('cmdseq_', 'cmdseq'), ('smd_', 'smd'), ('sndscript_', 'sndscript'), ('vmt_', 'vmt'), ('vcd_text_', 'vcd-text'),
                        ('vcd_binary_', 'vcd-binary'), ('image_', 'scenes-image'), ('pcf_', 'pcf'))


def tie_families(tie: str) -> set[str]:
    """The format families a broken tie (one string of ck.tie_broken) concerns."""
    if tie.startswith('instance obligations about '):
        names = tie.split(' fail: ', 1)[-1].split(', ')
        fams = {f for n in names for pre, f in FAMILY_OF_OBLIGATION if n.startswith(pre)}
        return fams or {'*'}
    fams = set()
    for word, fs in (('cmdseq', ('cmdseq',)), ('CmdSeqFmt_gen', ('cmdseq',)), ('SmdTpl_gen', ('smd',)), ('scenes.image', ('scenes-image',)),
                     ('ScenesImg_gen', ('scenes-image',)), ('scene summary', ('scenes-image',)), ('soundscript', ('sndscript',)),
                     ('VMT', ('vmt',)), ('binary choreo', ('vcd-binary',)), ('ChoreoBin_gen', ('vcd-binary',)),
                     ('TextFields_gen', ('sndscript', 'vmt', 'vcd-text')),
                     ('KeyTables_gen', ('smd', 'pcf', 'scenes-image', 'cmdseq')), ('QuantSites_gen', ('vcd-binary',)), ('VmtBlocks_gen', ('vmt',)),
                     ('quantisation', ('vcd-binary',))):
        if word in tie:
            fams.update(fs)
    return fams or {'*'}


def escalated(ck: Ck) -> list[str]:
    fams = set()
    for t in ck.tie_broken:
        fams |= tie_families(t)
    esc = sorted(fams)
    ck.extra['escalated_families'] = esc
    return esc


def bud(ck: Ck, fams: tuple[str, ...], quick: int, thorough: int) -> int:
    if ck.thorough:
        return thorough
    esc = escalated(ck)
    return thorough if ('*' in esc or any(f in esc for f in fams)) else quick


def rle(b: bytes) -> str:
    out = []
    i = 0
    while i < len(b):
        j = i
        while j < len(b) and b[j] == b[i]:
            j += 1
        out.append(f'({b[i]},{j - i})')
        i = j
    return '[' + ';'.join(out) + ']'


def nl(xs) -> str:
    return '[' + ';'.join(str(int(x)) for x in xs) + ']'


# ================================================================================================ cmdseq correspondence

def cs_coq_value(spec: dict) -> str:
    seqs = []
    for sq in spec['seqs']:
        cmds = []
        for c in sq['cmds']:
            exe = f'ExeSpecial {c["exe"]}' if isinstance(c['exe'], int) else f'ExeStr {nl(map(ord, c["exe"]))}'
            ens = 'None' if c['ensure?'] is None else f'(Some {nl(map(ord, c["ensure?"]))})'
            cmds.append(f'mkCmd ({exe}) {nl(map(ord, c["args"]))} {str(c["enabled"]).lower()} {ens} {str(c["proc"]).lower()} {str(c["nowait"]).lower()}')
        seqs.append(f'({nl(map(ord, sq["name"]))}, {coq_list(cmds)})')
    return coq_list(seqs)


def cs_flat(obj) -> list[int]:
    """Flatten a parsed cmdseq value (dict name -> [Command]) to numbers, mirrored by `flat` in the Coq preamble."""
    from srctools.cmdseq import SpecialCommand
    out = [len(obj)]

    def s(t: str):
        out.append(len(t))
        out.extend(ord(c) for c in t)
    for name, cmds in obj.items():
        s(name)
        out.append(len(cmds))
        for c in cmds:
            if isinstance(c.exe, SpecialCommand):
                out.extend([1, c.exe.value])
            else:
                out.append(0)
                s(c.exe)
            s(c.args)
            out.append(int(c.enabled))
            if c.ensure_file is None:
                out.append(0)
            else:
                out.append(1)
                s(c.ensure_file)
            out.extend([int(c.use_proc_win), int(c.no_wait)])
    return out


PRE_CS = PRE + '''
Definition fs (t : list N) : list N := N.of_nat (length t) :: t.
Definition flat_cmd (x : cmd) : list N :=
  (match exe x with ExeSpecial v => [1; v] | ExeStr t => 0 :: fs t end) ++ fs (args x) ++ [b2n (enabled x)]
  ++ (match ensure_file x with None => [0] | Some e => 1 :: fs e end) ++ [b2n (use_proc_win x); b2n (no_wait x)].
Definition flat (v : seqs) : list N :=
  N.of_nat (length v) :: flat_map (fun s => fs (fst s) ++ N.of_nat (length (snd s)) :: flat_map flat_cmd (snd s)) v.
'''


def cs_nonrepresentable(rng: random.Random, spec: dict) -> dict:
    """Push one string of a representable spec outside the alphabet (too long / NUL inside / non-ASCII)."""
    spec = copy.deepcopy(spec)
    if not spec['seqs']:
        spec['seqs'].append({'name': 'x', 'cmds': []})
    sq = rng.choice(spec['seqs'])
    kind = rng.choice(['long', 'nul', 'nonascii'])
    target = rng.choice(['name', 'args', 'exe', 'ensure'])
    if target != 'name' and not sq['cmds']:
        sq['cmds'].append({'exe': 'e', 'args': 'a', 'enabled': True, 'ensure?': None, 'proc': True, 'nowait': False})
    width = 128 if target == 'name' else 260

    def bad(old: str) -> str:
        if kind == 'long':
            return 'L' * (width + rng.choice([1, 2, 40]))
        if kind == 'nul':
            return (old or 'a')[:3] + '\0' + 'tail'
        return (old or 'a')[:3] + rng.choice(['\xe9', '€', '\x80'])
    if target == 'name':
        sq['name'] = bad(sq['name'])
    else:
        c = rng.choice(sq['cmds'])
        key = {'args': 'args', 'exe': 'exe', 'ensure': 'ensure?'}[target]
        c[key] = bad(c[key] if isinstance(c[key], str) else 'a')
    names = [s['name'] for s in spec['seqs']]
    if len(set(names)) != len(names):
        spec['seqs'] = spec['seqs'][:1]
    return spec


def corr_cmdseq_write(ck: Ck, files: list[tuple[dict, bytes]]):
    n = bud(ck, ('cmdseq',), 30, 600)
    cases = []
    for i in range(n):
        spec = U.cmdseq_gen(ck.rng)
        if i % 4 == 3:
            spec = cs_nonrepresentable(ck.rng, spec)
        try:
            data = U.cmdseq_write(U.cmdseq_build(spec))
            exp = f'Some (unrle {rle(data)})'
            files.append((spec, data))
            ck.hist('cmdseq_write', 'bytes')
        except (ValueError, UnicodeEncodeError, struct.error) as e:
            exp = 'None'
            ck.hist('cmdseq_write', 'error:' + type(e).__name__)
        cases.append((spec, exp))
        ck.count('cmdseq_write_cases')
        if any(sq['cmds'] for sq in spec['seqs']):
            ck.seen(('csw', json.dumps(spec, sort_keys=True)))
    ck.sample({'cmdseq_value': cases[0][0], 'impl_bytes_rle': cases[0][1][:300]})
    bad: list[int] = []
    jobs = []
    for lo in range(0, len(cases), 45):
        part = cases[lo:lo + 45]
        lit = coq_list(f'({cs_coq_value(s)}, {e})' for s, e in part)
        jobs.append((IMP_CS, [f'bad_idx (fun c : seqs * option (list N) => onl_eqb (write gen_cfg (fst c)) (snd c)) 0 {lit}'], f'cswrite{lo}', PRE_CS))
    for lo, vals in zip(range(0, len(cases), 45), (yield jobs)):
        if vals is None:
            ck.obligation('correspondence:cmdseq-write', False, 'model could not be evaluated')
            ck.tie_broken.append('correspondence cmdseq write: model evaluation failed')
            return
        bad += [lo + i for i in parse_coq_N_list(vals[0])]
    ck.obligation('correspondence:cmdseq-write', not bad,
                  f'{len(cases)} values (1 in 4 outside the alphabet): model write (vm_compute) vs cmdseq.write bytes/error: {len(bad)} disagreements')
    if bad:
        ck.tie_broken.append('correspondence cmdseq write (Fmt/CmdSeq.v write vs srctools.cmdseq.write)')
        ck.extra['cmdseq_write_disagreement'] = {'value': cases[bad[0]][0], 'impl': cases[bad[0]][1][:400]}


VERSION_TAGS = [0.2, 0.1, 0.19999999, 0.2000001, 0.5, 1.0, 0.0, -0.0, -1.0, float('nan'), float('inf'), float('-inf'), 1e-45, 3.0e38]


def cs_mutate(rng: random.Random, data: bytes) -> tuple[str, bytes]:
    b = bytearray(data)
    hdr = 31
    kind = rng.choice(['none', 'junk', 'flags', 'version-v1', 'truncate', 'header', 'dupname', 'nonascii', 'count', 'version-keep'])
    nseq = struct.unpack_from('<I', b, hdr + 4)[0] if len(b) >= hdr + 8 else 0
    if kind == 'junk':          # what Hammer leaves after the terminator
        for i in range(hdr + 8, len(b) - 1):
            if b[i] == 0 and b[i + 1] == 0 and rng.random() < 0.02:
                for j in range(i + 1, min(len(b), i + 1 + rng.randint(1, 6))):
                    b[j] = rng.randint(1, 127)
    elif kind == 'flags' and len(b) > hdr + 8 + 132 + 804:
        base = hdr + 8 + 132
        off = base + rng.choice([0, 4, 5, 528, 532, 796, 800])
        val = rng.choice([0, 1, 2, 255, 256, 257, 259, 260, -1 & 0xFFFFFFFF, 0x80000000])
        if off == base:
            b[off] = val & 0xFF
        elif off == base + 5:
            b[off] = 1
        else:
            struct.pack_into('<I', b, off, val)
    elif kind in ('version-v1', 'version-keep'):
        tag = rng.choice(VERSION_TAGS)
        struct.pack_into('<f', b, hdr, tag)
        if kind == 'version-v1' and tag < 0.2 and nseq >= 1:
            # rebuild with 800-byte records so that old-format files are exercised with their own layout
            out = bytearray(b[:hdr + 8])
            pos = hdr + 8
            ok = True
            for _ in range(nseq):
                if pos + 132 > len(b):
                    ok = False
                    break
                out += b[pos:pos + 132]
                cnt = struct.unpack_from('<I', b, pos + 128)[0]
                pos += 132
                for _ in range(cnt):
                    out += b[pos:pos + 800]
                    pos += 804
            if ok:
                b = out
    elif kind == 'truncate' and len(b) > 4:
        b = b[:rng.randrange(0, len(b))]
    elif kind == 'header':
        b[rng.randrange(0, hdr)] ^= 1 << rng.randrange(8)
    elif kind == 'dupname' and nseq >= 1:
        # append a copy of the first sequence record under the same name, with its commands disabled
        pos = hdr + 8
        cnt = struct.unpack_from('<I', b, pos + 128)[0]
        rec = bytearray(b[pos:pos + 132 + 804 * cnt])
        for k in range(cnt):
            rec[132 + 804 * k] = 0
        b += rec
        struct.pack_into('<I', b, hdr + 4, nseq + 1)
    elif kind == 'nonascii' and len(b) > hdr + 8 + 10:
        i = rng.randrange(hdr + 8, len(b))
        b[i] = rng.choice([0x80, 0xE9, 0xFF])
    elif kind == 'count' and len(b) >= hdr + 8:
        struct.pack_into('<I', b, hdr + 4, rng.choice([0, nseq + 1, nseq + 3, 0xFFFFFFFF, max(0, nseq - 1)]))
    return kind, bytes(b)


def corr_cmdseq_parse(ck: Ck, files: list[tuple[dict, bytes]]) -> None:
    n = bud(ck, ('cmdseq',), 40, 800)
    cases = []
    base = [d for _, d in files if len(d) < 6000] or [U.cmdseq_write({})]
    for i in range(n):
        kind, data = cs_mutate(ck.rng, ck.rng.choice(base))
        try:
            exp = 'Some ' + nl(cs_flat(U.cmdseq_read(data)))
            ck.hist('cmdseq_parse', kind + ':value')
        except Exception as e:
            exp = 'None'
            ck.hist('cmdseq_parse', kind + ':' + type(e).__name__)
        cases.append((kind, data, exp))
        ck.count('cmdseq_parse_cases')
        if len(data) > 200:
            ck.seen(('csp', data))
    bad: list[int] = []
    jobs = []
    for lo in range(0, len(cases), 60):
        part = cases[lo:lo + 60]
        lit = coq_list(f'(unrle {rle(d)}, {e})' for _, d, e in part)
        jobs.append((IMP_CS, [f'bad_idx (fun c : list N * option (list N) => onl_eqb (option_map flat (parse gen_cfg (fst c))) (snd c)) 0 {lit}'], f'csparse{lo}', PRE_CS))
    for lo, vals in zip(range(0, len(cases), 60), (yield jobs)):
        if vals is None:
            ck.obligation('correspondence:cmdseq-parse', False, 'model could not be evaluated')
            ck.tie_broken.append('correspondence cmdseq parse: model evaluation failed')
            return
        bad += [lo + i for i in parse_coq_N_list(vals[0])]
    ck.obligation('correspondence:cmdseq-parse', not bad,
                  f'{len(cases)} files (written by the implementation, then junk after NULs / flag edits / old version tags and layout / '
                  f'truncation / duplicate names / bad counts): model parse vs cmdseq.parse value/error: {len(bad)} disagreements')
    if bad:
        k, d, e = cases[bad[0]]
        ck.tie_broken.append('correspondence cmdseq parse (Fmt/CmdSeq.v parse vs srctools.cmdseq.parse)')
        ck.extra['cmdseq_parse_disagreement'] = {'mutation': k, 'file_hex': d.hex()[:4000], 'impl': e[:400]}


# ================================================================================================ scenes.image correspondence

PRE_IMG = PRE + '''
Definition fs (t : list N) : list N := N.of_nat (length t) :: t.
Definition flat_p (p : pentry) : list N :=
  [p_crc p; p_dur p; p_last p mod 4294967296] ++ N.of_nat (length (p_sounds p)) :: flat_map fs (p_sounds p) ++ fs (p_blob p).
Definition flat_img (r : N * list (list N) * list pentry) : list N :=
  let '(v, pool, ps) := r in v :: N.of_nat (length pool) :: flat_map fs pool ++ N.of_nat (length ps) :: flat_map flat_p ps.
'''


def image_case(rng: random.Random):
    """A container-level image: raw blobs that share one string pool object (the implementation copies them verbatim)."""
    from srctools import binformat
    from srctools.choreo import Entry, CRC
    alpha = [c for c in range(1, 256)]
    pool: list[str] = []
    while len(pool) < rng.choice([0, 1, 2, 4, 7]):
        s = bytes(rng.choice(alpha) for _ in range(rng.randint(0, 6))).decode('latin1')
        if s not in pool:
            pool.append(s)
    version = rng.choice([2, 3])
    crcs: set[int] = set()
    ents = []
    model_ents = []
    extra: list[str] = []
    for _ in range(rng.choice([0, 1, 2, 3, 5])):
        crc = rng.choice([rng.getrandbits(32), rng.randrange(0, 6), 0xFFFFFFFF - rng.randrange(3)])
        if crc in crcs:
            continue
        crcs.add(crc)
        dur = rng.choice([0, 1, 4407, rng.getrandbits(31)])
        last = rng.choice([0, dur, rng.getrandbits(30)])
        sounds = []
        for _ in range(rng.choice([0, 0, 1, 2, 3])):
            if pool and rng.random() < 0.8:
                sounds.append(rng.choice(pool))
            else:
                s = 'new%d' % rng.randrange(4)
                sounds.append(s)
        blob = bytes(rng.randrange(256) for _ in range(rng.choice([0, 1, 5, 20, 40])))
        if rng.random() < 0.15:
            blob = bytes([rng.randrange(256)]) * rng.choice([100, 300])        # compressible: stored as LZMA
        if blob[:4] == b'LZMA':
            blob = b'x' + blob
        ents.append(Entry('', CRC(crc), dur, last, sounds, (blob, pool)))
        model_ents.append([crc, dur, last, sounds, blob])
    rng.shuffle(ents)
    return version, pool, ents, model_ents


def corr_image(ck: Ck) -> None:
    from srctools import binformat
    from srctools.choreo import save_scenes_image_sync, parse_scenes_image
    n = bud(ck, ('scenes-image',), 24, 600)
    wcases = []
    pcases = []
    for _ in range(n):
        version, pool, ents, ments = image_case(ck.rng)
        f = io.BytesIO()
        order = [e.checksum for e in ents]
        save_scenes_image_sync(f, ents, version=version)
        data = f.getvalue()
        final_pool = list(pool) if ents else []   # mutated in place by the writer (new sounds appended); unused without entries
        # the order in which the model receives the entries is the caller's order
        by_crc = {m[0]: m for m in ments}
        coq_ents = []
        for crc in order:
            _, dur, last, sounds, blob = by_crc[crc]
            comp = binformat.compress_lzma(blob)
            stored = comp if len(comp) < len(blob) else blob
            idx = [final_pool.index(s) for s in sounds]
            coq_ents.append(f'mkEntry {crc} {dur} {last} {nl(idx)} {nl(stored)}')
        pool_lit = coq_list(nl(s.encode('latin1')) for s in final_pool)
        wcases.append((f'({version}, {pool_lit}, {coq_list(coq_ents)})', nl(data), {'version': version, 'pool': final_pool, 'entries': [m[:4] for m in ments]}))
        ck.count('image_container_cases')
        ck.hist('image_version', version)
        ck.hist('image_entries', len(ents))
        if len(ents) >= 2:
            ck.seen(('img', data))
        # reader: the file itself and a few single-byte edits / truncations
        variants = [data]
        for _ in range(2):
            b = bytearray(data)
            r = ck.rng.random()
            if r < 0.5 and len(b) > 20:
                b[ck.rng.randrange(4, len(b))] = ck.rng.choice([0, 1, 2, 3, 0x7F, 0x80, 0xFF])
            elif len(b) > 1:
                b = b[:ck.rng.randrange(0, len(b))]
            variants.append(bytes(b))
        for v in variants:
            try:
                img = parse_scenes_image(io.BytesIO(v))
                ver = struct.unpack_from('<i', v, 4)[0]
                out = [ver]
                any_e = next(iter(img.values()), None)
                # pool is only observable through an entry; compare entries
                flat = []
                for e in img.values():
                    raw, pl = e._data
                    flat += [e.checksum % 2 ** 32, e.duration_ms % 2 ** 32, e.last_speak_ms % 2 ** 32, len(e.sounds)]
                    for s in e.sounds:
                        sb = s.encode('latin1')
                        flat += [len(sb), *sb]
                    flat += [len(raw), *raw]
                exp = ('ok', ver, len(img), flat, any_e._data[1] if any_e is not None else None)
            except Exception as e:
                exp = ('err', type(e).__name__)
            pcases.append((v, exp))
            ck.count('image_parse_cases')
            ck.hist('image_parse', exp[0] if exp[0] == 'ok' else 'error:' + exp[1])
    ck.sample({'scenes_image_container_case': wcases[0][2], 'impl_file_hex': bytes(parse_coq_N_list(wcases[0][1])).hex()[:400]})
    bad: list[int] = []
    jobs = []
    for lo in range(0, len(wcases), 50):
        part = wcases[lo:lo + 50]
        lit = coq_list(f'({a}, {b})' for a, b, _ in part)
        jobs.append((IMP_IMG, [f'bad_idx (fun c : (N * list (list N) * list entry) * list N => let \'(v, pool, es) := fst c in nl_eqb (img_write_py v pool es) (snd c)) 0 {lit}'], f'imgwrite{lo}', PRE_IMG))
    # reader: compare success/failure and the flattened entries (the decompressed payload is compared for raw blobs only:
    # the model returns the stored blob, so LZMA-stored payloads are compared on the stored bytes)
    plits = []
    for v, exp in pcases:
        if exp[0] == 'err':
            plits.append(f'({nl(v)}, None)')
        else:
            plits.append(f'({nl(v)}, Some {nl([exp[1], exp[2]] + exp[3])})')
    pre = PRE_IMG + '''
Definition flat_p2 (p : pentry) : list N :=
  [p_crc p; p_dur p mod 4294967296; p_last p mod 4294967296] ++ N.of_nat (length (p_sounds p)) :: flat_map fs (p_sounds p) ++ fs (p_blob p).
(* parse_scenes_image returns a dict keyed by checksum: a later record with the same checksum (malformed files only)
   replaces the earlier one in place *)
Fixpoint dict_ins (p : pentry) (l : list pentry) : list pentry :=
  match l with [] => [p] | h :: t => if p_crc h =? p_crc p then p :: t else h :: dict_ins p t end.
Definition dict_of (ps : list pentry) : list pentry := fold_left (fun acc p => dict_ins p acc) ps [].
Definition flat_img2 (r : N * list (list N) * list pentry) : list N :=
  let '(v, pool, ps) := r in v :: N.of_nat (length (dict_of ps)) :: flat_map flat_p2 (dict_of ps).
'''
    fixed = plits
    jobs_p = []
    for lo in range(0, len(fixed), 70):
        part = fixed[lo:lo + 70]
        jobs_p.append((IMP_IMG, [f'bad_idx (fun c : list N * option (list N) => onl_eqb (option_map flat_img2 (img_parse (fst c))) (snd c)) 0 {coq_list(part)}'], f'imgparse{lo}', pre))
    allv = yield jobs + jobs_p
    for lo, vals in zip(range(0, len(wcases), 50), allv[:len(jobs)]):
        if vals is None:
            ck.obligation('correspondence:scenes-image-write', False, 'model could not be evaluated')
            ck.tie_broken.append('correspondence scenes.image write: model evaluation failed')
            return
        bad += [lo + i for i in parse_coq_N_list(vals[0])]
    ck.obligation('correspondence:scenes-image-write', not bad,
                  f'{len(wcases)} container-level images (shared pool, raw and LZMA-stored blobs, v2/v3, entries in random order): '
                  f'model img_write_py vs save_scenes_image_sync bytes: {len(bad)} disagreements')
    if bad:
        ck.tie_broken.append('correspondence scenes.image write (Fmt/ScenesImage.v img_write_py vs save_scenes_image_sync)')
        ck.extra['image_write_disagreement'] = wcases[bad[0]][2]
    bad = []
    for lo, vals in zip(range(0, len(fixed), 70), allv[len(jobs):]):
        if vals is None:
            ck.obligation('correspondence:scenes-image-parse', False, 'model could not be evaluated')
            ck.tie_broken.append('correspondence scenes.image parse: model evaluation failed')
            return
        bad += [lo + i for i in parse_coq_N_list(vals[0])]
    # tolerate the documented difference: LZMA-stored blobs (model returns stored bytes, implementation decompressed ones)
    real_bad = []
    for i in bad:
        v, exp = pcases[i]
        if b'LZMA' in v and (exp[0] == 'ok' or exp[1] in ('LZMAError', 'error', 'ValueError', 'EOFError')):
            ck.count('image_parse_lzma_not_compared')
            continue
        real_bad.append(i)
    ck.obligation('correspondence:scenes-image-parse', not real_bad,
                  f'{len(pcases)} files (as written, single-byte edits, truncations): model img_parse vs parse_scenes_image '
                  f'(value or error; LZMA payloads compared up to the codec): {len(real_bad)} disagreements')
    if real_bad:
        v, exp = pcases[real_bad[0]]
        ck.tie_broken.append('correspondence scenes.image parse (Fmt/ScenesImage.v img_parse vs parse_scenes_image)')
        ck.extra['image_parse_disagreement'] = {'file_hex': v.hex(), 'impl': repr(exp)[:600]}


def corr_image_pool(ck: Ck) -> None:
    """`img_save_s si_gen_cfg` (the writer over the configuration regenerated from choreo.py, including the construction of
    the string pool and the sort) vs save_scenes_image_sync: dict form with fresh and stale keys, iterable form, raw
    entries sharing a pool plus scene-backed entries, values struct.pack refuses."""
    from srctools import binformat
    from srctools.choreo import Entry, CRC, save_scenes_image_sync
    n = bud(ck, ('scenes-image',), 30, 300)
    cases = []
    for _ in range(n):
        rng = ck.rng
        version = rng.choice([2, 3])
        is_dict = rng.random() < 0.5
        pool0: list[str] = []
        while len(pool0) < rng.choice([0, 0, 2, 5]):
            t = bytes(rng.randrange(1, 256) for _ in range(rng.randint(0, 5))).decode('latin1')
            if t not in pool0:
                pool0.append(t)
        pool_obj = list(pool0)
        ents = []
        crcs: set[int] = set()
        want_error = rng.random() < 0.08
        for _ in range(rng.choice([0, 1, 2, 3, 4])):
            crc = rng.choice([rng.getrandbits(32), rng.randrange(0, 8), 0xFFFFFFFF - rng.randrange(3)])
            if crc in crcs:
                continue
            crcs.add(crc)
            if rng.random() < 0.3:
                sc = U.scene_build(U.scene_gen(rng, 'binary', flex_p=0.1))
                e = Entry.from_scene('', sc)
                e.checksum = CRC(crc)
            else:
                sounds = []
                for _ in range(rng.choice([0, 0, 1, 2, 3])):
                    sounds.append(rng.choice(pool0) if pool0 and rng.random() < 0.6 else 'snd%d' % rng.randrange(5))
                blob = bytes(rng.randrange(256) for _ in range(rng.choice([0, 1, 7, 30])))
                if rng.random() < 0.1:
                    blob = bytes([rng.randrange(256)]) * 200
                if blob[:4] == b'LZMA':
                    blob = b'x' + blob
                dur = rng.choice([0, 1, 4407, rng.getrandbits(32)])
                last = rng.choice([0, dur % 2 ** 31, rng.getrandbits(31)])
                e = Entry('', CRC(crc), dur, last, sounds, (blob, pool_obj))
            ents.append(e)
        if want_error and ents:
            e = rng.choice(ents)
            k = rng.choice(['last', 'dur', 'crc'])
            if k == 'last':
                e.last_speak_ms = 2 ** 31 + rng.randrange(5)      # '<i': refused in version 3, not written in version 2
            elif k == 'dur':
                e.duration_ms = 2 ** 32 + rng.randrange(5)
            else:
                e.checksum = CRC(2 ** 32 + rng.randrange(5))
        rng.shuffle(ents)
        keys = []
        for e in ents:
            keys.append(e.checksum if rng.random() < 0.6 else rng.getrandbits(32))
        if len(set(keys)) != len(keys):
            keys = [e.checksum for e in ents]
        arg = {CRC(k): e for k, e in zip(keys, ents)} if is_dict else list(ents)
        # strings each scene asks the pool for (independent of the pool's content)
        strs = []
        for e in ents:
            req: list[str] = []
            if not isinstance(e._data, tuple):
                def rec(x: str, req=req) -> int:
                    req.append(x)
                    return 0
                try:
                    e._data.export_binary(rec)
                except Exception:      # a broken binary writer: the save below fails too and is compared as such
                    pass
            strs.append(req)
        f = io.BytesIO()
        try:
            save_scenes_image_sync(f, arg, version=version)
            data = f.getvalue()
            exp = f'Some {nl(data)}'
            ck.hist('image_pool_case', 'bytes')
        except struct.error:
            data = None
            exp = 'None'
            ck.hist('image_pool_case', 'struct.error')
        except Exception as e:     # anything else is not a refusal the model knows: compared as an (impossible) empty file
            data = None
            exp = 'Some []'
            ck.hist('image_pool_case', 'error:' + type(e).__name__)
        lits = []
        final_pool = list(pool_obj)
        if data is not None and not any(isinstance(e._data, tuple) for e in ents):
            # no raw entry: the writer used a pool of its own; take it from the file (strings only, through the offset table)
            try:
                fh = io.BytesIO(data)
                fh.seek(12)
                [npool] = struct.unpack('<i', fh.read(4))
                fh.seek(20)
                final_pool = binformat.read_offset_array(fh, npool, 'latin1')
            except Exception:       # a broken writer: the model comparison below reports it
                final_pool = list(pool_obj)
        for k, e, req in zip(keys, ents, strs):
            if isinstance(e._data, tuple):
                raw = e._data[0]
            else:
                try:
                    raw = e._data.export_binary(binformat.find_or_insert(list(final_pool), lambda x: x))   # pool is complete: lookups only
                except Exception:
                    raw = b''
            comp = binformat.compress_lzma(raw)
            stored = comp if len(comp) < len(raw) else raw
            snds = coq_list(nl(x.encode('latin1')) for x in e.sounds)
            rq = coq_list(nl(x.encode('latin1')) for x in req)
            lits.append(f'({k}, mkSentry {e.checksum} {e.duration_ms} {e.last_speak_ms} {snds} {rq} {nl(stored)})')
        # the pool the writer starts from is the one the raw entries share; without a raw entry it starts empty
        p0 = coq_list(nl(x.encode('latin1')) for x in (pool0 if any(isinstance(e._data, tuple) for e in ents) else []))
        cases.append((f'(({str(is_dict).lower()}, {version}), {p0}, {coq_list(lits)}, {exp})',
                      {'version': version, 'dict': is_dict, 'pool0': pool0, 'keys': keys, 'crcs': [e.checksum for e in ents],
                       'sounds': [list(e.sounds) for e in ents], 'scene_strings': strs, 'impl': 'error' if data is None else data.hex()[:600]}))
        ck.count('image_pool_cases')
        ck.hist('image_pool_form', ('dict' if is_dict else 'iterable') + ('-stale-keys' if is_dict and keys != [e.checksum for e in ents] else ''))
        if len(ents) >= 2 and data is not None:
            ck.seen(('imgpool', data))
    ck.sample({'scenes_image_pool_case': cases[0][1]})
    bad: list[int] = []
    jobs = []
    for lo in range(0, len(cases), 40):
        part = cases[lo:lo + 40]
        lit = coq_list(c for c, _ in part)
        jobs.append((IMP_IMGCFG, ['bad_idx (fun c : (bool * N) * list (list N) * list (N * sentry) * option (list N) => '
                                  'let \'(dv, p0, kes, e) := c in onl_eqb (img_save_s si_gen_cfg (fst dv) (snd dv) p0 kes) e) 0 ' + lit], f'imgpool{lo}', PRE))
    for lo, vals in zip(range(0, len(cases), 40), (yield jobs)):
        if vals is None:
            ck.obligation('correspondence:scenes-image-pool-and-sort', False, 'model could not be evaluated')
            ck.tie_broken.append('correspondence scenes.image pool/sort: model evaluation failed')
            return
        bad += [lo + i for i in parse_coq_N_list(vals[0])]
    ck.obligation('correspondence:scenes-image-pool-and-sort', not bad,
                  f'{len(cases)} images (dict with fresh / stale keys, iterable; raw entries sharing a pool and scene-backed entries; values struct.pack '
                  f'refuses): img_save_s si_gen_cfg (configured writer incl. pool construction and sort) vs save_scenes_image_sync bytes/error: '
                  f'{len(bad)} disagreements')
    if bad:
        ck.tie_broken.append('correspondence scenes.image pool/sort (Fmt/ScenesImageCfg.v img_save_s over Gen/ScenesImg_gen.v vs save_scenes_image_sync)')
        ck.extra['image_pool_disagreement'] = cases[bad[0]][1]



# ================================================================================================ soundscript operator stacks

PRE_SNDSTK = PRE + '''
Definition stk_n (s : stk) : N := match s with SStart => 0 | SUpdate => 1 | SStop => 2 end.
Definition flat_o (o : out N) : list N :=
  (if o_v2 o then 1 else 0) :: N.of_nat (length (o_blocks o)) :: flat_map (fun p => stk_n (fst p) :: N.of_nat (length (snd p)) :: snd p) (o_blocks o).
Definition flat_f (v : option (list N)) : list N := match v with None => [0] | Some l => (1 + N.of_nat (length l)) :: l end.
Definition flat_s (x : sound N) : list N := (if force x then 1 else 0) :: flat_f (f_start x) ++ flat_f (f_update x) ++ flat_f (f_stop x).
Definition okc (c : sound N * list stk * option (list N * list N * list N)) : bool :=
  let '(x0, ts, e) := c in
  let x := touches ts x0 in
  let '(o1, x1) := SndStacks.export snd_v2_guard snd_stack_blocks x in
  let '(o2, _) := SndStacks.export snd_v2_guard snd_stack_blocks x1 in
  match e with Some (e1, e2, e3) => nl_eqb (flat_o o1) e1 && nl_eqb (flat_o o2) e2 && nl_eqb (flat_s (SndStacks.parse o1)) e3 | None => false end.
'''


def corr_snd_stacks(ck: Ck) -> None:
    """`SndStacks.export snd_v2_guard snd_stack_blocks` / `parse` (Fmt/SndStacks.v over the census regenerated from sndscript.py) vs
    Sound.export / Sound.parse_one on EVERY small state (force flag x each stack None / empty / one child / two children = 128) under
    histories that read the lazy properties first: what is written (version-2 keys, which blocks with which children), what a second
    export of the same object writes, and what the reader builds from the first output."""
    from srctools.keyvalues import Keyvalues
    from srctools.sndscript import Sound
    tr = ck.extra.get('translated', {}).get('TextFields_gen', {})
    side = tr.get('stack_model')
    if not side:
        ck.obligation('correspondence:sndscript-stacks', False, 'no stack census')
        return
    fields = side['stack_fields']                                   # private fields in reader order = SStart, SUpdate, SStop
    pub_of = {f: pubname for pubname, (f, _lazy) in side['lazy_properties'].items()}
    block_names = [nm for nm, _ in tr['stacks_read']]
    ctor_param = side['ctor_param_of_field']
    STK = ['SStart', 'SUpdate', 'SStop']
    shapes = [None, [], [1], [2, 3]]
    histories = [[], [0], [1], [2], [0, 1], [2, 0], [0, 1, 2], [1, 1, 2]]
    per_state = bud(ck, ('sndscript',), 2, len(histories))
    cases = []

    def observe(text: str) -> list[int]:
        kv = Keyvalues.parse(text).find_key('S')
        has_ver = 1 if kv.int('soundentry_version', 1) == 2 else 0
        has_blk = 1 if 'operator_stacks' in kv else 0
        out = [has_ver if has_ver == has_blk else 2 + has_ver]
        blocks = list(kv.find_key('operator_stacks', or_blank=True))
        out.append(len(blocks))
        for b in blocks:
            out.append(block_names.index(b.real_name) if b.real_name in block_names else 9)
            ids = [int(c.real_name[1:]) for c in b]
            out += [len(ids), *ids]
        return out

    def mk(sh):
        return None if sh is None else Keyvalues('', [Keyvalues(f'k{i}', 'v') for i in sh])

    def opt(sh):
        return 'None' if sh is None else f'(Some {nl(sh)})'
    for force in (False, True):
        for a in shapes:
            for b in shapes:
                for c in shapes:
                    st = [a, b, c]
                    hs = histories if per_state >= len(histories) else ck.rng.sample(histories, per_state)
                    for h in hs:
                        try:
                            snd = Sound('S', ['x.wav'], force_v2=force, **{ctor_param[f]: mk(sh) for f, sh in zip(fields, st)})
                            for t in h:
                                if fields[t] in pub_of:
                                    getattr(snd, pub_of[fields[t]])
                            f1 = io.StringIO()
                            snd.export(f1)
                            f2 = io.StringIO()
                            snd.export(f2)
                            o1, o2 = observe(f1.getvalue()), observe(f2.getvalue())
                            back = Sound.parse_one(Keyvalues.parse(f1.getvalue()).find_key('S'))
                            rd = [1 if back.force_v2 else 0]
                            for f in fields:
                                v = getattr(back, f)
                                rd += [0] if v is None else [1 + len(v), *[int(ch.real_name[1:]) for ch in v]]
                            exp = f'Some ({nl(o1)}, {nl(o2)}, {nl(rd)})'
                            ck.hist('snd_stacks_case', 'v2' if o1[0] == 1 else 'v1' if o1[0] == 0 else 'mixed')
                        except Exception as e:
                            exp = 'None'
                            ck.hist('snd_stacks_case', 'error:' + type(e).__name__)
                        cases.append((f'(mkSnd {str(force).lower()} {opt(a)} {opt(b)} {opt(c)}, {coq_list(STK[t] for t in h)}, {exp})',
                                      {'force_v2': force, 'stacks': st, 'properties_read_first': [pub_of.get(fields[t]) for t in h], 'impl': exp}))
                        ck.count('snd_stacks_cases')
                        if any(st) or h:
                            ck.seen(('sndstk', force, json.dumps(st), tuple(h)))
    jobs = []
    for lo in range(0, len(cases), 400):
        jobs.append((IMP_TXT, ['bad_idx okc 0 ' + coq_list(c for c, _ in cases[lo:lo + 400])], f'sndstk{lo}', PRE_SNDSTK))
    bad: list[int] = []
    for lo, vals in zip(range(0, len(cases), 400), (yield jobs)):
        if vals is None:
            ck.obligation('correspondence:sndscript-stacks', False, 'model could not be evaluated')
            ck.tie_broken.append('correspondence soundscript stacks: model evaluation failed')
            return
        bad += [lo + i for i in parse_coq_N_list(vals[0])]
    ck.obligation('correspondence:sndscript-stacks', not bad,
                  f'{len(cases)} cases = all 128 small states (force flag x each stack None / empty / 1 / 2 children) x {per_state} of {len(histories)} '
                  f'histories of lazy-property reads: SndStacks.export / parse over the generated census vs Sound.export (first and second export of the '
                  f'same object) and Sound.parse_one: {len(bad)} disagreements')
    if bad:
        ck.tie_broken.append('correspondence soundscript stacks (Fmt/SndStacks.v over Gen/TextFields_gen.v vs Sound.export / parse_one)')
        ck.extra['snd_stacks_disagreement'] = cases[bad[0]][1]



def snd_line_census(ck: Ck) -> None:
    """The other direction of the soundscript line census (Gen/TextFields_gen.v snd_lines, theorems c20_text_line*): every physical
    line Sound.export really writes is an instance of a template of the census.  The children of the operator stacks are written by
    Keyvalues.serialise (lines under three tabs that start with a quote or a fourth tab) and are not part of the census."""
    import re
    tr = ck.extra.get('translated', {}).get('TextFields_gen', {})
    tpls = tr.get('sndscript_lines')
    if not tpls:
        ck.obligation('correspondence:sndscript-line-census', False, 'no line census')
        ck.tie_broken.append('correspondence soundscript line census: no census')
        return
    text = ''
    pats: set[str] = set()
    for tpl in tpls:                       # a template that stops in the middle of a line continues with the next write
        text += ''.join(p[1] if p[0] == 'lit' else '\0' for p in tpl)
        if text.endswith('\n'):
            for phys in text.split('\n')[:-1]:
                pats.add('(.*)'.join(re.escape(x) for x in phys.split('\0')))
            text = ''
    regs = [re.compile(p, re.S) for p in sorted(pats)]
    fmt = U.FORMATS['sndscript']
    n = bud(ck, ('sndscript',), 60, 600)
    bad: list[str] = []
    lines = 0
    for _ in range(n):
        spec = fmt.gen(ck.rng)
        try:
            out = fmt.write(fmt.build(spec))
        except Exception as e:
            bad.append(f'export raised {e!r}'[:200])
            continue
        ck.count('snd_line_census_files')
        for phys in out.split('\n')[:-1]:
            if phys.startswith('\t\t\t"') or phys.startswith('\t\t\t\t'):
                continue
            lines += 1
            if not any(r.fullmatch(phys) for r in regs):
                bad.append(phys[:200])
    ck.count('snd_line_census_lines', lines)
    ck.obligation('correspondence:sndscript-line-census', not bad and lines > 0,
                  f'{lines} physical lines of {n} exported soundscript files (stack children excluded): each is an instance of one of the '
                  f'{len(regs)} template lines regenerated from Sound.export: {len(bad)} are not')
    if bad or not lines:
        ck.tie_broken.append('correspondence soundscript line census (Gen/TextFields_gen.v snd_lines vs the lines Sound.export writes)')
        ck.extra['snd_line_census_unmatched'] = bad[:5]


# ================================================================================================ VMT on-demand quoting

def corr_vmt_quote(ck: Ck) -> None:
    """`VmtQuote.needs_quotes vmt_nq` vs vmt._needs_quotes on EVERY string of length <= 2 over the delimiters, '/', '#', a letter, a
    backslash and a non-ASCII character; `VmtQuote.param_line vmt_nq name value` vs the line Material.export writes for generated pairs."""
    from srctools import vmt as V
    alpha = sorted(set('"\'{};,=[]()\r\n\t /#a\\$:+*') | {'﻿', '\xe9'})
    strs = [''] + alpha + [a + b for a in alpha for b in alpha]
    qcases = []
    for t in strs:
        try:
            r = bool(V._needs_quotes(t))
        except Exception:
            r = None
        qcases.append((t, r))
        ck.count('vmt_needs_quotes_cases')
    ck.hist('vmt_needs_quotes', 'all strings of length <= 2 over %d characters' % len(alpha), len(strs))
    lcases = []
    pool = ['$basetexture', 'a', '/x', '#x', 'a b', 'x/y', 'a\\b', '[1 2]', '', '{', 'x=y', "it's", 'models/props/tex', '$x[0]', '>=dx90?$x', 'a,b', '﻿z']
    for _ in range(bud(ck, ('vmt',), 40, 400)):
        nm = ck.rng.choice([p for p in pool if p.strip()] + [U.rstr(ck.rng, U.VMT_ALPHA, 1, 6)])
        val = ck.rng.choice(pool + [U.rstr(ck.rng, U.VMT_ALPHA, 0, 8)])
        if not nm.strip():
            continue
        try:
            m = V.Material('s')
            m[nm] = val
            text = U.vmt_write(m)
            head, tail = 's\n\t{\n', '\t}\n'
            line = text[len(head):len(text) - len(tail)] if text.startswith(head) and text.endswith(tail) else None
        except Exception:
            line = None
        lcases.append((nm, val, line))
        ck.count('vmt_param_line_cases')
        if line is not None and len(line) > 6:
            ck.seen(('vmtline', nm, val))

    # whole files of parameter-only materials (0-4 parameters with distinct names, shader names with and without a space)
    fcases = []
    for _ in range(bud(ck, ('vmt',), 25, 300)):
        shader = ck.rng.choice(['VertexLitGeneric', 'a', 'Lightmapped_4WayBlend', 'Unlit Generic', 'patch', U.rstr(ck.rng, U.VMT_ALPHA, 1, 6)])
        params: list[tuple[str, str]] = []
        for _k in range(ck.rng.choice([0, 1, 2, 3, 4])):
            nm = ck.rng.choice([p for p in pool if p.strip()] + [U.rstr(ck.rng, U.VMT_ALPHA, 1, 6)])
            if nm.strip() and nm.casefold() not in {a.casefold() for a, _b in params}:
                params.append((nm, ck.rng.choice(pool + [U.rstr(ck.rng, U.VMT_ALPHA, 0, 8)])))
        try:
            m = V.Material(shader)
            for a, b in params:
                m[a] = b
            text = U.vmt_write(m) if [(v.name, v.value) for v in m._params.values()] == params else None
        except Exception:
            text = None
        fcases.append((shader, params, text))
        ck.count('vmt_file_cases')
        ck.hist('vmt_file_params', len(params))
        if text is not None and len(params) >= 2:
            ck.seen(('vmtfile', shader, tuple(params)))

    def cs(t: str) -> str:
        return nl(map(ord, t))
    e3 = 'bad_idx (fun c : (list N * list (list N * list N)) * option (list N) => onl_eqb (Some (VmtQuote.vmt_file vmt_nq (fst (fst c)) (snd (fst c)))) (snd c)) 0 ' + coq_list(
        f'(({cs(sh)}, {coq_list(f"({cs(a)}, {cs(b)})" for a, b in ps)}), {"None" if tx is None else "Some " + cs(tx)})' for sh, ps, tx in fcases)
    e1 = 'bad_idx (fun c : list N * N => N.eqb (if VmtQuote.needs_quotes vmt_nq (fst c) then 1 else 0) (snd c)) 0 ' + coq_list(
        f'({cs(t)}, {2 if r is None else int(r)})' for t, r in qcases)
    e2 = 'bad_idx (fun c : (list N * list N) * option (list N) => onl_eqb (Some (VmtQuote.param_line vmt_nq (fst (fst c)) (snd (fst c)))) (snd c)) 0 ' + coq_list(
        f'(({cs(a)}, {cs(b)}), {"None" if ln is None else "Some " + cs(ln)})' for a, b, ln in lcases)
    [vals] = yield [(IMP_TXT, [e1, e2, e3], 'vmtquote', PRE)]
    if vals is None:
        ck.obligation('correspondence:vmt-quoting', False, 'model could not be evaluated')
        ck.tie_broken.append('correspondence VMT quoting: model evaluation failed')
        return
    b1, b2, b3 = parse_coq_N_list(vals[0]), parse_coq_N_list(vals[1]), parse_coq_N_list(vals[2])
    ck.obligation('correspondence:vmt-quoting', not b1 and not b2 and not b3,
                  f'{len(qcases)} strings (all of length <= 2 over {len(alpha)} characters): VmtQuote.needs_quotes over the generated table vs '
                  f'vmt._needs_quotes: {len(b1)} disagreements; {len(lcases)} (name, value) pairs: VmtQuote.param_line vs the line Material.export '
                  f'writes: {len(b2)} disagreements; {len(fcases)} parameter-only materials (0-4 parameters): VmtQuote.vmt_file vs the whole '
                  f'exported file: {len(b3)} disagreements')
    if b1 or b2 or b3:
        ck.tie_broken.append('correspondence VMT quoting (Fmt/VmtQuote.v over Gen/TextFields_gen.v vs vmt._needs_quotes / Material.export)')
        ck.extra['vmt_quote_disagreement'] = {'string': qcases[b1[0]][0], 'impl': qcases[b1[0]][1]} if b1 else \
            {'name': lcases[b2[0]][0], 'value': lcases[b2[0]][1], 'impl_line': lcases[b2[0]][2]} if b2 else \
            {'shader': fcases[b3[0]][0], 'params': fcases[b3[0]][1], 'impl_file': fcases[b3[0]][2]}


def corr_vmt_blocks(ck: Ck):
    """`VmtBlocks.vmt_file_b` over the generated block configuration and quoting table vs the whole file Material.export writes, for
    generated materials WITH sub-blocks and proxies (nested blocks, empty blocks, names and values with spaces / braces / backslashes)."""
    cases = []
    for _ in range(bud(ck, ('vmt',), 40, 400)):
        spec = U.vmt_gen(ck.rng)
        if not (spec['blocks'] or spec['proxies']) and ck.rng.random() < 0.7:
            spec['blocks'] = [{'name': U.rstr(ck.rng, U.VMT_ALPHA, 1, 6), 'value': [U._kv_gen(ck.rng, 2, U.VMT_ALPHA, U.VMT_ALPHA) for _k in range(ck.rng.choice([0, 1, 3]))]}]
        try:
            m = U.limited(U.vmt_build, spec)
            params = [(v.name, v.value) for v in m._params.values()]
            text = U.limited(U.vmt_write, m)
        except Exception:
            params, text = [tuple(x) for x in spec['params']], None
        cases.append((spec, params, text))
        ck.count('vmt_block_file_cases')

        def depth(b) -> int:
            return 1 + max([depth(c) for c in b['value']], default=0) if isinstance(b['value'], list) else 0
        ck.hist('vmt_block_files', f"blocks={min(len(spec['blocks']), 2)} proxies={min(len(spec['proxies']), 2)} depth={max([depth(b) for b in spec['blocks'] + spec['proxies']], default=0)}")
        if text is not None and (spec['blocks'] or spec['proxies']):
            ck.seen(('vmtblocks', json.dumps(spec, sort_keys=True)))

    def cs(t: str) -> str:
        return nl(map(ord, t))

    def tree(b: dict) -> str:
        if isinstance(b['value'], list):
            return f"(KNode {cs(b['name'])} {coq_list(tree(c) for c in b['value'])})"
        return f"(KLeaf {cs(b['name'])} {cs(b['value'])})"
    e = ('bad_idx (fun c : ((list N * list (list N * list N)) * (list kvt * list kvt)) * option (list N) => onl_eqb (Some (vmt_file_b TextFieldsProofs.ex_escfg '
         'vmt_bcfg vmt_nq (fst (fst (fst c))) (snd (fst (fst c))) (fst (snd (fst c))) (snd (snd (fst c))))) (snd c)) 0 ' + coq_list(
             f'((({cs(sp["shader"] or "s")}, {coq_list(f"({cs(a)}, {cs(b)})" for a, b in ps)}), ({coq_list(tree(b) for b in sp["blocks"])}, '
             f'{coq_list(tree(b) for b in sp["proxies"])})), {"None" if tx is None else "Some " + cs(tx)})' for sp, ps, tx in cases))
    [vals] = yield [(IMP_TXT + ['SV.Fmt.TextFieldsProofs', 'SV.Fmt.VmtBlocks', 'SV.Gen.VmtBlocks_gen'], [e], 'vmtblocks', PRE)]
    if vals is None:
        ck.obligation('correspondence:vmt-blocks', False, 'model could not be evaluated')
        ck.tie_broken.append('correspondence VMT blocks: model evaluation failed')
        return
    bad = parse_coq_N_list(vals[0])
    ck.obligation('correspondence:vmt-blocks', not bad,
                  f'{len(cases)} generated materials with parameters, nested sub-blocks and proxies: VmtBlocks.vmt_file_b over the generated '
                  f'block templates / indents and quoting table vs the whole file Material.export writes: {len(bad)} disagreements')
    if bad:
        ck.tie_broken.append('correspondence VMT blocks (Fmt/VmtBlocks.v over Gen/VmtBlocks_gen.v vs Material.export)')
        sp, ps, tx = cases[bad[0]]
        ck.extra['vmt_blocks_disagreement'] = {'spec': sp, 'impl_file': tx}


# ================================================================================================ binary choreo correspondence

def _f32bits(x: float) -> int:
    return struct.unpack('<I', struct.pack('<f', x))[0]


def cb_scene_value(sc, pool: list[str]) -> str:
    """A binary-mode scene as the value tree of Fmt/ChoreoBin.v `scene_lay` (raw field values; the pool is complete)."""
    from srctools.choreo import GestureEvent, LoopEvent, SpeakEvent, CaptionType
    ix = pool.index

    def q(v: float, fac: float, top: int) -> int:
        return min(top, max(0, round(v * fac)))

    def curve(c) -> str:
        return 'BL ' + coq_list(f'BN {nl([_f32bits(s.time), q(s.value, 255.0, 255)])} BE' for s in c.ramp) + ' BE'

    def tags(ts, fac: float, top: int) -> str:
        return 'BL ' + coq_list(f'BN {nl([ix(t.name), q(t.value, fac, top)])} BE' for t in ts) + ' BE'

    def samples(ss) -> str:
        return coq_list(f'BN {nl([_f32bits(s.time), q(s.value, 255.0, 255), s.curve_type.export_binary()])} BE' for s in ss)

    def flex(t) -> str:
        flags = (1 if t.active else 0) | (2 if t.dir_track is not None else 0)
        tail = 'BE' if t.dir_track is None else f'(BL {samples(t.dir_track)} BE)'
        return f'BS (BN {nl([ix(t.name), flags, _f32bits(t.min), _f32bits(t.max)])} (BL {samples(t.mag_track)} {tail})) BE'

    def event(e) -> str:
        if isinstance(e, LoopEvent):
            tail = f'(BN {nl([e.loop_count & 0xFF])} BE)'
        elif isinstance(e, SpeakEvent):
            fl = (1 if (e.caption_type is not CaptionType.Disabled and e.use_combined_file) else 0) | (2 if e.use_gender_token else 0) \
                | (4 if e.suppress_caption_attenuation else 0)
            tail = f'(BN {nl([e.caption_type.value & 0xFF, ix(e.cc_token), fl])} BE)'
        else:
            tail = 'BE'
        if e.tag_name is not None or e.tag_wav_name is not None:
            rel = f'(Some (BN {nl([ix(e.tag_name or ""), ix(e.tag_wav_name or "")])} BE))'
        else:
            rel = 'None'
        rest = f'(BO {rel} (BL {coq_list(flex(t) for t in e.flex_anim_tracks)} {tail}))'
        if isinstance(e, GestureEvent):
            rest = f'(BN {nl([_f32bits(e.gesture_sequence_duration)])} {rest})'
        head = [e.type.value & 0xFF, ix(e.name), _f32bits(e.start_time), _f32bits(e.end_time)] + [ix(p) for p in e.parameters]
        return (f'BN {nl(head)} (BS ({curve(e.ramp)}) (BN {nl([e.flags.value, _f32bits(e.dist_to_targ)])} '
                f'(BS ({tags(e.relative_tags, 255.0, 255)}) (BS ({tags(e.timing_tags, 255.0, 255)}) '
                f'(BS ({tags(e.absolute_playback_tags, 4096.0, 65535)}) (BS ({tags(e.absolute_shifted_tags, 4096.0, 65535)}) {rest}))))))')

    def channel(c) -> str:
        return f'BN {nl([ix(c.name)])} (BL {coq_list(f"BS ({event(e)}) BE" for e in c.events)} (BN {nl([int(c.active)])} BE))'

    def actor(a) -> str:
        return f'BN {nl([ix(a.name)])} (BL {coq_list(f"BS ({channel(c)}) BE" for c in a.channels)} (BN {nl([int(a.active)])} BE))'
    from srctools.choreo import BINARY_VERSION
    return (f'BN {nl([int.from_bytes(b"bvcd", "little"), BINARY_VERSION, sc.text_crc])} (BL {coq_list(f"BS ({event(e)}) BE" for e in sc.events)} '
            f'(BL {coq_list(f"BS ({actor(a)}) BE" for a in sc.actors)} (BS ({curve(sc.ramp)}) (BN {nl([int(sc.ignore_phonemes)])} BE))))')


def corr_choreo_bin(ck: Ck) -> None:
    """`enc (scene_lay ...)` of Fmt/ChoreoBin.v vs Scene.export_binary, byte for byte, and `dec` of those bytes gives the value back."""
    from srctools import binformat
    n = bud(ck, ('vcd-binary',), 40, 400)
    cases = []
    impl_errors: list[dict] = []
    for _ in range(n):
        spec = U.scene_gen(ck.rng, 'binary', flex_p=0.3)
        try:
            sc = U.scene_build(spec)
        except Exception:
            ck.count('generator_rejected_by_constructor')
            continue
        pool: list[str] = []
        try:
            data = sc.export_binary(binformat.find_or_insert(pool, lambda x: x))
            val = cb_scene_value(sc, pool)
        except Exception as e:       # the writer refuses a representable scene: reported as a disagreement (the model encodes it)
            impl_errors.append({'spec': spec, 'error': repr(e)[:300]})
            ck.hist('choreo_bin_case', 'error:' + type(e).__name__)
            continue
        cases.append((val, data, spec))
        ck.count('choreo_bin_cases')
        ck.hist('choreo_bin_events', sum(1 for _ in sc.iter_events()))
        if len(data) > 60:
            ck.seen(('cb', data))
    if impl_errors:
        ck.obligation('correspondence:vcd-binary-layout', False, f'Scene.export_binary raised on {len(impl_errors)} representable scenes '
                      f'(the layout model encodes them): {impl_errors[0]["error"]}')
        ck.tie_broken.append('correspondence binary choreo layout: the writer raises on representable scenes')
        ck.extra['choreo_bin_disagreement'] = impl_errors[0]
        return
    if not cases:
        ck.obligation('correspondence:vcd-binary-layout', False, 'no scene could be built')
        return
    pre = PRE + 'Definition L := scene_lay cb_type_gesture cb_type_loop cb_type_speak.\n' \
        'Definition okcase (c : bval * list N) : bool := match enc L [] (fst c) with Some b => nl_eqb b (snd c) && ' \
        'match dec L [] b with Some (_, []) => true | _ => false end | None => false end.\n'
    jobs = []
    for lo in range(0, len(cases), 20):
        part = cases[lo:lo + 20]
        jobs.append((IMP_CB, ['bad_idx okcase 0 ' + coq_list(f'({v}, {nl(d)})' for v, d, _ in part)], f'cbenc{lo}', pre))
    bad: list[int] = []
    for lo, vals in zip(range(0, len(cases), 20), (yield jobs)):
        if vals is None:
            ck.obligation('correspondence:vcd-binary-layout', False, 'model could not be evaluated')
            ck.tie_broken.append('correspondence binary choreo layout: model evaluation failed')
            return
        bad += [lo + i for i in parse_coq_N_list(vals[0])]
    ck.obligation('correspondence:vcd-binary-layout', not bad,
                  f'{len(cases)} generated binary scenes: enc (scene_lay) of the raw field values vs Scene.export_binary bytes, and dec consumes them '
                  f'completely: {len(bad)} disagreements')
    if bad:
        ck.tie_broken.append('correspondence binary choreo layout (Fmt/ChoreoBin.v scene_lay vs Scene.export_binary)')
        ck.extra['choreo_bin_disagreement'] = {'spec': cases[bad[0]][2], 'impl_hex': cases[bad[0]][1].hex()[:800]}


# ================================================================================================ Entry.from_scene correspondence

def corr_summary(ck: Ck) -> None:
    """`summary_of` of Fmt/SceneSummary.v vs Entry.from_scene on generated binary scenes (float32 times, exact)."""
    from fractions import Fraction
    from srctools.choreo import Entry, EventType, CaptionType, SpeakEvent
    n = bud(ck, ('scenes-image',), 60, 600)
    cases = []
    SC = 2 ** 160

    def scaled(x: float) -> int | None:
        f = Fraction(x) * SC
        return int(f) if f.denominator == 1 and f >= 0 else None
    for _ in range(n):
        spec = U.scene_gen(ck.rng, 'binary', flex_p=0.0)
        try:
            sc = U.scene_build(spec)
        except Exception:
            ck.count('generator_rejected_by_constructor')
            continue
        # equal times, exact halves of a millisecond and events without end are rare in the generator: force some
        evs = list(sc.iter_events())
        for e in evs:
            r = ck.rng.random()
            if r < 0.15:
                e.end_time = U.f32(ck.rng.choice([0.0005, 0.0015, 1.0005, 2.5, 0.25]) * ck.rng.choice([1, 2, 3]))
            elif r < 0.25:
                e.end_time = -1.0
        lits = []
        ok = True
        for e in evs:
            st, en = scaled(e.start_time), (0 if e.end_time == -1.0 else scaled(e.end_time))
            if st is None or en is None:
                ok = False
                break
            sp = isinstance(e, SpeakEvent)
            lits.append(f'mkSev {e.type.value} ({st})%Z ({en})%Z {str(e.end_time != -1.0).lower()} {nl(map(ord, e.parameters[0]))} '
                        f'{e.caption_type.value if sp else 0} {nl(map(ord, e.cc_token)) if sp else "[]"} {str(bool(sp and e.use_combined_file)).lower()}')
        if not ok:
            ck.count('summary_time_not_representable')
            continue
        try:
            ent = Entry.from_scene('x.vcd', sc)
            exp = f'(({int(ent.duration_ms)})%Z, ({int(ent.last_speak_ms)})%Z, {coq_list(nl(map(ord, x)) for x in ent.sounds)})'
        except Exception as e:
            ck.hist('summary_case', 'error:' + type(e).__name__)
            exp = '((-1)%Z, (-1)%Z, [])'          # never equal to the model's value: counted as a disagreement
        cases.append((f'({coq_list(lits)}, {exp})', {'spec': spec, 'summary': exp[:300]}))
        ck.count('summary_cases')
        ck.hist('summary_events', len(evs))
        if len(evs) >= 2:
            ck.seen(('sum', json.dumps(spec, sort_keys=True)))
    if not cases:
        ck.obligation('correspondence:scene-summary', False, 'no scene could be built')
        return
    pre = PRE + ('Require Import Coq.ZArith.ZArith.\n'
                 'Fixpoint ll_eqb (a b : list (list N)) : bool := match a, b with [], [] => true | x :: a\', y :: b\' => nl_eqb x y && ll_eqb a\' b\' '
                 '| _, _ => false end.\n'
                 'Definition okc (c : list sev * (Z * Z * list (list N))) : bool :=\n'
                 f'  let \'(d, l, s) := summary_of {EventType.Speak.value} {CaptionType.Master.value} {CaptionType.Slave.value} (fst c) in\n'
                 '  let \'(d2, l2, s2) := snd c in Z.eqb d d2 && Z.eqb l l2 && ll_eqb s s2.\n')
    jobs = []
    for lo in range(0, len(cases), 60):
        jobs.append((['Coq.Lists.List', 'Coq.NArith.NArith', 'Coq.Bool.Bool', 'SV.Fmt.SceneSummary'],
                     ['bad_idx okc 0 ' + coq_list(c for c, _ in cases[lo:lo + 60])], f'summary{lo}', pre))
    bad: list[int] = []
    for lo, vals in zip(range(0, len(cases), 60), (yield jobs)):
        if vals is None:
            ck.obligation('correspondence:scene-summary', False, 'model could not be evaluated')
            ck.tie_broken.append('correspondence scene summary: model evaluation failed')
            return
        bad += [lo + i for i in parse_coq_N_list(vals[0])]
    ck.obligation('correspondence:scene-summary', not bad,
                  f'{len(cases)} generated scenes (float32 times, exact halves of a millisecond, events without end time, caption variants): '
                  f'summary_of (Fmt/SceneSummary.v) vs Entry.from_scene (duration_ms, last_speak_ms, sounds): {len(bad)} disagreements')
    if bad:
        ck.tie_broken.append('correspondence scene summary (Fmt/SceneSummary.v summary_of vs Entry.from_scene)')
        ck.extra['summary_disagreement'] = cases[bad[0]][1]


# ================================================================================================ SMD bone numbering

SMD_NUM_NAMES = ['root', 'Root', 'ROOT', 'root ', ' root', 'a', 'A', 'b', 'B', 'b  c', 'b c', 'Weapon', 'weapon', 'x.y', "it's"]


def corr_smd_number(ck: Ck):
    """Fmt/SmdNumber.v `number` vs the nodes section Mesh.export writes (or ValueError): bones given children-first, in cycles, with
    parents that are equal-but-not-identical objects or outside the mesh, several Bone objects of one name under different dict keys,
    names that differ only in case / blanks (different keys for the model: the file keeps them apart)."""
    import re as _re
    from srctools.smd import Mesh, Bone
    n = bud(ck, ('smd',), 80, 800)
    cases: list[tuple[str, dict]] = []
    line_re = _re.compile(rb'(\d+) "([^"]*)" (-?\d+)')
    for _ in range(n):
        rng = ck.rng
        nb = rng.choice([1, 2, 2, 3, 3, 4, 5, 7])
        pool = rng.sample(SMD_NUM_NAMES, rng.choice([2, 3, 5, len(SMD_NUM_NAMES)]))
        spec = []
        for i in range(nb):
            r = rng.random()
            if r < 0.25:
                par: Any = None
            elif r < 0.7:
                par = rng.randrange(i) if i else None       # an earlier bone (the dict order is shuffled below: children may come first)
            elif r < 0.8:
                par = rng.randrange(nb)                     # any bone: later ones, itself (a cycle)
            elif r < 0.95:
                par = ['copy', rng.randrange(i + 1)]        # an equal but not identical object
            else:
                par = ['outside', rng.choice(SMD_NUM_NAMES)]
            spec.append({'name': rng.choice(pool), 'parent': par})
        order = list(range(nb))
        if rng.random() < 0.6:
            rng.shuffle(order)
        spec = [dict(spec[i], parent=(order.index(spec[i]['parent']) if isinstance(spec[i]['parent'], int) else
                                      (['copy', order.index(spec[i]['parent'][1])] if isinstance(spec[i]['parent'], list) and spec[i]['parent'][0] == 'copy'
                                       else spec[i]['parent']))) for i in order]
        ck.count('corr_smd_number')
        codes: dict[str, int] = {}

        def code(nm: str) -> int:
            return codes.setdefault(nm, len(codes) + 1)
        objs = [Bone(b['name'], None) for b in spec]
        model = []
        for b, o in zip(spec, objs):
            par = b['parent']
            if par is None:
                pc = None
            elif isinstance(par, int):
                o.parent = objs[par]
                pc = code(spec[par]['name'])
            elif par[0] == 'copy':
                o.parent = Bone(spec[par[1]]['name'], None)
                pc = code(spec[par[1]]['name'])
            else:
                o.parent = Bone(par[1], None)
                pc = code(par[1])
            model.append((code(b['name']), pc))
        bones = {f'{o.name}#{i}': o for i, o in enumerate(objs)}
        f = io.BytesIO()
        try:
            U.limited(Mesh(bones, {}, []).export, f)
            data = f.getvalue()
            sec = data[data.index(b'nodes\n') + 6:data.index(b'end\n')]
            flat: list[int] | None = []
            for ln in sec.split(b'\n'):
                if not ln:
                    continue
                m = line_re.fullmatch(ln)
                if m is None:
                    flat = [999999]
                    break
                flat += [int(m.group(1)), code(m.group(2).decode('ascii')), int(m.group(3)) + 1]
            got = 'Some ' + nl(flat)
        except ValueError:
            got = 'None'
        except Exception as e:      # anything else is a disagreement (the model only knows ValueError)
            got = 'Some ' + nl([888888])
            ck.extra.setdefault('smd_number_exception', repr(e)[:200])
            ck.violation(f'smd:write-error:{type(e).__name__}:skeleton', f'Mesh.export of a skeleton without animation fails with {e!r}'[:300]
                         + ' (bones as (name, parent): an index, a copy of a bone, or a bone outside the mesh)', {'format': 'smd-skeleton', 'bones': spec})
            if U.TIMEOUTS[0] >= 3:
                break
        lit = '(' + coq_list('(mkBone %d %s)' % (k, 'None' if p is None else f'(Some {p})') for k, p in model) + ', ' + got + ')'
        js = json.dumps(spec)
        if len(spec) >= 2:
            ck.seen(('smd-number', js))
        ck.hist('corr_smd_number', 'error' if got == 'None' else 'numbered')
        cases.append((lit, {'bones': spec, 'written': got}))
    pre = PRE + ('Definition flatl (l : nline) : list N := let \'(i, k, p) := l in [N.of_nat i; k; match p with Some j => N.of_nat j + 1 | None => 0 end].\n'
                 'Definition okn (c : list bone * option (list N)) : bool := onl_eqb (option_map (flat_map flatl) (number (fst c))) (snd c).\n')
    jobs = []
    for lo in range(0, len(cases), 200):
        jobs.append((['Coq.Lists.List', 'Coq.NArith.NArith', 'Coq.Bool.Bool', 'SV.Fmt.SmdNumber'],
                     ['bad_idx okn 0 ' + coq_list(c for c, _ in cases[lo:lo + 200])], f'smdnum{lo}', pre))
    bad: list[int] = []
    for lo, vals in zip(range(0, len(cases), 200), (yield jobs)):
        if vals is None:
            ck.obligation('correspondence:smd-numbering', False, 'model could not be evaluated')
            ck.tie_broken.append('correspondence SmdTpl_gen smd numbering: model evaluation failed')
            return
        bad += [lo + i for i in parse_coq_N_list(vals[0])]
    ck.obligation('correspondence:smd-numbering', not bad,
                  f'{len(cases)} generated skeletons (children first, cycles, parents outside the mesh or equal-but-not-identical, several objects '
                  f'of one name, names differing only in case / blanks): number (Fmt/SmdNumber.v) vs the nodes section of Mesh.export or ValueError: '
                  f'{len(bad)} disagreements')
    if bad:
        ck.tie_broken.append('correspondence SmdTpl_gen smd numbering (Fmt/SmdNumber.v number vs Mesh.export nodes section)')
        ck.extra['smd_number_disagreement'] = cases[bad[0]][1]


# ================================================================================================ quantised fields

def _mant_exp(v: float) -> tuple[int, int]:
    """v = m * 2^e exactly, 0 <= m < 2^53 (v >= 0 finite)."""
    import math
    if v == 0:
        return 0, 0
    fr, ex = math.frexp(v)
    m = int(fr * 2 ** 53)
    assert m * 2.0 ** (ex - 53) == v
    return m, ex - 53


def corr_quant(ck: Ck):
    """Fmt/ChoreoQuant.v `quant` / `dequant` over the regenerated sites vs Tag / AbsoluteTag.export_binary and parse_binary on
    arbitrary values: random ones, exact ties (k + 1/2) / FACTOR and their float neighbours, grid values."""
    import math
    from srctools.choreo import Tag, AbsoluteTag
    rng = ck.rng
    cases: list[tuple[str, dict]] = []
    for _ in range(bud(ck, ('vcd-binary',), 150, 2000)):
        cls = rng.choice([Tag, Tag, AbsoluteTag])
        fac, mx = cls._FACTOR, cls._MAX
        top = 1.0           # AbsoluteTag is not re-decorated with attrs.define: Tag's validator (<= 1.0) is the one in force
        kmax = int(top * fac)
        r = rng.random()
        k = rng.randrange(kmax)
        if r < 0.3:
            v = rng.random() * top
        elif r < 0.55:
            v = (k + 0.5) / fac
        elif r < 0.8:
            v = math.nextafter((k + 0.5) / fac, rng.choice([0.0, 2.0 * top]))
        else:
            v = rng.randrange(kmax + 1) / fac
        v = min(top, max(0.0, v))
        ck.count('corr_quant')
        try:
            f = io.BytesIO()
            cls.export_binary(f, lambda s_: 0, [cls('n', v)])
            data = f.getvalue()
            field = struct.unpack(cls._FMT.format, data[1:])[1]
            back = cls.parse_binary(io.BytesIO(data), ['n'], False)[0].value
            got = f'Some ({field}, {"(%d, %d)" % _mant_exp(back)})'
        except Exception as e:
            got = 'None'
            ck.extra.setdefault('quant_exception', repr(e)[:200])
        m, e = _mant_exp(v)
        lit = f'("{cls.__name__}#1"%string, ({m}, {e}), {got})'
        ck.seen(('quant', cls.__name__, v))
        ck.hist('corr_quant', cls.__name__ + (':tie' if (v * fac) % 1 == 0.5 else ''))
        cases.append((lit, {'class': cls.__name__, 'value': v, 'written_and_read': got}))
    pre = ('Require Import Coq.ZArith.ZArith. Require Import Coq.Floats.Floats. Require Import Coq.Strings.String. Open Scope Z_scope.\n'
           'Import ListNotations.\n'
           'Fixpoint bad_idx {A} (f : A -> bool) (n : N) (l : list A) : list N := match l with [] => [] | x :: r => (if f x then [] else [n]) ++ bad_idx f (n + 1)%N r end.\n'
           'Definition okq (c : string * (Z * Z) * option (Z * (Z * Z))) : bool :=\n'
           '  let \'(n, (m, e), r) := c in let s := cq_site n in\n'
           '  match quant s (mk_float false m e), r with\n'
           '  | Some k, Some (fld, (mb, eb)) => (k =? fld) && PrimFloat.eqb (dequant s fld) (mk_float false mb eb)\n'
           '  | _, _ => false end.\n')
    jobs = []
    for lo in range(0, len(cases), 500):
        jobs.append((['Coq.Lists.List', 'Coq.NArith.NArith', 'Coq.Bool.Bool', 'SV.Fmt.ChoreoQuant', 'SV.Gen.QuantSites_gen'],
                     ['bad_idx okq 0%N ' + coq_list(c for c, _ in cases[lo:lo + 500])], f'quant{lo}', pre))
    bad: list[int] = []
    for lo, vals in zip(range(0, len(cases), 500), (yield jobs)):
        if vals is None:
            ck.obligation('correspondence:vcd-binary-quantisation', False, 'model could not be evaluated')
            ck.tie_broken.append('correspondence binary choreo quantisation: model evaluation failed')
            return
        bad += [lo + i for i in parse_coq_N_list(vals[0])]
    ck.obligation('correspondence:vcd-binary-quantisation', not bad,
                  f'{len(cases)} values (random, exact ties (k + 1/2) / FACTOR and their float neighbours, grid values) for Tag and AbsoluteTag: '
                  f'quant / dequant (Fmt/ChoreoQuant.v, kernel floats) vs the field export_binary writes and the value parse_binary returns: '
                  f'{len(bad)} disagreements')
    if bad:
        ck.tie_broken.append('correspondence binary choreo quantisation (Fmt/ChoreoQuant.v vs Tag.export_binary / parse_binary)')
        ck.extra['quant_disagreement'] = cases[bad[0]][1]
        ck.violation('vcd-binary:quantisation:' + cases[bad[0]][1]['class'], 'the field written for a tag value / the value read back is not '
                     'min(MAX, max(0, round(value * FACTOR))) / (field / FACTOR)', {'format': 'vcd-binary-tag', **cases[bad[0]][1]})


# ================================================================================================ keyed tables

KT_FAMILY = {'smd': 'smd_', 'particles': 'pcf_', 'cmdseq': 'cmdseq_', 'sndscript': 'sndscript_', 'vmt': 'vmt_'}


def kt_prefix(qual: str) -> str:
    mod = qual.split('.', 1)[0]
    if mod == 'choreo':
        return 'image_' if 'scenes_image' in qual else 'vcd_binary_'
    return KT_FAMILY.get(mod, 'smd_')


def key_table_obligations(side: dict) -> dict[str, str]:
    """One named boolean per keyed table and per key class of the regenerated census (names carry the format family, so a
    failing one escalates the search of that format only), plus the reader keys the representable alphabets rely on."""
    import re as _re
    obs: dict[str, str] = {}
    defs = side.get('obligation_defs', {})
    for t in side.get('tables', {}):
        nm = _re.sub(r'[^A-Za-z0-9]+', '_', t.split('.', 1)[1]).strip('_')
        obs[f'{kt_prefix(t)}table_{nm}_keeps_apart_whatever_the_reader_keeps_apart_and_is_looked_up_as_it_is_filled'] = defs[f'table:{t}']
    for c in side.get('classes', {}):
        nm = _re.sub(r'[^A-Za-z0-9]+', '_', c.split('.', 1)[1]).strip('_')
        obs[f'{kt_prefix(c)}class_{nm}_eq_ne_hash_agree_with_each_other'] = defs[f'class:{c}']
    obs['smd_bone_tables_present_in_the_census'] = 'kt_ok_bone_tables_present'
    obs['smd_bones_compared_by_exactly_the_name_so_copies_of_a_bone_are_that_bone'] = 'kt_ok_bone_eq_is_name'
    obs['smd_reader_keys_bones_by_the_exact_name'] = 'kt_ok_smd_reader_key'
    obs['cmdseq_reader_keys_sequences_by_the_exact_name'] = 'kt_ok_cmdseq_reader_key'
    obs['image_string_pool_table_present_in_the_census'] = 'kt_ok_pool_table_present'
    return obs


# ================================================================================================ oracle search

def trigger(fmt: str, small: Any, res: tuple) -> str:
    """Name the input class of a (shrunk) failing spec, for the violation key."""
    stage, detail = res[0], res[1]
    js = json.dumps(small)
    if fmt == 'vcd-text' and '"flex": [{' in js and detail == 'NotImplementedError':
        return 'flex-animation-block'
    if fmt == 'smd' and stage == 'read-error' and any(len(v['links']) > 1 for t in small.get('tris', []) for v in t['verts']):
        return 'vertex-with-several-links'
    if fmt == 'smd' and stage == 'regen-diff':
        return 'bone-numbering'
    if fmt in ('vcd-binary', 'scenes-image') and '"tag?": [' in js and stage == 'read-error':
        return 'event-with-relative-tag'
    if fmt == 'sndscript' and stage == 'read-error':
        for s in small.get('sounds', []):
            for k in ('volume', 'level', 'pitch'):
                if s[k][0] != s[k][1]:
                    return 'low-high-pair'
    if fmt == 'vmt':
        for k, v in small.get('params', []):
            if v[:1] in ('/', '#') or k[:1] in ('/', '#'):
                return 'param-leading-slash-or-hash'
            if k == '':
                return 'empty-param-name'
        if ('\\\\' in js or "'" in js) and stage == 'value-diff':
            return 'block-text-escaped'
    if fmt == 'pcf' and stage == 'value-diff':
        if 'children' in detail and colliding_names(small):
            return 'names-equal-after-casefold-or-strip'
        if detail.endswith('.len'):
            return 'name-copied-into-options'
        return 'option-name-case'
    if fmt == 'scenes-image' and stage == 'regen-diff':
        return 'pool-order'
    if fmt == 'vcd-text' and stage in ('read-error', 'value-diff'):
        if 'cc_token' in detail or '"cc_token": "' in js and any(c in js for c in ('\\"', '\\\\')):
            return 'unescaped-string'
        if 'scale_settings' in detail:
            return 'unescaped-string'
    if colliding_names(small):
        return 'names-equal-after-casefold-or-strip'
    return 'other'


def colliding_names(spec: Any) -> bool:
    """Does the spec hold two different strings that are equal after casefold + whitespace normalisation?"""
    seen: dict[str, str] = {}
    todo = [spec]
    while todo:
        v = todo.pop()
        if isinstance(v, dict):
            todo += list(v.values())
        elif isinstance(v, list):
            todo += v
        elif isinstance(v, str) and v.strip():
            k = ' '.join(v.casefold().split())
            if seen.setdefault(k, v) != v:
                return True
    return False


def search_format(ck: Ck, name: str, n: int) -> None:
    fmt = U.FORMATS[name]
    found: dict[str, tuple] = {}
    shrinks = 0
    hung = 0
    flex_known_reported = False
    for i in range(n):
        spec = fmt.gen(ck.rng)
        ck.count(f'roundtrip_{name}')
        res = U.roundtrip(fmt, spec)
        js = json.dumps(spec, sort_keys=True)
        if len(js) > 150:
            ck.seen((name, js))
        ck.hist('oracle_' + name, 'ok' if res is None else res[0])
        ck.hist('names_' + name, ('colliding-under-casefold-or-strip' if colliding_names(spec) else 'no-collision')
                + ('+deep-copied' if isinstance(spec, dict) and spec.get('copy') else ''))
        if name in ('vcd-text', 'sndscript', 'vmt') and (res is None or res[0] == 'read-error'):
            bb = U.brace_balance(fmt, spec)
            if bb is not None:
                key = f'{name}:{bb[0]}:{bb[1]}:{trigger(name, spec, ("read-error", "NotImplementedError", None))}'
                if key not in found:
                    def unbalanced(sp, kind=(bb[0], bb[1])):
                        q = U.brace_balance(fmt, sp)
                        return q is not None and (q[0], q[1]) == kind
                    small = U.shrink_spec(spec, unbalanced, budget=150)
                    found[key] = ((bb[0], bb[1]), small, U.brace_balance(fmt, small) or bb)
        if name == 'vcd-text' and res is not None and (res[0], res[1]) == ('read-error', 'NotImplementedError') and U.has_flex(spec):
            # the known finding (no reader for the flexanimations block).  What CAN be checked of such a scene still is: the blocks of
            # the written file against the check's own reader, the rest of the file against the file of the scene without flex
            # tracks, and that scene through the ordinary round trip (it replaces the spec below, except for the first one, which is
            # shrunk and reported as the known finding)
            ck.count('vcd_text_flex_scenes_checked_through_the_block_oracle_and_without_their_tracks')
            fo = U.flex_oracle(fmt, spec)
            ck.hist('oracle_vcd-text_flex_block', 'ok' if fo is None else fo[1])
            if fo is not None:
                key = f'{name}:{fo[0]}:{fo[1]}:block-as-written'
                if key not in found and shrinks < 12:
                    shrinks += 1

                    def flex_fails(sp, kind=(fo[0], fo[1])):
                        q = U.flex_oracle(fmt, sp) if U.has_flex(sp) else None
                        return q is not None and (q[0], q[1]) == kind
                    small = U.shrink_spec(spec, flex_fails, budget=150)
                    found[key] = ((fo[0], fo[1]), small, U.flex_oracle(fmt, small) or fo)
            if flex_known_reported:
                spec = U.strip_flex(spec)
                res = U.roundtrip(fmt, spec)
                ck.hist('oracle_vcd-text_without_flex_tracks', 'ok' if res is None else res[0])
            flex_known_reported = True
        if res is None or res[0] == 'build-error':
            if res is not None:
                ck.count('generator_rejected_by_constructor')
            continue
        kind = (res[0], res[1])
        if res[1] == 'ImplTimeout':
            # the implementation hangs on this input: a failing input as it is (shrinking would wait for the limit again and again)
            key = f'{name}:{res[0]}:{res[1]}:{trigger(name, spec, res)}'
            found.setdefault(key, (kind, spec, res))
            hung += 1
            if hung >= 3:
                break
            continue
        if sum(1 for k in found.values() if k[0] == kind) >= 3:
            continue
        if shrinks >= 12:
            # a writer broken for most inputs fails in many different places: the first dozen shrunk replays are enough,
            # later kinds are still reported (unshrunk) but must not cost 250 round trips each
            key = f'{name}:{res[0]}:{res[1]}:{trigger(name, spec, res)}'
            found.setdefault(key, (kind, spec, res))
            continue
        shrinks += 1

        def fails(s, kind=kind):
            q = U.roundtrip(fmt, s)
            return q is not None and (q[0], q[1]) == kind
        small = U.shrink_spec(spec, fails, budget=250)
        r2 = U.roundtrip(fmt, small) or res
        key = f'{name}:{r2[0]}:{r2[1]}:{trigger(name, small, r2)}'
        if key not in found or len(json.dumps(small)) < len(json.dumps(found[key][1])):
            found[key] = (kind, small, r2)
    for key, (_, small, r2) in found.items():
        ck.violation(key, f'{name}: {r2[0]} ({r2[1]}): write -> read -> compare -> write again fails on a representable value',
                     {'format': name, 'spec': small, 'result': [r2[0], r2[1], r2[2]],
                      'how': f'harness.c20_util.{"flex_oracle" if r2[0] == "flex-block" else "brace_balance" if r2[0] == "unbalanced-braces" else "roundtrip"}(FORMATS[{name!r}], spec)'})


OBSERVER_QUICK = {'cmdseq': 40, 'smd': 80, 'sndscript': 300, 'vmt': 150, 'pcf': 30, 'vcd-text': 50, 'vcd-binary': 50, 'scenes-image': 5}


def observer_search(ck: Ck, name: str, n: int) -> None:
    """Histories with a bystander: read every property (lazy ones included) of the value, or write it once, before writing it --
    the output must be the same (harness.c20_util.observer_check)."""
    fmt = U.FORMATS[name]
    found: dict[str, tuple] = {}
    for _ in range(n):
        spec = fmt.gen(ck.rng)
        ck.count(f'observer_{name}')
        res = U.observer_check(fmt, spec)
        ck.hist('observer_' + name, 'same' if res is None else res[0])
        if res is None:
            continue
        kind = (res[0], res[1])
        key = f'{name}:{res[0]}:{res[1]}'
        if key in found:
            continue

        def fails(sp, kind=kind):
            q = U.observer_check(fmt, sp)
            return q is not None and (q[0], q[1]) == kind
        small = U.shrink_spec(spec, fails, budget=120) if len(found) < 4 else spec
        found[key] = (small, U.observer_check(fmt, small) or res)
    for key, (small, r) in found.items():
        ck.violation(key, f'{name}: {r[0]} ({r[1]}): what is written depends on whether the value was looked at (or written) before',
                     {'format': name, 'oracle': 'observer', 'spec': small, 'result': [r[0], r[1], r[2]],
                      'how': f'harness.c20_util.observer_check(FORMATS[{name!r}], spec)'})


def independent_summary(sc) -> tuple[int, int, list[str]]:
    """(duration_ms, last_speak_ms, sounds) of a scene, computed without Scene.duration / Scene.used_sounds / playback_caption."""
    from fractions import Fraction
    from srctools.choreo import SpeakEvent, CaptionType
    evs = list(sc.events) + [e for a in sc.actors for c in a.channels for e in c.events]

    def ms(ts: list[float]) -> int:
        t = max([Fraction(x) for x in ts], default=Fraction(0))
        q, r = divmod(t * 1000, 1)
        return int(q) + (1 if (r > Fraction(1, 2) or (r == Fraction(1, 2) and int(q) % 2 == 1)) else 0)
    times = [(e.start_time if e.end_time == -1.0 else e.end_time) for e in evs]
    sp_times = [(e.start_time if e.end_time == -1.0 else e.end_time) for e in evs if isinstance(e, SpeakEvent)]
    snd: set[str] = set()
    for e in evs:
        if isinstance(e, SpeakEvent):
            snd.add(e.parameters[0])
            if e.caption_type is CaptionType.Master or (e.caption_type is CaptionType.Slave and not e.use_combined_file):
                snd.add(e.cc_token or e.parameters[0])
    return ms(times), ms(sp_times), sorted(snd)


def image_extra(ck: Ck, n: int) -> None:
    """scenes.image beyond the plain round trip: entry table sorted by CRC as stored, summaries consistent with the
    scenes, second generation identical whether or not the scenes were looked at, independence of the caller's order."""
    from srctools.choreo import Entry, parse_scenes_image, save_scenes_image_sync
    fmt = U.FORMATS['scenes-image']
    for _ in range(n):
        if U.TIMEOUTS[0] >= 3:
            break                   # a writer / reader hangs (already reported with its input by the round-trip search)
        spec = U.image_gen(ck.rng)
        ck.count('image_invariants')
        try:
            version, entries = U.image_build(spec)
            data = U.limited(U.image_write, (version, entries))
        except Exception as e:
            ck.violation(f'scenes-image:write-error:{type(e).__name__}:invariants', 'scenes.image could not be written', {'format': 'scenes-image', 'spec': spec})
            continue
        try:
            crcs = U.image_table_crcs(data)
        except Exception as e:
            ck.violation(f'scenes-image:table-unreadable:{type(e).__name__}', 'the header of the written scenes.image does not lead to a readable '
                         f'entry table (count / offset fields): {e!r}'[:300], {'format': 'scenes-image', 'spec': spec})
            continue
        if crcs != sorted(crcs):
            ck.violation('scenes-image:table-not-sorted', 'entry table of the written scenes.image is not sorted by CRC', {'format': 'scenes-image', 'spec': spec, 'crcs': crcs})
        try:
            img = parse_scenes_image(io.BytesIO(data))
            # (a) untouched second generation
            f = io.BytesIO()
            save_scenes_image_sync(f, img, version=version)
            if f.getvalue() != data:
                ck.violation('scenes-image:regen-diff:untouched', 'parse then save (scenes not looked at) differs from the first file', {'format': 'scenes-image', 'spec': spec})
            # (b) look at some scenes only
            img2 = parse_scenes_image(io.BytesIO(data))
            for k, e in enumerate(img2.values()):
                if k % 2 == 0:
                    e.data
            f = io.BytesIO()
            save_scenes_image_sync(f, img2, version=version)
            if f.getvalue() != data:
                ck.violation('scenes-image:regen-diff:partly-parsed', 'parse, look at some scenes, save differs from the first file', {'format': 'scenes-image', 'spec': spec})
            # (c) caller's order must not matter
            ents2 = U.image_build(spec)[1]
            ents2.reverse()
            if U.image_write((version, ents2)) != data:
                ck.violation('scenes-image:order-dependent', 'the file depends on the order in which entries are passed', {'format': 'scenes-image', 'spec': spec})
            # (e) the documented dict form (ScenesImage = dict keyed by checksum) with entries renamed after insertion: assigning
            # Entry.filename recalculates Entry.checksum, the dict key stays; the table must be sorted by what is *stored* in it
            ents3 = U.image_build(spec)[1]
            if len(ents3) >= 2:
                img3 = {e.checksum: e for e in reversed(ents3)}
                for k, e in enumerate(ents3):
                    if k % 2 == 0:
                        e.filename = f'scenes/renamed_{k}_{e.checksum & 0xFF}.vcd'
                if len({e.checksum for e in ents3}) == len(ents3):
                    d3 = U.image_write((version, img3))
                    crcs3 = U.image_table_crcs(d3)
                    if crcs3 != sorted(crcs3):
                        ck.violation('scenes-image:table-not-sorted:renamed-entries', 'entry table is not sorted by the stored CRC when the image is a dict '
                                     'whose entries were renamed after insertion (keys no longer equal Entry.checksum)',
                                     {'format': 'scenes-image', 'spec': spec, 'crcs': crcs3})
                    elif sorted(crcs3) != sorted(e.checksum for e in ents3):
                        ck.violation('scenes-image:table-crcs-wrong:renamed-entries', 'entry table does not hold the current checksums of the entries',
                                     {'format': 'scenes-image', 'spec': spec, 'crcs': crcs3})
                    elif d3 != U.image_write((version, ents3)):
                        ck.violation('scenes-image:order-dependent:dict', 'the file depends on whether entries are passed as a dict or as a list',
                                     {'format': 'scenes-image', 'spec': spec})
            # (d) summaries consistent with the scene after the round trip: against Entry.from_scene and against an
            # independent computation (own loops over the events; not Scene.duration / used_sounds)
            for e in img.values():
                ind = independent_summary(e.data)
                st = (e.duration_ms, e.last_speak_ms if version == 3 else e.duration_ms, list(e.sounds))
                if st != (ind[0], ind[1] if version == 3 else ind[0], ind[2]):
                    ck.violation('scenes-image:summary-inconsistent:independent', f'stored summary {st} differs from the summary computed '
                                 f'independently from the stored scene {ind}', {'format': 'scenes-image', 'spec': spec, 'crc': e.checksum})
                again = Entry.from_scene('x', e.data)
                want = (e.duration_ms, e.last_speak_ms if version == 3 else e.duration_ms, list(e.sounds))
                got = (again.duration_ms, again.last_speak_ms if version == 3 else again.duration_ms, list(again.sounds))
                if want != got:
                    ck.violation('scenes-image:summary-inconsistent', f'stored summary {want} differs from the summary of the stored scene {got}',
                                 {'format': 'scenes-image', 'spec': spec, 'crc': e.checksum})
        except Exception as e:
            ck.violation(f'scenes-image:invariants:{type(e).__name__}', f'scenes.image invariants could not be evaluated: {e!r}'[:300], {'format': 'scenes-image', 'spec': spec})


def sample_files(ck: Ck) -> None:
    """The sample files under tests/: read -> write -> read equal, write again identical."""
    from srctools.choreo import Scene
    from srctools.tokenizer import Tokenizer
    from srctools.vmt import Material
    from srctools.particles import Particle
    tests = REPO / 'tests'

    def one(label: str, fmt: U.Fmt, obj) -> None:
        ck.count('sample_files')
        try:
            want = fmt.canon(obj)
            out1 = U.limited(fmt.write, obj)
            obj2 = U.limited(fmt.read, out1)
            d = U.diff_path(want, fmt.canon(obj2))
            if d is not None:
                ck.violation(f'sample:{label}:value-diff:{d}', f'sample file {label}: value differs after write/read at {d}', {'file': label})
                return
            if fmt.write(obj2) != out1:
                ck.violation(f'sample:{label}:regen-diff', f'sample file {label}: second generation differs', {'file': label})
        except Exception as e:
            ck.violation(f'sample:{label}:{type(e).__name__}', f'sample file {label}: {e!r}'[:300], {'file': label})
    p = tests / 'test_choreo' / 'sample.vcd'
    if p.exists():
        with open(p, encoding='utf8') as f:
            sc = Scene.parse_text(Tokenizer(f))
        one('test_choreo/sample.vcd:text', U.FORMATS['vcd-text'], sc)
        with open(p, encoding='utf8') as f:
            sc = Scene.parse_text(Tokenizer(f))
        # binary form holds float32 times: compare the binary round trip on the re-read value (second read vs first read)
        try:
            b1 = U.scene_bin_write(sc)
            s2 = U.scene_bin_read(b1)
            b2 = U.scene_bin_write(s2)
            s3 = U.scene_bin_read(b2)
            ck.count('sample_files')
            if b1 != b2 or U.diff_path(U.scene_canon(s2), U.scene_canon(s3)) is not None:
                ck.violation('sample:test_choreo/sample.vcd:binary', 'sample scene: binary second generation differs', {'file': str(p)})
        except Exception as e:
            ck.violation(f'sample:test_choreo/sample.vcd:binary:{type(e).__name__}', repr(e)[:300], {'file': str(p)})
    p = tests / 'test_vmt' / 'test_export.vmt'
    if p.exists():
        try:
            one('test_vmt/test_export.vmt', U.FORMATS['vmt'], U.limited(Material.parse, p.read_text()))
        except Exception as e:
            ck.violation(f'sample:test_vmt/test_export.vmt:{type(e).__name__}', f'sample file could not be read: {e!r}'[:300], {'file': str(p)})
    p = tests / 'test_particles' / 'sample.pcf'
    if p.exists():
        one('test_particles/sample.pcf', U.FORMATS['pcf'], list(Particle.parse(open(p, 'rb')).values()))


# ================================================================================================ main

QUICK = {'cmdseq': 150, 'smd': 500, 'sndscript': 500, 'vmt': 600, 'pcf': 300, 'vcd-text': 160, 'vcd-binary': 400, 'scenes-image': 40}
THOROUGH_FACTOR = {'vcd-text': 25, 'scenes-image': 24}


def run(ck: Ck) -> None:
    import time
    t_last = [time.time()]
    stages: dict[str, float] = {}
    ck.extra['stage_seconds'] = stages

    def lap(name: str) -> None:
        now = time.time()
        stages[name] = round(now - t_last[0], 1)
        t_last[0] = now
    ck.rule = ('per format a seeded generator of JSON-able value specs restricted to the format\'s representable alphabet '
               '(harness/c20_util.py documents each alphabet); a case is distinct by its full spec and counted as non-trivial '
               'when the spec is longer than 150 characters (it has at least one record with optional parts); correspondence cases '
               '(cmdseq, scenes.image container, scenes.image pool+sort, binary scene layout, scene summary) are distinct by file bytes / spec '
               'and non-trivial when they contain a command / two entries / more than 60 bytes / two events; soundscript stack cases are '
               'the complete small scope (state x history), VMT quoting cases every string of length <= 2 over the delimiter alphabet, '
               'parameter lines longer than 6 characters and whole files with at least two parameters; every generator keeps a bag of the '
               'strings used in the spec and re-uses them or derives variants that collide under casefold / strip (only blanks where the '
               'format itself ignores case), a quarter of the SMD meshes are deep copies (equal but not identical Bone objects); skeleton '
               'cases (children first, cycles, copies, foreign parents, several objects of one name) count when they have two bones, '
               'quantisation cases are distinct by (class, value); VMT block cases are whole materials, distinct by spec, counted when they '
               'have a sub-block or proxy; a text scene with flex tracks (the reader raises NotImplementedError: known finding) is checked by '
               'the block oracle and once more without its tracks')
    ck.trusted.append('hand-written models Fmt/CmdSeq.v, Fmt/ScenesImage.v, Fmt/ScenesImageCfg.v (writer over the generated configuration), '
                      'Fmt/ChoreoBin.v (layouts), Fmt/SceneSummary.v: tied by byte-exact / value-exact differential correspondence on every run; '
                      'the layouts additionally by kernel-checked equality of their width paths with the paths regenerated from choreo.py')
    ck.trusted.append('hand-written models Fmt/SndStacks.v (lazy operator stacks of Sound over the regenerated census) and Fmt/VmtQuote.v '
                      '(quoting decision, parameter line, file of a parameter-only material over the regenerated table): exhaustive small-scope / '
                      'generated differential correspondence with Sound.export / parse_one and vmt._needs_quotes / Material.export on every run')
    ck.trusted.append('hand-written models Fmt/SmdNumber.v (bone numbering of Mesh.export and the line table of the reader) and Fmt/ChoreoQuant.v '
                      '(round / clamp / divide on the kernel floats): differential correspondence with Mesh.export and Tag / AbsoluteTag.export_binary / '
                      'parse_binary on every run; Fmt/BspDedup*.v (C11) for the find-or-insert table; WRITER_ITEM / READERS tables of '
                      'translate/c20_keytables.py (which function is a writer / reader, which class a str-keyed table stands for)')
    ck.trusted.append('hand-written model Fmt/VmtBlocks.v (the recursion of vmt._write_block over the three regenerated templates, the blocks / '
                      'Proxies part of Material.export; its token-level reader read_blocks stands for what Keyvalues parsing makes of the '
                      'tokens): differential correspondence of vmt_file_b with Material.export on generated materials with nested blocks and '
                      'proxies on every run; translate/c20_vmtblocks.py matches the control flow fail-closed')
    ck.trusted.append('harness.c20_util.read_flex_block (the check\'s own reader of the flexanimations block of text scenes, written from the grammar '
                      'Event.export_text / FlexAnimTrack.export_text emit; numbers by float(), curve names by CurveType.parse_text): it replaces the '
                      'reader srctools does not have (known finding) for the writer\'s half of the property')
    ck.trusted.append('Coq kernel primitives PrimInt63.* and PrimFloat.* (63-bit integers, IEEE binary64): the quantisation theorems are computations on '
                      'them; Print Assumptions lists these primitives and no logical axiom (no FloatAxioms)')
    ck.trusted.append('KV/KvLex.v (tokenizer model of C01) for the quoted-field theorems; the escape table is tied to tokenizer.py by C01')
    ck.trusted.append('CPython struct (float32 conversion of the version tag and of scene times), lzma and zlib.crc32 (outside the models)')
    ck.assumptions += [
        'scenes.image: LZMA enters the theorem as a store/unstore pair with unstore (store d) = d; real payloads start with "bvcd", never with "LZMA"',
        'scenes.image pool model: the blob of a scene-backed entry is taken as the bytes export_binary produces on the final pool; that it only '
        'depends on the pool through the indexes is covered by the binary-layout correspondence, not by the pool theorem',
        'binary choreo layouts work on raw field values: float32 bit patterns, the byte / 16-bit value already quantised, pool indexes; '
        'the quantisation round(v*255) and the string pool lookups are exercised by the search, not modelled',
        'text writers: the string mode of srctools.tokenizer.Tokenizer is the same code for every configuration with escapes enabled '
        '(Keyvalues.parse for soundscripts, plain Tokenizer for text choreo scenes); VMT is read with escapes disabled: the VMT theorems use the tokenizer '
        'model in its bare-string mode (no escapes involved) and, for quoted strings, restrict to strings without backslash, where '
        'reading with and without escapes is the same; the bare-string loop is the same code for every Tokenizer configuration without '
        'the colon / plus operators (Material.parse uses none)',
        'scene summary: event times are non-negative float32 values (value * 1000.0 is then exact in double arithmetic)',
        'keyed tables: what identifies an object in a format is taken from the key under which the reader stores its result (bones by '
        'exact name, particle systems by casefolded name, scenes.image entries by checksum, pool strings by position); objects whose '
        'identifying attributes are pairwise distinct (under the transformations the reader itself applies) are the representable values',
        'SMD numbering model: bone names as codes (distinct names = distinct codes, computed by the check from the exact strings); the '
        'skeleton / triangles sections refer to bones through the same table (bone_indexes) -- their numeric text is searched, not modelled',
        'quantised fields: Coq primitive floats are the IEEE binary64 arithmetic of the machine (kernel primitive, same as CPython\'s '
        'float multiply / divide; compared on every run); Tag.value is validated to [0, 1] (AbsoluteTag is not re-decorated, so Tag\'s '
        'validator is the one in force)',
        'PCF: element UUIDs are fresh random values on every export (Particle has no UUID field); second-generation identity is checked with srctools.dmx.get_uuid replaced by a counter',
        'representable alphabets exclude: NUL / non-ASCII / over-long strings (cmdseq); quotes, comment starters and file extensions in SMD names; '
        'quote and backslash in soundscript strings; quote in VMT strings; single-link SMD vertices with weight != 1; '
        'event-ramp edges without samples, time_zoom_lookup (VCD text); text-only fields in binary scenes and vice versa; '
        'last_speak_ms >= 2^31 in a version-3 scenes.image (signed field: struct.error, model returns None)',
    ]
    ok1 = ck.translate('CmdSeqFmt_gen', T.translate_cmdseq)
    ok2 = ck.translate('SmdTpl_gen', T.translate_smd)
    ok3 = ck.translate('ScenesImg_gen', T.translate_scenes_image)
    ok4 = ck.translate('TextFields_gen', T.translate_text_writers)
    ok5 = ck.translate('ChoreoBin_gen', T.translate_choreo_bin)
    ok6 = ck.translate('KeyTables_gen', KT.translate_keytables)
    ok7 = ck.translate('QuantSites_gen', TQ.translate_quant)
    ok8 = ck.translate('VmtBlocks_gen', TV.translate_vmt_blocks)
    built = ck.build(['Props/C20.vo'] + (['Gen/CmdSeqFmt_gen.vo'] if ok1 else []) + (['Gen/SmdTpl_gen.vo'] if ok2 else [])
                     + (['Gen/ScenesImg_gen.vo'] if ok3 else []) + (['Gen/TextFields_gen.vo'] if ok4 else [])
                     + (['Gen/ChoreoBin_gen.vo'] if ok5 else []) + (['Gen/KeyTables_gen.vo'] if ok6 else []) + (['Gen/QuantSites_gen.vo'] if ok7 else [])
                     + (['Gen/VmtBlocks_gen.vo'] if ok8 else []))
    lap('translate+build')
    finish_theorems = theorems_async(ck, 'Props/C20.v') if built else None
    # the correspondences are generators: they build their cases (Python, consuming ck.rng in a fixed order), yield the Coq jobs, and
    # record their obligation when the results are sent back.  The jobs of all of them run in a thread pool while the next ones
    # are being generated; `collect` joins in launch order, so records and outcome are deterministic.
    from concurrent.futures import ThreadPoolExecutor
    pool = ThreadPoolExecutor(max_workers=8)
    pending: list[tuple] = []

    def launch(gen) -> None:
        # building the cases calls the implementation: under a watchdog far above what the stage takes (quick: < 30 s loaded, thorough: 205 s)
        what = getattr(gen, '__name__', 'correspondence')
        try:
            jobs = U.limited(next, gen, seconds=900 if not ck.thorough else 3600)
        except StopIteration:
            return
        except U.ImplTimeout as e:
            ck.obligation(f'correspondence:{what}', False, f'building the cases did not finish: a call into the implementation does not return ({e})')
            ck.tie_broken.append(f'correspondence {what}: a call into the implementation does not return')
            ck.violation(f'{what}:implementation-did-not-return', f'{what}: a writer / reader called while building the correspondence cases did not '
                         'return within the watchdog limit (the round-trip search names the input)', {'stage': what, 'limit': str(e)})
            return
        pending.append((gen, [pool.submit(lambda j=j: ck.coq_eval(j[0], j[1], name=j[2], preamble=j[3])) for j in jobs]))

    def collect() -> None:
        for gen, futs in pending:
            res = [f.result() for f in futs]
            while True:
                try:
                    jobs = gen.send(res)
                except StopIteration:
                    break
                res = par_eval(ck, jobs)
        pending.clear()
        pool.shutdown()

    def tie(res: dict, what: str) -> None:
        if not all(res.values()):
            ck.tie_broken.append(f'instance obligations about {what} fail: ' + ', '.join(k for k, v in res.items() if not v))
    if built and ok1:
        tie(ck.instance_obligations(IMP_CS, {
            'cmdseq_record_layout_is_B_i_s_s_i_i_s_i_i_with_pad_widths': 'fmt_v2_shape gen_cfg',
            'cmdseq_special_names_fit_exe_field_and_values_nonzero': 'specials_okb gen_cfg',
            'cmdseq_written_version_tag_selects_current_struct_on_read': 'version_selects_v2 gen_cfg',
            'cmdseq_writer_and_reader_use_the_same_struct': 'cs_write_struct_is_v2 && cs_read_ge_struct_is_v2 && cs_read_lt_struct_is_v1',
            'cmdseq_old_struct_is_current_without_no_wait': 'fmt_eqb cs_fmt_v1 (removelast cs_fmt_v2)',
            'cmdseq_name_width_same_on_both_sides': 'Nat.eqb cs_name_width_write cs_name_width_read',
            'cmdseq_blank_ensure_file_fills_the_field': 'Nat.eqb cs_blank_ensure cs_pad_ensure',
            'cmdseq_pack_order_is_parse_order': 'fkeys_eqb cs_write_order cs_parse_order && fkeys_eqb cs_write_order cs_model_order',
            'cmdseq_cfg_ok': 'cfg_okb gen_cfg',
        }, name='cs'), 'cmdseq.py')
        lap('instance-cmdseq')
        files: list[tuple[dict, bytes]] = []
        launch(corr_cmdseq_write(ck, files))
        lap('gen-cmdseq-write')
        launch(corr_cmdseq_parse(ck, files))
        lap('gen-cmdseq-parse')
    # the three template / path censuses are evaluated by one coqc (fewer processes); a failing group is named by its obligations
    m_imps: list[str] = []
    m_obs: dict[str, str] = {}
    m_what: list[str] = []
    if built and ok2:
        m_imps += IMP_SMD
        m_what.append('smd.py Mesh.export')
        m_obs.update({
            'smd_numeric_fields_separated': 'forallb line_ok smd_lines',
            'smd_every_line_terminated': 'Nat.eqb smd_unterminated_lines 0',
            'smd_line_census_nonempty': 'Nat.leb 10 (length smd_lines)',
            'smd_every_conversion_delimited_by_whitespace_except_the_quoted_bone_name_line':
                'forallb (fun l => delim true l || has_quote l) smd_lines && Nat.leb (length (filter has_quote smd_lines)) 1',
            'smd_bone_line_is_index_quoted_name_parent': 'forallb (fun l => negb (has_quote l) || nodes_line_shape l) smd_lines '
                                                         '&& Nat.eqb (length (filter has_quote smd_lines)) 1',
            'smd_bone_line_pattern_is_the_modelled_one': 'smd_bytes_eqb smd_nodes_regex nodes_regex',
        })
    if built and ok4:
        m_imps += IMP_TXT
        m_what.append('the text writers (sndscript.py, vmt.py, choreo.py export_text)')
        m_obs.update({
            'sndscript_free_text_and_low_high_pairs_between_quotes': 'free_text_quoted snd_fields',
            'sndscript_no_escape_outside_quotes': 'no_escape_outside_quotes snd_fields',
            'sndscript_every_stack_block_written_from_the_attribute_it_is_read_into': 'stacks_paired snd_stacks_written snd_stacks_read',
            'sndscript_field_census_nonempty': 'Nat.leb 5 (length snd_fields) && Nat.leb 3 (length snd_stacks_written)',
            'sndscript_version_2_test_does_not_ask_whether_a_lazy_stack_exists': 'SndStacks.guard_no_presence_test snd_v2_guard',
            'sndscript_version_2_test_covers_the_force_flag_and_every_stack': 'SndStacks.guard_covers_force snd_v2_guard && SndStacks.guard_covers_every_stack snd_v2_guard',
            'sndscript_every_stack_block_written_iff_it_has_children_from_its_own_stack_under_its_own_name': 'SndStacks.blocks_okb snd_stack_blocks',
            'sndscript_version_2_keys_and_stacks_block_written_together_and_read_that_way':
                'snd_v2_test_writes_version_2_and_the_stacks_block && snd_reader_force_is_version_eq_2 && snd_reader_stacks_exist_iff_block_present',
            'sndscript_stack_census_ok': 'SndStacks.guard_okb snd_v2_guard && SndStacks.blocks_okb snd_stack_blocks',
            'sndscript_every_written_line_is_made_of_self_delimiting_items': 'Nat.eqb snd_lines_unstructured 0 && Nat.leb 10 (length snd_lines)',
            'sndscript_every_written_line_has_bare_keywords_followed_by_whitespace_and_quoted_fields': 'forallb TextLines.items_ok snd_lines',
            'vmt_free_text_quoted_or_quoted_on_demand_except_shader': 'free_text_quoted_or_on_demand 1 vmt_fields',
            'vmt_field_census_nonempty': 'Nat.leb 5 (length vmt_fields)',
            'vmt_needs_quotes_covers_empty_comment_directive_and_every_delimiter': 'VmtQuote.nq_okb vmt_nq',
            'vmt_parameter_line_is_tab_name_space_value_newline_both_quoted_on_demand': 'vmt_param_line_is_tab_name_space_value_newline',
            'vmt_parameter_line_writes_the_name_attribute_then_the_value_attribute': 'vmt_param_line_writes_the_name_attribute_then_the_value_attribute',
            'vmt_file_is_shader_line_open_brace_parameter_lines_close_brace': 'vmt_file_is_shader_brace_parameter_lines_brace',
            'vcd_text_free_text_escaped_and_quoted': 'free_text_escaped cho_fields',
            'vcd_text_no_escape_outside_quotes': 'no_escape_outside_quotes cho_fields',
            'vcd_text_block_keywords_are_literals_outside_quotes': 'keywords_bare cho_fields',
            'vcd_text_field_census_nonempty': 'Nat.leb 40 (length cho_fields)',
            'vcd_text_whole_item_lines_have_bare_keywords_followed_by_whitespace_and_quoted_fields': 'forallb TextLines.items_ok cho_lines && Nat.leb 40 (length cho_lines)',
        })
    if built and ok5:
        m_imps += IMP_CB
        m_what.append('choreo.py export_binary / parse_binary')
        lay = {'Scene': 'scene_lay cb_type_gesture cb_type_loop cb_type_speak', 'Actor': 'actor_lay cb_type_gesture cb_type_loop cb_type_speak',
               'Channel': 'channel_lay cb_type_gesture cb_type_loop cb_type_speak', 'Event': 'event_lay cb_type_gesture cb_type_loop cb_type_speak',
               'FlexAnimTrack': 'flex_lay', 'Curve': 'curve_lay', 'Tag': 'tag_lay', 'TimingTag': 'tag_lay', 'AbsoluteTag': 'abstag_lay'}
        for c in T._BIN_CLASSES:
            m_obs[f'vcd_binary_{c}_writer_and_reader_walk_the_same_field_widths'] = f'paths_eqb cb_{c}_w cb_{c}_r && negb (Nat.eqb (length cb_{c}_w) 0)'
            m_obs[f'vcd_binary_{c}_layout_model_has_exactly_the_paths_of_the_code'] = \
                f'paths_eqb (paths_of ({lay[c]})) cb_{c}_w && paths_eqb (paths_of ({lay[c]})) cb_{c}_r'
        m_obs['vcd_binary_all_record_classes_agree'] = 'classes_agree cb_classes'
        m_obs['vcd_binary_event_kinds_with_extra_fields_agree'] = (
            'cb_nl_eqb cb_kinds_w cb_kinds_r && existsb (N.eqb cb_type_gesture) cb_kinds_r && existsb (N.eqb cb_type_loop) cb_kinds_r '
            '&& existsb (N.eqb cb_type_speak) cb_kinds_r && negb (N.eqb cb_type_gesture cb_type_loop) && negb (N.eqb cb_type_loop cb_type_speak) '
            '&& negb (N.eqb cb_type_gesture cb_type_speak)')
    if built and ok6:
        # the booleans are defined in the Gen file: no string literal (and no import of Coq.Strings.String, which shadows `length`) here
        m_imps += IMP_KT
        m_what.append('the keyed tables of the writers (dict / set / find_or_insert keys incl. __eq__ / __hash__ of the key class)')
        m_obs.update(key_table_obligations(ck.extra.get('translated', {}).get('KeyTables_gen', {})))
    if built and ok7:
        m_imps += ['SV.Gen.QuantSites_gen']
        m_what.append('the quantised fields of binary choreo scenes')
        m_obs.update({
            'vcd_binary_every_quantised_field_value_is_read_and_written_back_as_itself': 'cq_all_sites_stable',
            'vcd_binary_quantisation_factor_same_on_both_sides': 'cq_factors_agree',
            'vcd_binary_quantisation_census_nonempty': 'cq_census_size_ok',
        })
    if built and ok8:
        # fully qualified: Fmt.VmtBlocks is loaded through the Gen module but not imported (its short names stay out of this group)
        m_imps += ['SV.Gen.VmtBlocks_gen']
        m_what.append('vmt.py _write_block / the blocks and proxies part of Material.export')
        B, GB = 'SV.Fmt.VmtBlocks.', 'SV.Gen.VmtBlocks_gen.'
        m_obs.update({
            'vmt_block_templates_are_self_delimiting_items_and_every_indent_is_whitespace': f'{B}bcfg_okb {GB}vmt_bcfg',
            'vmt_block_templates_are_quoted_name_brace_children_brace_and_quoted_name_quoted_value': f'{B}bcfg_shape_okb {GB}vmt_bcfg',
            'vmt_block_fields_are_the_name_and_the_value_of_the_block_and_the_file_ends_with_the_closing_brace':
                f'{GB}vmt_block_open_writes_the_name_of_the_block && {GB}vmt_block_leaf_writes_the_name_then_the_value && '
                f'{GB}vmt_block_close_writes_no_value && {GB}vmt_file_ends_with_the_closing_brace_line',
        })
    if m_obs:
        tie(ck.instance_obligations(list(dict.fromkeys(m_imps)), m_obs, name='tpl'), ' / '.join(m_what))
    lap('instance-smd+text+choreo-bin')
    if built and ok4:
        launch(corr_snd_stacks(ck))
        launch(corr_vmt_quote(ck))
    if built and ok4 and ok8:
        launch(corr_vmt_blocks(ck))
    if built and ok4:
        snd_line_census(ck)
    lap('gen-snd-stacks+vmt-quote+line-census')
    if built and ok5:
        launch(corr_choreo_bin(ck))
    if built and ok7:
        launch(corr_quant(ck))
    lap('gen-choreo-bin')
    if built:
        launch(corr_smd_number(ck))
        launch(corr_summary(ck))
    lap('gen-summary')
    if built:
        launch(corr_image(ck))
    lap('gen-image')
    if built and ok3:
        c = 'si_gen_cfg'
        prop_imps: list[str] = []
        prop_obs: dict[str, str] = {}
        if all((ok1, ok2, ok4, ok5, ok6, ok7, ok8)):
            # the single hypothesis of Props/C20.v c20_property, for the record of everything the translators regenerated in this run.
            # Fully qualified names, and the extra modules imported BEFORE the ones of this group (the Gen modules define overlapping
            # short names: the later import wins, so the expressions below keep their meaning).  It is the conjunction of booleans that
            # are also discharged one by one: when it fails, one of those names the site and escalates its format family.
            G = 'SV.Gen.'
            rec = (f'SV.Fmt.C20Property.mkGen {G}CmdSeqFmt_gen.gen_cfg {G}ScenesImg_gen.si_gen_cfg {G}TextFields_gen.snd_v2_guard '
                   f'{G}TextFields_gen.snd_stack_blocks {G}KeyTables_gen.kt_tables (Coq.Lists.List.map (@snd _ _) {G}QuantSites_gen.cq_sites) '
                   f'{G}TextFields_gen.vmt_nq {G}TextFields_gen.snd_lines {G}TextFields_gen.cho_lines {G}SmdTpl_gen.smd_lines {G}VmtBlocks_gen.vmt_bcfg')
            prop_imps = ['SV.Fmt.C20Property', 'SV.Gen.CmdSeqFmt_gen', 'SV.Gen.TextFields_gen', 'SV.Gen.KeyTables_gen', 'SV.Gen.QuantSites_gen',
                         'SV.Gen.SmdTpl_gen', 'SV.Gen.VmtBlocks_gen']
            prop_obs = {'c20_property_premises_hold_for_the_objects_regenerated_from_todays_source': f'SV.Fmt.C20Property.premises ({rec})'}
        ires = ck.instance_obligations(prop_imps + IMP_IMGCFG, {
            'image_magic_is_VSIF_on_both_sides': f'magic_okb {c}',
            'image_header_is_4s_version_scenes_strings_offset': f'hdr_okb {c}',
            'image_header_writer_and_reader_agree': f'same_layout hsrc_eqb (ic_hdr_w {c}) (ic_hdr_r {c})',
            'image_table_record_is_crc_dataoff_datasize_summaryoff': f'ent_okb {c}',
            'image_table_record_writer_and_reader_agree': f'same_layout esrc_eqb (ic_ent_w {c}) (ic_ent_r {c})',
            'image_summaries_are_duration_lastspeak_count': f'sum_okb {c}',
            'image_summary_writer_and_reader_agree': f'same_layout ssrc_eqb (ic_sumL_w {c}) (ic_sumL_r {c}) && same_layout ssrc_eqb (ic_sumS_w {c}) (ic_sumS_r {c})',
            'image_sound_index_is_one_int_through_the_pool': f'snd_okb {c} && ic_sounds_through_pool {c}',
            'image_pool_offsets_are_ints_in_a_4_byte_slot_each': f'pooloff_okb {c}',
            'image_version_tests_agree': f'version_okb {c}',
            'image_table_sort_key_is_the_stored_checksum_for_every_input_form': f'sort_table_okb {c}',
            'image_sorted_before_the_pool_is_filled_for_every_input_form': f'sort_pool_okb {c}',
            'image_deferred_slots_keyed_by_checksum': f'eattr_eqb (ic_defer_key {c}) ACrc',
            'image_layout_written_in_file_order': f'ic_layout_in_order {c}',
            'image_short_summary_reads_last_speak_as_duration': f'ic_short_summary_last_is_duration {c}',
            'image_strings_same_encoding_on_both_sides': f'ic_same_encoding {c}',
            'image_reader_keys_entries_by_stored_checksum': f'ic_reader_keys_by_crc {c}',
            'image_cfg_ok': f'icfg_okb {c}',
            **prop_obs,
        }, name='imgcfg')
        tie({k: v for k, v in ires.items() if k not in prop_obs}, 'choreo.py save_scenes_image_sync / parse_scenes_image')
        if not all(ires.values()) and not ck.tie_broken:
            ck.tie_broken.append('the hypothesis of c20_property fails although every named obligation holds')
        lap('instance-image')
        launch(corr_image_pool(ck))
        lap('gen-image-pool')
    collect()
    lap('correspondences(join)')
    if finish_theorems is not None:
        finish_theorems()
    lap('print-assumptions(join)')
    # ---- search (always; larger when a tie is broken)
    for name, q in QUICK.items():
        search_format(ck, name, bud(ck, FAMILIES if name == 'pcf' else (name,), q, q * THOROUGH_FACTOR.get(name, 25)))
        lap('search-' + name)
    for name, q in OBSERVER_QUICK.items():
        observer_search(ck, name, bud(ck, (name,), q, q * 20))
    lap('observer-histories')
    image_extra(ck, bud(ck, ('scenes-image',), 15, 150))
    sample_files(ck)
    lap('image-invariants+samples')
    escalated(ck)
    ck.sample({'smd_lines_from_source': ck.extra.get('translated', {}).get('SmdTpl_gen', {}).get('lines', [])[:6]})
    # ---- broken obligations explained by concrete inputs
    keys = [v['key'] for v in ck.violations]
    if any(k.startswith(('smd:read-error', 'smd:value-diff', 'smd:write-error', 'smd:regen-diff', 'smd:rewrite-error')) for k in keys):
        ck.explain('instance:smd_')
    if any(k.startswith('smd:') for k in keys):
        ck.explain('correspondence:smd-numbering')
    if any(k.startswith('pcf:') for k in keys):
        ck.explain('instance:pcf_')
    if any(k.startswith(('smd:', 'pcf:', 'scenes-image:', 'cmdseq:')) for k in keys):
        ck.explain('translate:KeyTables_gen')
    if any(k.startswith('cmdseq:') for k in keys):
        for o in ('instance:cmdseq_', 'correspondence:cmdseq'):
            ck.explain(o)
    if any(k.startswith(('vcd-binary:', 'scenes-image:read-error', 'scenes-image:value-diff', 'scenes-image:write-error')) for k in keys):
        ck.explain('instance:vcd_binary_')
        ck.explain('translate:ChoreoBin_gen')
        ck.explain('correspondence:vcd-binary-layout')
        ck.explain('correspondence:vcd-binary-quantisation')
        ck.explain('translate:QuantSites_gen')
    if any(k.startswith('scenes-image:summary-inconsistent') for k in keys):
        ck.explain('correspondence:scene-summary')
    for pre, ob in (('sndscript:', 'instance:sndscript_'), ('vmt:', 'instance:vmt_'), ('vcd-text:', 'instance:vcd_text_')):
        if any(k.startswith(pre) and not k.endswith('flex-animation-block') for k in keys):
            ck.explain(ob)
            ck.explain('translate:TextFields_gen')
            if pre == 'sndscript:':
                ck.explain('correspondence:sndscript-stacks')
                ck.explain('correspondence:sndscript-line-census')
            if pre == 'vmt:':
                ck.explain('correspondence:vmt-quoting')
                ck.explain('correspondence:vmt-blocks')
                ck.explain('translate:VmtBlocks_gen')
    if any(not k.endswith(':flex-animation-block') for k in keys):
        ck.explain('instance:c20_property_premises')        # a conjunction: the conjunct that fails is explained above
    if any(k.startswith('scenes-image:') for k in keys):
        ck.explain('correspondence:scenes-image')
        ck.explain('instance:image_')
        ck.explain('translate:ScenesImg_gen')


def replay(data: dict) -> int:
    r = data['replay']
    if isinstance(r, dict) and 'spec' in r and r.get('format') in U.FORMATS:
        fmt = U.FORMATS[r['format']]
        res = U.observer_check(fmt, r['spec']) if r.get('oracle') == 'observer' else \
            (U.brace_balance(fmt, r['spec']) if r.get('result', [''])[0] == 'unbalanced-braces' else
             U.flex_oracle(fmt, r['spec']) if r.get('result', [''])[0] == 'flex-block' else U.roundtrip(fmt, r['spec']))
        print('spec   :', json.dumps(r['spec'])[:2000])
        try:
            out = fmt.write(fmt.build(r['spec']))
            print('written:', (out[:1500] if isinstance(out, str) else out[:600]))
        except Exception as e:
            print('write raised', repr(e))
        print('result :', 'property holds on this input' if res is None else res)
        return 0 if res is None else 1
    print(json.dumps(r, indent=1)[:4000])
    return 0
