"""C09 — copies of map objects are complete and independent; operators producing new values leave operands unchanged."""
from __future__ import annotations

import copy as _copy
import itertools
import json
import operator
import pickle
import random
import re
import warnings
from pathlib import Path
from typing import Any

import harness.common as hc
from harness.common import Ck, coq_list

MANIFEST = dict(
    technique='Rocq proof (heap frame theorem over all mutation histories, also for the masked export observation; copy census '
              'with sources and constructor ARGUMENT FLOWS => independence; per-class export-equality theorem over masked '
              'unfoldings; both composed into one whole-property theorem per copy method; operator-purity and collapse_one '
              'frame theorems as instances of the frame theorem; kernel-checked certificates on exported real object graphs: '
              'separation, and the census rows themselves) + five fail-closed ast translators with a semantic normalisation '
              'pre-pass (copy census with source fields and flows through the constructor specialised to the call, export '
              'reads, Keyvalues +/+= append sites, math.py operator write/return origins, collapse_one write/enter/copy '
              'sites; conditional copy expressions classified branch by branch, the weaker row re-computed in the kernel; '
              'copy.deepcopy / pickle of Keyvalues censused through the generic copy protocol) + oracle search incl. a '
              'boundary-value probe of every scalar field and an empty-container probe of every container field; every call '
              'into the implementation under a deadline (a hang or an unexpected exception is a failing input)',
    text='Theorems in Props/C09.v (no axioms). Independence: in a heap of mutable/immutable nodes, if no mutable location '
         'is reachable both from object a and from the roots a mutator holds, no sequence of stores/allocations through '
         'those roots changes the unfolding (export) of a, and vice versa; a certificate checker for finite heaps is sound '
         'for that premise; a copy built field by field according to a census all of whose (kind, how) pairs pass '
         'field_fresh AND whose fields are each built from their own source field (copy_sources_match) is separated from '
         'its original. Completeness: c09_copy_export_equal — if every field the class\'s export reads (generated '
         'export_reads_X) is carried over from its own field (share / fresh container of the same elements / nested copy '
         'that itself exports equally) the copy\'s masked unfolding (IDs, map pointer and unread fields masked) equals the '
         'original\'s at every depth; refuted for a wrong source field. Whole property (c09_copy_complete_and_independent, '
         'c09_all_classes_complete_and_independent): fresh + sources match + export ok + rows hold => the copy exports like '
         'the original, after every history through the copy the original exports as before the copy was made, after every '
         'history through the original the copy exports as the original did when copied. Argument flows '
         '(copy_args_lossless): every carried-over field is fed by its own field only, through value-preserving steps of the '
         'constructor specialised to the call (p-or-default rejected for scalar fields; c09_imm_flow_complete, '
         'c09_only_once_argument_lossy_refuted). Row certificate (c09_row_cert_sound): a heap exported from a real '
         '(original, copy) pair that passes row_cert_ok against the generated census satisfies every premise of the census '
         'theorem; export_cert_ok decides the completeness premises (nested copies observed equal at EVERY depth, decided '
         'at a stabilised depth: c09_mobs_eq_decided); both on one heap + the census obligations = the whole property for '
         'that real pair inside the kernel (c09_real_copy_complete_and_independent). Keyvalues + / +=: pure, complete and every '
         'appended child a fresh copy iff the receiver and the copied-flag of each append site (one per branch) are right. '
         'Conditional rows (c09_cond_row_fresh_iff, c09_cond_rows_checked): a field built by `A if t else B` / `x and B` / '
         'an if/else gets the weaker of the two branch rows, which is fresh iff both branches are; shared-when-empty is '
         'complete yet not independent (c09_shared_when_empty_refuted). Typed nodes (c09_typed_nodes_checked, '
         'c09_labels_of_a_class_same_mask): the census label of every exported node is derived in the kernel from its '
         'run-time type name and the attribute names read are validated against the census. '
         'Pickling pair of Output (c09_pickle_state_roundtrip): __getstate__ / __setstate__ read off the source position by '
         'position; same field at every position, none twice, all data fields present => every field comes back with its '
         'own value; the SHORT form (c09_pickle_short_form_export_equal): per optional field its disjuncts of the long-form '
         'test, the restored constant and the declared type are read off the source, and for every value on which the '
         'field\'s disjuncts fail the restored constant exports like the value (truthiness test of a float refuted: -0.0). '
         'attrs field definitions (converter resolved to its run-time definition and classified path by path, validators, '
         'defaults, factories, __attrs_post_init__) are read as part of the constructor a copy() calls; a converter that '
         'copies on some paths only gives a conditional row. EntityFixup pickling (state_census) and Instance.from_entity '
         '(c09_from_entity_shares_only: nothing of the entity but its read-only Output list reaches the Instance, the '
         '$fixup values are copies) are censused. c09_property: the eight parts from generated-object hypotheses only. '
         'Operators: a run none of whose stores is tagged with an operand origin leaves every pre-existing object '
         'unchanged and returns only new objects; in-place operators leave everything separated from the receiver '
         'unchanged. Instancing: a collapse_one run with no template-tagged store or stored value leaves the template '
         'unchanged. Tie (every run): translators regenerate the five Gen tables from vmf.py, keyvalues.py, math.py, '
         'instancing.py; 153 named instance obligations (per census label — 20 labels incl. Keyvalues_deepcopy / _pickle, EntityFixup_pickle: '
         'copy_covers_fields, copy_fresh_mutables, copy_sources_match, copy_args_lossless, copy_export_equal, '
         'export_reads_are_fields; per kv branch; per operator family; collapse_*; table level incl. '
         'all_classes_complete_and_independent, conditional_rows_are_joins, census_labels_of_a_class_agree, pickle_state_*:Output, '
         'pickle_short_form_restores_export_equal:Output, instance_from_entity_shares_only_outputs, copy_hooks_delegate_to_copy); census vs run-time identities, '
         'argument flows vs the real constructors on boundary values, export reads vs traced attribute reads, operator '
         'rows vs real calls, kv model vs implementation; exported real object graphs certified in the kernel (separation; '
         'census rows: independence premises and completeness premises). Search: identity walk, export equality modulo IDs, random in-place mutation histories on either '
         'side, boundary value of every scalar field then copy + export (copy(), copy.copy, copy.deepcopy, pickle), every '
         'container field emptied, copied, then filled on either side, instance collapse with proxies followed by edits '
         'of the target, operand snapshots for every operator.',
    note='Trusted: Coq kernel + vm_compute; the translators\' classification of Python expressions into census rows (each '
         'cross-checked dynamically: census_vs_runtime, flows_vs_runtime, export_reads_vs_runtime, op_census_vs_runtime, '
         'kv_add correspondence; the independence reading of the copy census is additionally decided in the kernel on '
         'sampled real heaps: certificate:census_rows_hold, and its completeness reading with the export masks of all '
         'labelled nodes: certificate:export_rows_hold — checks/c09.py::export_rows_heap only reports (location, type name, '
         'attribute names read) per node; label, field order, arity and masks are derived / validated in the kernel: '
         'certificate:typed_nodes_validated; trusted there: type(o).__name__, getattr, the walker); CPython\'s generic copy '
         'protocol for a slot class without hooks (Keyvalues_deepcopy / _pickle rows; decided on real heaps by the row '
         'certificates); pickle makes every object below the state new (EntityFixup_pickle row, decided on real unpickled '
         'heaps); the abstraction of field values to the classes of SM/StorePickleShort.v (None / empty / non-empty string, '
         '+0.0 / -0.0 / other float, every integer) and "the export writes a float with :g"; attrs generates the constructor '
         'from the field definitions as documented (converter, then validator, then __attrs_post_init__); '
         'the normalisation pre-pass of the copy translator (alias '
         'locals, loop-append = comprehension, single-return helpers inlined, guard clause = if/else ...: each rewrite is '
         'exact by construction, unknown shapes stay fail-closed); the flow modes as value functions (flow_fun); '
         'and the reading of a census row as its heap meaning (how_sem / how_complete / tstep / cstep: '
         'stated in the theorems, not derived from Python semantics); harness/c09_util.py (graph walker: __slots__, '
         '__dict__, containers; the VMF back pointer is context and is not followed); CPython object identity. '
         'Completeness is proved relative to "export is a function of the fields it reads" (reads census is static, '
         'over-approximation checked against traced reads); HDeep fields take the nested class\'s own theorem as '
         'hypothesis (all_classes_export_ok discharges it for every class of the table). The map back pointer and '
         'everything reached only through it (ID managers, by_class/by_target indexes) are outside the model (C07/C08). '
         'Float rounding is irrelevant here (bit-exact snapshots). Cython twins are not exercised. Immutable shared '
         'values (str, tuples, frozen objects) are atoms of the heap model.',
)

IMPORTS = ['Coq.Lists.List', 'Coq.Bool.Bool', 'Coq.ZArith.ZArith', 'Coq.Strings.String', 'SV.SM.Store', 'SV.SM.StoreCert', 'SV.SM.StorePickleShort',
           'SV.SM.StoreCopy', 'SV.SM.StoreCopySrc', 'SV.SM.StoreCopyExport', 'SV.SM.StoreCopyFlow', 'SV.SM.StoreCopyWholeProofs', 'SV.SM.StoreRowCert', 'SV.SM.StoreExportCert', 'SV.SM.StoreTypedLabels', 'SV.SM.StoreCondRow', 'SV.SM.StorePickleState', 'SV.SM.KvAdd', 'SV.SM.KvAddFresh',
           'SV.SM.OpPurity', 'SV.SM.CollapseCensus', 'SV.SM.InstanceFromEntity', 'SV.Gen.CopyCensus_gen', 'SV.Gen.CopyExportReads_gen',
           'SV.Gen.C09OpCensus_gen', 'SV.Gen.C09Collapse_gen', 'SV.Props.C09']
CORPUS = hc.VERIF / 'corpus' / 'C09'


def _budget(ck: Ck, quick: int, thorough: int) -> int:
    """Thorough tier: the thorough budget.  Quick tier: the quick budget, tripled when a tie is broken
    (escalation of DESIGN 5.4, kept below the 90 s class so that a broken tie is reported promptly)."""
    if ck.thorough:
        return thorough
    return min(thorough, 3 * quick) if ck.tie_broken else quick


def _merge_known() -> None:
    """known_findings.d/C09.json is this property's share of known_findings.json (assembled by tools/mkknown.py at
    integration time); until then read it directly so that the outcome protocol is exercised in the worktree."""
    orig = hc.load_known
    if getattr(orig, '_c09', False):
        return

    def load() -> dict:
        d = orig()
        p = hc.VERIF / 'known_findings.d' / 'C09.json'
        if p.exists():
            mine = json.loads(p.read_text())
            have = {(k['property'], k['key']) for k in d.get('known', [])}
            d.setdefault('known', []).extend(k for k in mine.get('known', []) if (k['property'], k['key']) not in have)
        return d
    load._c09 = True  # type: ignore[attr-defined]
    hc.load_known = load


# ------------------------------------------------------------------------------------------------ calls into the implementation
class ImplHang(Exception):
    """A call into the implementation did not come back within its deadline (a fault made it loop)."""


class deadline:
    """`with deadline(s):` — raises ImplHang inside the block after s seconds of wall time (SIGALRM; only in the main
    thread of a process, which is where every search of this check runs — pool workers are processes).  The deadlines
    are >= 50x the time the block takes on a loaded machine (a copy / empty-container / kv case: < 0.3 s, deadline 20 s; a
    boundary case: < 1 s, 60 s; an instance case: < 0.5 s, 30 s; the operator sweep: 1-3 s, 180 s); after the first hang
    a search stops (circuit breaker) so that the check still ends promptly; a deadline that fires is reported as a failing input
    (key `hang:...`) with a replay, never as an internal error."""

    def __init__(self, seconds: int) -> None:
        self.seconds = seconds
        self.armed = False

    def _fire(self, _sig: int, _frm: Any) -> None:
        raise ImplHang(f'no result after {self.seconds} s')

    def __enter__(self) -> 'deadline':
        import signal
        import threading
        if threading.current_thread() is threading.main_thread() and hasattr(signal, 'SIGALRM'):
            import time
            self.old = signal.signal(signal.SIGALRM, self._fire)
            self.prev = signal.alarm(self.seconds)        # remaining seconds of an enclosing deadline (0: none)
            self.t0 = time.monotonic()
            self.armed = True
        return self

    def __exit__(self, *exc: Any) -> None:
        import signal
        if self.armed:
            import time
            signal.alarm(0)
            signal.signal(signal.SIGALRM, self.old)
            if self.prev:
                signal.alarm(max(1, self.prev - int(time.monotonic() - self.t0)))


def phase(ck: Ck, name: str, fn: Any, *args: Any) -> None:
    """Run one certificate / correspondence phase (they call copy(), export and the operators directly) under a deadline
    of 900 s quick / 3600 s thorough (the phases take 2-30 s quick, < 250 s thorough on a machine with load average 60-90):
    an implementation call that does not return ends as a failed
    obligation that the searches (which have per-case deadlines) then explain with a `hang:` input."""
    try:
        with deadline(3600 if ck.thorough else 900):
            fn(ck, *args)
    except ImplHang as e:
        ck.obligation(f'phase:{name}', False, f'a call into the implementation (or coqc) did not return: {e}')
        ck.tie_broken.append(f'phase {name} did not finish')
    except Exception as e:       # copy() / export / an operator raised on a generated object
        import traceback
        where = traceback.extract_tb(e.__traceback__)[-1]
        ck.obligation(f'phase:{name}', False, f'a call into the implementation raised {type(e).__name__}: {e} '
                                              f'(at {Path(where.filename).name}:{where.lineno} in {where.name})')
        ck.tie_broken.append(f'phase {name}: the implementation raised {type(e).__name__}')


# ------------------------------------------------------------------------------------------------ one copy case
def norm_path(p: str) -> str:
    p = re.sub(r'\[\d+\]', '[]', p)
    while True:      # collapse recursion (._value[]._value[] ..., .child_groups[].child_groups[] ...)
        q = re.sub(r'((?:\.\w+)(?:\[\]|\{\})?)\1+', r'\1', p)
        if q == p:
            return p
        p = q


def where_key(where: str) -> str:
    """Stable class of an export location: the last two path components, wrappers dropped."""
    parts = [x for x in where.strip('/').split('/') if x and x not in ('hidden',)]
    if 'connections' in parts[:-1]:
        return 'connections/output'
    return '/'.join(parts[-2:])


def run_copy_case(kind: str, case_seed: int, variant: str, n_mut: int, collect: dict | None = None) -> list[dict]:
    """Generate an object, copy it, check identity separation, completeness, and independence under a random
    mutation history applied to one side.  Returns a list of problems (dicts with key/what/detail).  An exception
    raised by copy() / export of a generated object, or a call that does not return, is a problem like any other."""
    try:
        with deadline(20):
            return _run_copy_case(kind, case_seed, variant, n_mut, collect)
    except ImplHang as e:
        return [{'key': f'hang:{kind}', 'what': f'{kind}.{variant}: copy / export / mutation did not return ({e})', 'detail': []}]
    except Exception as e:      # export of a generated / legally mutated object raised
        return [{'key': f'raised:{kind}:{type(e).__name__}', 'what': f'{kind}.{variant}: {type(e).__name__}: {e}', 'detail': []}]


def _run_copy_case(kind: str, case_seed: int, variant: str, n_mut: int, collect: dict | None = None) -> list[dict]:
    from harness import c09_util as U
    r = random.Random(case_seed)
    vmf, other = U.VMF(), U.VMF()
    obj = U.generate(kind, r, vmf)
    fn, complete = U.copy_variants(kind)[variant]
    problems: list[dict] = []
    before = U.observe(obj)
    try:
        with warnings.catch_warnings():
            warnings.simplefilter('ignore')
            cp = fn(obj, other)
            U.observe(cp)
    except ImplHang:
        raise
    except Exception as e:
        return [{'key': f'copy-raised:{kind}:{type(e).__name__}',
                 'what': f'{kind}.{variant} of a generated object (which exports fine) raised {type(e).__name__}: {e}', 'detail': []}]
    # copying must not change the original
    if U.observe(obj) != before:
        problems.append({'key': f'copy-changes-original:{kind}', 'what': f'{kind}.{variant} changed the export of the original',
                         'detail': U.first_diff(before, U.observe(obj))})
    # 1. premise of the frame theorem on the real objects
    for pa, pb, tn in U.shared_mutables(obj, cp):
        problems.append({'key': f'shared-mutable:{kind}:{norm_path(pa)}',
                         'what': f'{kind}.{variant}: the mutable {tn} at {pa} is the same object in original and copy ({pb})',
                         'detail': [pa, pb, tn]})
    # 2. completeness
    if complete:
        oa, ob = U.observe(obj, True), U.observe(cp, True)
        if oa != ob:
            where, la, lb = U.first_diff(oa, ob)
            problems.append({'key': f'copy-incomplete:{kind}:{"output-line" if kind == "Output" else "tree" if kind == "Keyvalues" else where_key(where)}',
                             'what': f'{kind}.{variant}: export of the copy differs from the original at {where}: {la!r} vs {lb!r}',
                             'detail': [where, la, lb]})
    if collect is not None:
        collect['obj'], collect['copy'] = obj, cp
        collect['size'] = len(U.walk(obj))
    # 3. independence under mutation histories
    sides = [obj, cp]
    hist: list[str] = []
    for step in range(n_mut):
        which = r.randrange(2)
        target, witness = sides[which], sides[1 - which]
        snap = U.observe(witness)
        try:
            with warnings.catch_warnings():
                warnings.simplefilter('ignore')
                desc = (U.api_mutation(r, target) if r.random() < 0.55 else U.generic_mutation(r, target))
        except Exception as e:  # a legal mutation raised: report as its own class
            problems.append({'key': f'mutation-raised:{kind}:{type(e).__name__}', 'what': f'{type(e).__name__}: {e}',
                             'detail': hist})
            break
        if desc is None:
            continue
        hist.append(('original: ' if which == 0 else 'copy: ') + desc)
        now = U.observe(witness)
        if now != snap:
            where, la, lb = U.first_diff(snap, now)
            mk = re.sub(r'\[\d+\]|\d+', '', desc.split(':')[0] if ':' in desc else desc)
            problems.append({'key': f'mutation-visible:{kind}:{"tree" if kind == "Keyvalues" else where_key(where)}',
                             'what': f'{kind}.{variant}: mutating the {"original" if which == 0 else "copy"} ({desc}) changed the export of the '
                                     f'{"copy" if which == 0 else "original"} at {where}: {la!r} -> {lb!r}',
                             'detail': {'history': list(hist), 'mutation': mk}})
            break
    return problems


_HANG: Any = None       # multiprocessing.Event shared with the pool workers (fork): set by the first case that hangs


def _copy_job(job: tuple) -> tuple[list[dict], int]:
    if _HANG is not None and _HANG.is_set():
        return [], 0         # circuit breaker: one hanging case is a failing input; do not wait for a thousand of them
    info: dict = {}
    probs = run_copy_case(job[0], job[1], job[2], job[3], info)
    if _HANG is not None and any((p.get('key') or '').startswith('hang:') for p in probs):
        _HANG.set()
    return probs, info.get('size', 0)


def _run_copy_cases(jobs: list[tuple]) -> list[tuple[list[dict], int]]:
    """The copy cases are independent of each other (each has its own seed): run them in a small process pool, results
    in job order (deterministic).  Falls back to the serial loop if no pool can be started."""
    import multiprocessing as mp
    import os
    global _HANG
    try:
        _HANG = mp.get_context('fork').Event()
    except (OSError, ValueError):
        _HANG = None
    workers = max(1, min(4, (os.cpu_count() or 2) // 2))
    if workers > 1 and len(jobs) >= 200:
        try:
            with mp.get_context('fork').Pool(workers) as pool:
                return pool.map(_copy_job, jobs, chunksize=max(1, len(jobs) // (workers * 8)))
        except (OSError, ValueError):
            pass
    out = []
    hung = False
    for j in jobs:
        res = ([], 0) if hung else _copy_job(j)
        hung = hung or any((p.get('key') or '').startswith('hang:') for p in res[0])
        out.append(res)
    return out


def search_copies(ck: Ck) -> None:
    from harness import c09_util as U
    n = _budget(ck, 1000, 30000)
    cases: list[tuple[str, int, str]] = []
    if CORPUS.exists():
        for p in sorted(CORPUS.glob('*.json')):
            d = json.loads(p.read_text())
            cases.append((d['kind'], d['case_seed'], d['variant']))
    weights = {'Entity': 5, 'Solid': 4, 'Side': 5, 'Keyvalues': 3, 'EntityFixup': 3, 'VisGroup': 2}
    kinds = [k for k in U.KINDS for _ in range(weights.get(k, 1))]
    while len(cases) < n:
        kind = ck.rng.choice(kinds)
        cases.append((kind, ck.rng.randrange(1 << 30), ck.rng.choice(sorted(U.copy_variants(kind)))))
    found: dict[str, tuple[dict, tuple]] = {}
    jobs = [(kind, seed, variant, ck.rng.choice([3, 6, 12])) for kind, seed, variant in cases]
    results = _run_copy_cases(jobs)
    for (kind, seed, variant), (probs, size) in zip(cases, results):
        info = {'size': size}
        ck.count('copy_cases')
        ck.hist('copy_kind', kind)
        ck.hist('copy_variant', f'{kind}.{variant}')
        ck.hist('graph_size', min(info.get('size', 0) // 20 * 20, 400))
        if info.get('size', 0) >= 3:
            ck.seen((kind, seed, variant))
        for p in probs:
            if p['key'] not in found or info.get('size', 0) < found[p['key']][1][3]:
                found[p['key']] = (p, (kind, seed, variant, info.get('size', 0)))
    for key, (p, (kind, seed, variant, size)) in sorted(found.items()):
        ck.violation(key, p['what'], {'kind': kind, 'case_seed': seed, 'variant': variant, 'n_mut': 12, 'detail': p['detail'],
                                      'how': 'checks.c09.run_copy_case(kind, case_seed, variant, n_mut)'})
    ck.sample({'copy_case': list(cases[min(7, len(cases) - 1)]),
               'problems': run_copy_case(*cases[min(7, len(cases) - 1)], 6)})
    ck.extra['copy_violation_keys'] = sorted(found)


# ------------------------------------------------------------------------------------------------ boundary values of scalar fields
BOUNDARY = {str: ['', '0', ' '], int: [0, 1, -1, 2, 7], float: [0.0, -0.0, 0.25, -3.5], bool: [False, True]}


def _optional_scalar(o: Any, f: str) -> type | None:
    """str / int / float / bool when the class declares the field `Optional[<that>]` (run-time annotations), else None."""
    import typing
    for k in type(o).__mro__:
        ann = getattr(k, '__annotations__', {}).get(f)
        if ann is not None:
            args = typing.get_args(ann)
            if len(args) == 2 and type(None) in args:
                t = args[0] if args[1] is type(None) else args[1]
                return t if t in BOUNDARY else None
            return None
    return None


def boundary_values(o: Any, f: str, val: Any) -> list | None:
    """The boundary values to try for field f of o (current value val): by the run-time type of the value; a field
    declared Optional[scalar] is also tried with None, and when it currently IS None with the scalar's values; flag and
    enum fields with every member (and none / all flags); Vec4 fields with three tuples."""
    t = type(val)
    if t in BOUNDARY:
        return BOUNDARY[t] + ([None] if _optional_scalar(o, f) is t else [])
    if val is None:
        t2 = _optional_scalar(o, f)
        return list(BOUNDARY[t2]) if t2 is not None else None
    import enum
    if isinstance(val, enum.Flag):        # DispFlag, TriangleTag: no flag, every single flag, all flags
        members = list(t)
        every = t(0)
        for m in members:
            every |= m
        return [t(0)] + members + [every]
    if isinstance(val, enum.Enum):
        return list(t)
    if t.__name__ == 'Vec4':              # multiblend tuples of a displacement vertex
        return [t(0.0, 0.0, 0.0, 0.0), t(0.25, 0.5, 0.75, 1.0), t(1.0, 1.0, 1.0, 1.0)]
    return None


def run_boundary_case(kind: str, case_seed: int, variant: str) -> list[dict]:
    try:
        with deadline(60):
            return _run_boundary_case(kind, case_seed, variant)
    except ImplHang as e:
        return [{'key': f'hang:{kind}', 'what': f'{kind}.{variant} with a boundary value did not return ({e})', 'detail': [], 'n_fields': 0}]


def _run_boundary_case(kind: str, case_seed: int, variant: str) -> list[dict]:
    """One scalar field at a time: every str/int/float/bool data field of every map object reachable from a generated
    object is set to each boundary value of its type (falsy values, the values a constructor flag would map to, a value
    no editor writes), the object is copied, and the copy must export like the (edited) original.  This is the input
    class a lossy constructor-argument mapping needs (`only_once=` for `times=`, `p or default`)."""
    from harness import c09_util as U
    r = random.Random(case_seed)
    vmf, other = U.VMF(), U.VMF()
    obj = U.generate(kind, r, vmf)
    fn, complete = U.copy_variants(kind)[variant]
    problems: list[dict] = []
    if not complete:
        return problems
    todo = []
    done: set[tuple[str, str]] = set()
    for o, path in sorted(U.walk(obj).values(), key=lambda x: (len(x[1]), x[1])):
        if not type(o).__module__.startswith('srctools.') or type(o).__module__ == 'srctools.math':
            continue
        for lab, val in U.children(o):
            f = lab[1:]
            if not lab.startswith('.') or f == 'id' or boundary_values(o, f, val) is None or (type(o).__name__, f) in done:
                continue
            done.add((type(o).__name__, f))      # one object per (class, field) and case
            todo.append((o, f, val, path))
    for o, f, val, path in todo:
        for b in boundary_values(o, f, val) or []:
            if b == val and type(b) is type(val) and repr(b) == repr(val):
                continue
            try:
                setattr(o, f, b)
            except (AttributeError, TypeError, ValueError):
                break
            try:
                with warnings.catch_warnings():
                    warnings.simplefilter('ignore')
                    oa = U.observe(obj, True)
                    cp = fn(obj, other)
                    ob = U.observe(cp, True)
            except ImplHang:
                raise
            except Exception:
                continue        # not a state the object can be in (export or copy of the ORIGINAL fails): not a copy defect
            finally:
                setattr(o, f, val)
            if oa != ob:
                where, la, lb = U.first_diff(oa, ob)
                problems.append({'key': f'copy-incomplete:{kind}:{"output-line" if kind == "Output" else where_key(where)}',
                                 'what': f'{kind}.{variant} with {norm_path(path)}.{f} = {b!r}: export of the copy differs from the '
                                         f'original at {where}: {la!r} vs {lb!r}',
                                 'detail': [norm_path(path), f, repr(b), where, la, lb], 'n_fields': len(todo)})
    if not problems:
        problems.append({'key': None, 'n_fields': len(todo)})
    return problems


# ------------------------------------------------------------------------------------------------ empty containers
def _container_ops(c: Any):
    """(take out every element in place -> saved, put them back in place) for a mutable container, or None."""
    from harness import c09_util as U
    if isinstance(c, dict):
        return (lambda: (list(c.items()), c.clear())[0]), (lambda saved: c.update(saved))
    if isinstance(c, set):
        return (lambda: (list(c), c.clear())[0]), (lambda saved: c.update(saved))
    if isinstance(c, list):
        return (lambda: (list(c), c.clear())[0]), (lambda saved: c.extend(saved))
    if isinstance(c, U.Array):
        def take() -> list:
            saved = list(c)
            del c[:]
            return saved
        return take, (lambda saved: c.extend(saved))
    return None


def run_empty_case(kind: str, case_seed: int, variant: str) -> list[dict]:
    """One container field at a time: every list / dict / set / array field of every map object reachable from a
    generated object is EMPTIED in place (the falsy boundary value of a container: `x and ...`, `if x:`, `x or default`
    treat it like an absent one), the object is copied, and then
      * the copy must export like the (edited) original                       (copy-incomplete:...),
      * no mutable object — in particular not the empty container itself — may be shared   (shared-mutable:...),
      * the original's container is FILLED again after the copy and the copy must not change   (mutation-visible:...),
      * the copy's container at the same place is filled and the original must not change.
    States the original cannot be in (its own export raises) are skipped; a copy() that raises on a state the
    original exports fine is a problem."""
    try:
        with deadline(20):
            return _run_empty_case(kind, case_seed, variant)
    except ImplHang as e:
        return [{'key': f'hang:{kind}', 'what': f'{kind}.{variant} with an emptied container did not return ({e})', 'detail': []}]


def _run_empty_case(kind: str, case_seed: int, variant: str) -> list[dict]:
    from harness import c09_util as U
    r = random.Random(case_seed)
    vmf, other = U.VMF(), U.VMF()
    obj = U.generate(kind, r, vmf)
    fn, complete = U.copy_variants(kind)[variant]
    problems: list[dict] = []
    todo = []
    done: set[tuple[str, str]] = set()
    for o, path in sorted(U.walk(obj).values(), key=lambda x: (len(x[1]), x[1])):
        if not type(o).__module__.startswith('srctools.') or type(o).__module__ == 'srctools.math':
            continue
        for lab, val in U.children(o):
            if not lab.startswith('.') or _container_ops(val) is None or (type(o).__name__, lab) in done:
                continue
            done.add((type(o).__name__, lab))
            todo.append((o, lab[1:], val, path))
    n_done = 0
    for o, f, c, path in todo:
        take, put = _container_ops(c)      # type: ignore[misc]
        saved = take()
        try:
            with warnings.catch_warnings():
                warnings.simplefilter('ignore')
                try:
                    oa = U.observe(obj, True)
                except ImplHang:
                    raise
                except Exception:
                    continue          # not a state the original can be in
                try:
                    cp = fn(obj, other)
                    ob = U.observe(cp, True)
                except ImplHang:
                    raise
                except Exception as e:
                    problems.append({'key': f'copy-raised:{kind}:{type(e).__name__}',
                                     'what': f'{kind}.{variant} with {norm_path(path)}.{f} emptied (the original exports fine) raised '
                                             f'{type(e).__name__}: {e}', 'detail': [norm_path(path), f], 'n_fields': len(todo)})
                    continue
                n_done += 1
                where_f = f'{type(o).__name__}.{f}'
                if complete and oa != ob:
                    where, la, lb = U.first_diff(oa, ob)
                    problems.append({'key': f'copy-incomplete:{kind}:{"output-line" if kind == "Output" else "tree" if kind == "Keyvalues" else where_key(where)}',
                                     'what': f'{kind}.{variant} with {norm_path(path)}.{f} EMPTY: export of the copy differs from the '
                                             f'original at {where}: {la!r} vs {lb!r}', 'detail': [norm_path(path), f, where, la, lb]})
                for pa, pb, tn in U.shared_mutables(obj, cp):
                    problems.append({'key': f'shared-mutable:{kind}:{norm_path(pa)}',
                                     'what': f'{kind}.{variant} with {norm_path(path)}.{f} EMPTY: the mutable {tn} at {pa} is the same '
                                             f'object in original and copy ({pb})', 'detail': [pa, pb, tn, where_f]})
                # the copy's container at the same place
                tail = path[len(type(obj).__name__):] + '.' + f
                cc = next((x for x, px in U.walk(cp).values() if px[len(type(cp).__name__):] == tail), None)
                snap_o = U.observe(obj)
                snap_c = U.observe(cp)
                put(saved)                      # fill the ORIGINAL's container after the copy
                saved_back = True
                if U.observe(cp) != snap_c:
                    where, la, lb = U.first_diff(snap_c, U.observe(cp))
                    problems.append({'key': f'mutation-visible:{kind}:empty-{where_f}',
                                     'what': f'{kind}.{variant}: {norm_path(path)}.{f} was EMPTY when the copy was made; filling it in the '
                                             f'original afterwards changed the export of the copy at {where}: {la!r} -> {lb!r}',
                                     'detail': [norm_path(path), f, where, la, lb]})
                elif cc is not None and cc is not c and _container_ops(cc) is not None and type(cc) is type(c):
                    snap_o = U.observe(obj)
                    _container_ops(cc)[1](saved)    # type: ignore[index]   # fill the COPY's container
                    if U.observe(obj) != snap_o:
                        where, la, lb = U.first_diff(snap_o, U.observe(obj))
                        problems.append({'key': f'mutation-visible:{kind}:empty-{where_f}',
                                         'what': f'{kind}.{variant}: {norm_path(path)}.{f} was EMPTY when the copy was made; filling it in '
                                                 f'the copy afterwards changed the export of the original at {where}: {la!r} -> {lb!r}',
                                         'detail': [norm_path(path), f, where, la, lb]})
                saved = None
        finally:
            if saved is not None:
                put(saved)
    if not problems:
        problems.append({'key': None})
    problems[0]['n_fields'] = n_done
    return problems


def search_empty(ck: Ck) -> None:
    from harness import c09_util as U
    n = _budget(ck, 130, 2000)
    found: dict[str, tuple[dict, tuple]] = {}
    for i in range(n):
        kind = U.KINDS[i % len(U.KINDS)]
        seed = ck.rng.randrange(1 << 30)
        variant = ck.rng.choice(sorted(U.copy_variants(kind)))
        probs = run_empty_case(kind, seed, variant)
        if any((p.get('key') or '').startswith('hang:') for p in probs):
            found.setdefault(probs[0]['key'], (probs[0], (kind, seed, variant)))
            break
        nf = probs[0].get('n_fields', 0) if probs else 0
        ck.count('empty_container_cases')
        ck.count('empty_container_fields', nf)
        ck.hist('empty_container_kind', kind)
        if nf:
            ck.seen(('empty', kind, seed, variant))
        for p in probs:
            if p.get('key'):
                found.setdefault(p['key'], (p, (kind, seed, variant)))
    for key, (p, (kind, seed, variant)) in sorted(found.items()):
        ck.violation(key, p['what'], {'empty_container': True, 'kind': kind, 'case_seed': seed, 'variant': variant, 'detail': p['detail'],
                                      'how': 'checks.c09.run_empty_case(kind, case_seed, variant)'})


def search_boundary(ck: Ck) -> None:
    from harness import c09_util as U
    n = _budget(ck, 110, 1500)
    found: dict[str, tuple[dict, tuple]] = {}
    for i in range(n):
        kind = U.KINDS[i % len(U.KINDS)]
        seed = ck.rng.randrange(1 << 30)
        complete = sorted(v for v, (_f, c) in U.copy_variants(kind).items() if c)
        variant = ck.rng.choice(complete)
        probs = run_boundary_case(kind, seed, variant)
        if kind == 'Output':       # small objects, four ways of copying them (copy(), copy.copy, copy.deepcopy, pickle): try all
            for v2 in complete:
                if v2 != variant:
                    extra = [dict(p, variant=v2) for p in run_boundary_case(kind, seed, v2) if p.get('key')]
                    probs = probs + extra
        if any((p.get('key') or '').startswith('hang:') for p in probs):
            found.setdefault(probs[0]['key'], (probs[0], (kind, seed, variant)))
            break
        nf = probs[0].get('n_fields', 0) if probs else 0
        ck.count('boundary_cases')
        ck.count('boundary_field_edits', nf)
        ck.hist('boundary_kind', kind)
        if nf:
            ck.seen(('boundary', kind, seed, variant))
        for p in probs:
            if p.get('key'):
                found.setdefault(p['key'], (p, (kind, seed, p.get('variant', variant))))
    for key, (p, (kind, seed, variant)) in sorted(found.items()):
        ck.violation(key, p['what'], {'boundary': True, 'kind': kind, 'case_seed': seed, 'variant': variant, 'detail': p['detail'],
                                      'how': 'checks.c09.run_boundary_case(kind, case_seed, variant)'})


# ------------------------------------------------------------------------------------------------ kernel-checked certificates
def coq_heap(nodes, a, b, sa, sb) -> str:
    def fld(f):
        return f'VRef {f[1]}%positive' if f[0] == 'R' else f'VAtom {f[1]}%Z'
    lit = coq_list(f'({loc}%positive, Node {"true" if m else "false"} {coq_list(fld(f) for f in fs)})' for loc, m, fs in nodes)
    pl = lambda l: '(' + coq_list(f'{x}%positive' for x in l) + ')'
    return f'export_ok {lit} {a}%positive {b}%positive {pl(sa)} {pl(sb)}'


def coq_eval_parallel(ck: Ck, exprs: list[str], name: str, per_process: int, workers: int = 4) -> list[str] | None:
    """ck.coq_eval over chunks of `per_process` expressions, up to `workers` coqc processes at a time (each chunk is an
    independent scratch file; the kernel work per heap is the same, the wall time of the phase is divided).  None when
    any chunk could not be evaluated."""
    from concurrent.futures import ThreadPoolExecutor
    chunks = [exprs[lo:lo + per_process] for lo in range(0, len(exprs), per_process)]
    if not chunks:
        return []

    def one(k: int) -> list[str] | None:
        return ck.coq_eval(IMPORTS, chunks[k], name=f'{name}{k}', preamble='Import ListNotations.\n', timeout=900)
    with ThreadPoolExecutor(max_workers=workers) as ex:
        parts = list(ex.map(one, range(len(chunks))))
    if any(p is None for p in parts):
        return None
    return [v for p in parts for v in p]        # type: ignore[union-attr]


def cert_cases(ck: Ck) -> None:
    """Export original+copy object graphs of real objects and let the kernel check the separation certificate
    (the premise of c09_export_ok_independent)."""
    from harness import c09_util as U
    n = _budget(ck, 55, 550)
    exprs, meta = [], []
    kinds = itertools.cycle(U.KINDS)
    tries = 0
    while len(exprs) < n and tries < 10 * n:
        tries += 1
        kind = next(kinds)
        seed = ck.rng.randrange(1 << 30)
        variant = ck.rng.choice(sorted(U.copy_variants(kind)))
        r = random.Random(seed)
        vmf, other = U.VMF(), U.VMF()
        obj = U.generate(kind, r, vmf)
        with warnings.catch_warnings():
            warnings.simplefilter('ignore')
            cp = U.copy_variants(kind)[variant][0](obj, other)
        nodes, a, b, sa, sb = U.export_heap(obj, cp)
        if len(nodes) > 700:
            continue
        exprs.append(coq_heap(nodes, a, b, sa, sb))
        meta.append((kind, seed, variant, len(nodes), bool(U.shared_mutables(obj, cp))))
        ck.count('certificate_cases')
        ck.hist('certificate_heap_nodes', len(nodes) // 50 * 50)
        if len(nodes) >= 4:
            ck.seen(('cert', kind, seed, variant))
    vals = coq_eval_parallel(ck, exprs, 'cert', 14 if not ck.thorough else 55)
    if vals is None:
        ck.obligation('certificate:export_ok', False, 'exported heaps could not be evaluated by coqc')
        ck.tie_broken.append('certificate evaluation failed')
        return
    bad = [m for m, v in zip(meta, vals) if v != 'true']
    disagree = [m for m, v in zip(meta, vals) if (v == 'true') == m[4]]
    ck.obligation('certificate:export_ok', not bad,
                  f'{len(exprs)} exported (original, copy) heaps: separation certificate accepted by the kernel for '
                  f'{len(exprs) - len(bad)}; rejected: {[m[:3] for m in bad][:6]}')
    ck.obligation('correspondence:walker_vs_kernel', not disagree,
                  f'Python identity walk and kernel certificate agree on {len(exprs) - len(disagree)}/{len(exprs)} heaps')
    if bad:
        ck.tie_broken.append('separation certificate rejected for a real copy')
    if disagree:
        ck.tie_broken.append('identity walk and kernel certificate disagree')
    ck.sample({'certificate_case': meta[0][:4], 'kernel_says_separated': vals[0]})
    ck.extra['certificate_rejected'] = [list(m) for m in bad][:20]


def export_rows_heap(a: Any, b: Any, ta: Any, tb: Any, side: dict) -> tuple:
    """The object graphs of a (original) and b (copy) as a finite heap for the two census certificates: like
    c09_util.export_heap, but for every object whose TYPE NAME is a class of the census table the fields are the
    attributes named by that class's census, in census order, and the node is reported as a TYPED NODE
    (location, type(o).__name__, the attribute names read).  Nothing is decided here: the kernel derives the census
    label from the type name (`label_of_type class_of_label`), checks that the names read are the census's field names in
    census order and that the node has that many fields (`typed_nodes_ok`), and computes the export mask
    (`masks_of_typed` in Props/C09.v).  Objects of any other type are plain nodes (all children, fully observed — the
    strict reading).  Returns nodes, the OLD locations (a's graph), the locations of ta and tb, the reach set of tb
    (new-set certificate), the typed nodes and a comparison depth (height of the graph + 1)."""
    from harness import c09_util as U
    names_of_type: dict[str, list[str]] = {}       # type name -> attribute names to read (validated in the kernel)
    for lab in side.get('classes', []):
        names_of_type.setdefault(side.get('class_of', {}).get(lab, lab), [r[0] for r in side['census'][lab]])

    wa, wb = U.walk(a), U.walk(b)
    locs: dict[int, int] = {}
    objs: list[Any] = []
    for w in (wa, wb):
        for i, (o, _p) in w.items():
            if i not in locs:
                locs[i] = len(locs) + 1
                objs.append(o)
    atoms: dict[str, int] = {}
    nodes, typed = [], []
    for o in objs:
        names = names_of_type.get(type(o).__name__)
        if names is not None:
            kids = [('.' + n, getattr(o, n)) for n in names]
            typed.append((locs[id(o)], type(o).__name__, names))
        else:
            kids = U.children(o)
            if isinstance(o, U.Array):
                kids = [('[]', x) for x in o]
        fs = []
        for _lab, ch in kids:
            if id(ch) in locs and not U.is_context(ch) and not U.is_immutable_leaf(ch):
                fs.append(('R', locs[id(ch)]))
            else:
                key = 'ctx' if U.is_context(ch) else f'{type(ch).__name__}:{ch!r}'
                fs.append(('A', atoms.setdefault(key, len(atoms))))
        nodes.append((locs[id(o)], U.is_mutable(o), fs))
    kids_of = {loc: [f[1] for f in fs if f[0] == 'R'] for loc, _m, fs in nodes}
    memo: dict[int, int] = {}

    def height(l: int, stack: tuple = ()) -> int:
        if l in memo:
            return memo[l]
        if l in stack:
            return 10 ** 6      # a cycle: no depth stabilises, the kernel will reject
        memo[l] = 1 + max([height(k, stack + (l,)) for k in kids_of.get(l, [])] or [0])
        return memo[l]
    depth = min(64, max(height(locs[id(ta)]), height(locs[id(tb)])) + 1)
    return nodes, [locs[i] for i in wa], locs[id(ta)], locs[id(tb)], [locs[i] for i in U.walk(tb)], typed, depth


def cert_rows(ck: Ck, side: dict, eside: dict) -> None:
    """For generated objects of EVERY census label (nested ones included: a DispVertex of a copied side, a FixupValue
    of a copied fixup table) export original + copy and let the kernel decide, against the generated census_X /
    sources_X / export_reads_X:
      row_cert_ok    — every field of the copy is related to its source field of the original as the row says (same
                       value / fresh container of the same elements / only new mutables below / a new ID), the
                       original's fields have the declared kinds, the heaps are closed: the INDEPENDENCE premises
                       (c09_row_cert_sound);
      export_cert_ok — every field export reads is, in the copy, the same value / a fresh container of the same
                       elements / a nested copy observed equal at every depth under the nested export masks: the
                       COMPLETENESS premises (c09_export_cert_sound).
    Both accepted on the same heap + the census obligations = the whole property for that real pair, inside the kernel
    (c09_real_copy_complete_and_independent)."""
    from harness import c09_util as U
    census = side.get('census', {})
    class_of = side.get('class_of', {})
    makers: dict[str, tuple[str, Any]] = {
        'EntityFixup_copy_values': ('EntityFixup', lambda o: U.EntityFixup(o.copy_values())),
        'EntityFixup_copy': ('EntityFixup', lambda o: _copy.copy(o)),
        'EntityFixup_deepcopy': ('EntityFixup', lambda o: _copy.deepcopy(o)),
        'EntityFixup_pickle': ('EntityFixup', lambda o: pickle.loads(pickle.dumps(o))),
        'Keyvalues_deepcopy': ('Keyvalues', lambda o: _copy.deepcopy(o)),
        'Keyvalues_pickle': ('Keyvalues', lambda o: pickle.loads(pickle.dumps(o))),
    }
    for k in ('Camera', 'Cordon', 'VisGroup', 'Solid', 'UVAxis', 'Side', 'Entity', 'EntityGroup', 'Output', 'Keyvalues'):
        makers[k] = (k, lambda o: o.copy())
    n = _budget(ck, 3, 24)
    exprs: list[str] = []
    meta: list[tuple] = []
    no_probe: list[str] = []

    def fld(f):
        return f'VRef {f[1]}%positive' if f[0] == 'R' else f'VAtom {f[1]}%Z'
    pl = lambda l: '(' + coq_list(f'{x}%positive' for x in l) + ')'
    for lab, rows in census.items():
        got = 0
        for _try in range(4 * n):
            if got >= n:
                break
            seed = ck.rng.randrange(1 << 30)
            r = random.Random(seed)
            with warnings.catch_warnings():
                warnings.simplefilter('ignore')
                if lab in makers:
                    o = U.generate(makers[lab][0], r, U.VMF())
                    c = makers[lab][1](o)
                    ta, tb = o, c
                elif lab.startswith('DispVertex_in_'):
                    o = U.g_side(r, U.VMF(), r.choice([1, 2]))
                    c = o.copy()
                    if not o._disp_verts:
                        continue
                    k = r.randrange(len(o._disp_verts))
                    ta, tb = o._disp_verts[k], c._disp_verts[k]
                elif lab.startswith('FixupValue_in_') and lab.split('_in_')[1] in makers:
                    o = U.generate('EntityFixup', r, U.VMF())
                    c = makers[lab.split('_in_')[1]][1](o)
                    if not o._fixup:
                        continue
                    k0 = r.choice(sorted(o._fixup))
                    ta, tb = o._fixup[k0], c._fixup[k0]
                else:
                    no_probe.append(lab)
                    break
            try:
                nodes, old, la, lc, sb, typed, depth = export_rows_heap(o, c, ta, tb, side)
            except AttributeError:
                continue
            if len(nodes) > 700:
                continue
            lit = coq_list(f'({loc}%positive, Node {"true" if m else "false"} {coq_list(fld(f) for f in fs)})' for loc, m, fs in nodes)
            tl = coq_list('(%d%%positive, "%s"%%string, %s)' % (loc, tname, coq_list(f'"{x}"%string' for x in names))
                          for loc, tname, names in typed)
            exprs.append(f'let L := {lit} in let O := {pl(old)} in let T := {tl} in '
                         f'(row_cert_ok L O {la}%positive {lc}%positive {pl(sb)} census_{lab} sources_{lab}, '
                         f'(typed_nodes_ok all_census class_of_label L T, '
                         f'export_cert_ok L O {la}%positive {lc}%positive (masks_of_typed T) {depth} census_{lab} sources_{lab} '
                         f'export_reads_{class_of.get(lab, lab)}))')
            meta.append((lab, seed, len(nodes), depth))
            got += 1
            ck.count('row_certificate_cases')
            ck.hist('row_certificate_label', lab)
            ck.hist('row_certificate_depth', depth)
            ck.seen(('rowcert', lab, seed))
    vals = coq_eval_parallel(ck, exprs, 'rowcert', 15 if not ck.thorough else 60)
    if vals is None:
        ck.obligation('certificate:census_rows_hold', False, 'exported heaps could not be evaluated by coqc')
        ck.obligation('certificate:export_rows_hold', False, 'exported heaps could not be evaluated by coqc')
        ck.tie_broken.append('census-row certificate evaluation failed')
        return
    flat = [v.replace(' ', '').replace('\n', '') for v in vals]
    bad_rows = [m for m, v in zip(meta, flat) if not v.startswith('(true,')]
    bad_exp = [m for m, v in zip(meta, flat) if not v.endswith(',true))')]
    bad_typed = [m for m, v in zip(meta, flat) if ',(true,' not in v]
    ck.obligation('certificate:typed_nodes_validated', not bad_typed,
                  f'the same {len(exprs)} heaps: for every node whose run-time type name is a class of the census table the kernel '
                  f'finds the census label from the type name, and the attribute names the harness read are that census\'s field '
                  f'names in census order (node arity checked), for {len(exprs) - len(bad_typed)}; rejected: {bad_typed[:6]}')
    if bad_typed:
        ck.tie_broken.append('typed nodes of an exported heap rejected by the kernel: ' + repr(bad_typed[:4]))
    ck.obligation('certificate:census_rows_hold', not bad_rows and not no_probe,
                  f'{len(exprs)} exported (original, copy) heaps over {len(census) - len(no_probe)} census labels: the kernel decides that '
                  f'every field of the copy is related to its source field as the generated census row says and that the '
                  f'original\'s fields have the declared kinds, for {len(exprs) - len(bad_rows)}; rejected (label, seed, nodes, depth): '
                  f'{bad_rows[:6]}; labels without a run-time probe: {no_probe}')
    ck.obligation('certificate:export_rows_hold', not bad_exp and not no_probe,
                  f'the same {len(exprs)} heaps with the export mask of every labelled node: the kernel decides that every field '
                  f'export reads is carried over as the row says, nested copies observed equal at every depth (compared at a '
                  f'stabilised depth), for {len(exprs) - len(bad_exp)}; rejected: {bad_exp[:6]}')
    if bad_rows or bad_exp or no_probe:
        ck.tie_broken.append('census rows do not hold on a real (original, copy) object graph: ' + repr((bad_rows + bad_exp + no_probe)[:4]))
    ck.extra['row_certificate_rejected'] = [list(m) for m in bad_rows][:20]
    ck.extra['export_certificate_rejected'] = [list(m) for m in bad_exp][:20]


# ------------------------------------------------------------------------------------------------ census vs runtime
def runtime_how(a: Any, b: Any) -> str:
    """What really happened to one field: a = value in the original, b = value in the copy."""
    from harness import c09_util as U
    if U.is_context(a) or U.is_context(b):
        return 'ctx'
    if U.is_immutable_leaf(a) or isinstance(a, (tuple, frozenset)):
        try:
            return 'imm-same' if (a is b or a == b) else 'imm-diff'
        except Exception:
            return 'imm-diff'
    if a is b:
        return 'share'
    return 'shallow' if U.shared_mutables(a, b) else 'deep'


CONSISTENT = {
    'HShare': {'share', 'imm-same'}, 'HDeep': {'deep', 'imm-same'}, 'HShallow': {'shallow', 'deep', 'imm-same'},
    'HMissing': {'deep', 'imm-same', 'imm-diff'}, 'HCtx': {'ctx'}, 'HNewId': {'imm-same', 'imm-diff'},
}


def corr_census_runtime(ck: Ck, side: dict, unfresh: tuple = ()) -> None:
    """The translator's census (static) against what copy() really does on generated objects (dynamic): for every
    class and data field, is the field of the copy the same object / a fresh container of the same elements / fresh
    all the way down, as the census says?  Guards the translator."""
    from harness import c09_util as U
    census = side.get('census', {})
    makers: dict[str, tuple[str, Any]] = {
        'EntityFixup_copy_values': ('EntityFixup', lambda o, m: U.EntityFixup(o.copy_values())),
        'EntityFixup_copy': ('EntityFixup', lambda o, m: _copy.copy(o)),
        'EntityFixup_deepcopy': ('EntityFixup', lambda o, m: _copy.deepcopy(o)),
        'EntityFixup_pickle': ('EntityFixup', lambda o, m: pickle.loads(pickle.dumps(o))),
        'Keyvalues_deepcopy': ('Keyvalues', lambda o, m: _copy.deepcopy(o)),
        'Keyvalues_pickle': ('Keyvalues', lambda o, m: pickle.loads(pickle.dumps(o))),
    }
    for k in ('Camera', 'Cordon', 'VisGroup', 'Solid', 'UVAxis', 'Side', 'Entity', 'EntityGroup', 'Output', 'Keyvalues'):
        makers[k] = (k, lambda o, m: o.copy())
    n = _budget(ck, 25, 200)
    bad: list[tuple] = []
    seen_fields: set[tuple[str, str]] = set()
    unknown = [lab for lab in census if lab not in makers and not lab.startswith(('DispVertex_in_', 'FixupValue_in_'))]
    for lab in unknown:
        bad.append((lab, '*', 'no runtime probe for this census', ''))
    for lab, rows in census.items():
        pairs: list[tuple[Any, Any]] = []
        for _ in range(n):
            r = random.Random(ck.rng.randrange(1 << 30))
            vmf, other = U.VMF(), U.VMF()
            with warnings.catch_warnings():
                warnings.simplefilter('ignore')
                if lab in makers:
                    o = U.generate(makers[lab][0], r, vmf)
                    pairs.append((o, makers[lab][1](o, other)))
                elif lab.startswith('DispVertex_in_'):
                    o = U.g_side(r, vmf, r.choice([1, 2]))
                    c = o.copy()
                    pairs += list(zip(o._disp_verts, c._disp_verts))[:6]
                elif lab.startswith('FixupValue_in_'):
                    o = U.generate('EntityFixup', r, vmf)
                    which = lab.split('_in_')[1]
                    c = makers[which][1](o, other)
                    pairs += list(zip(o._fixup.values(), (c._fixup[k] for k in o._fixup)))
        for o, c in pairs:
            ck.count('census_runtime_pairs')
            for f, _kind, how, _detail in rows:
                # the census says from WHICH field of the original the field of the copy is built
                srcs = side.get('sources', {}).get(lab, {}).get(f, [])
                sf = srcs[0] if len(srcs) == 1 and how in ('HShare', 'HDeep', 'HShallow') else f
                try:
                    a, b = getattr(o, sf), getattr(c, f)
                except AttributeError:
                    bad.append((lab, f, 'attribute missing at run time', how))
                    continue
                if sf != f:
                    ck.hist('census_runtime_cross_field', f'{lab}.{f}<-{sf}')
                rt = runtime_how(a, b)
                ck.hist('census_runtime', f'{how}->{rt}')
                seen_fields.add((lab, f))
                ok_rt = set(CONSISTENT[how])
                if f in side.get('conditional', {}).get(lab, []):
                    # the row is the WEAKER of the two branches of a conditional (`copies if test else self.f`): on the
                    # inputs that take the other branch the field is better than the row says
                    ok_rt |= {'share', 'shallow', 'deep', 'imm-same'}
                if how == 'HDeep' and unfresh:
                    # HDeep = "the nested copy() / constructor census decides"; when one of those censuses itself
                    # fails copy_fresh_mutables the census as a whole SAYS that mutables are shared below this field
                    ok_rt.add('shallow')
                if rt not in ok_rt:
                    bad.append((lab, f, rt, how))
    for lab, rows in census.items():
        for f, *_ in rows:
            if (lab, f) not in seen_fields and lab not in unknown:
                bad.append((lab, f, 'never exercised', ''))
    uniq = sorted(set(bad))
    ck.obligation('correspondence:census_vs_runtime', not uniq,
                  f'{len(census)} censuses x fields compared with the object identities produced by the real copy methods; '
                  f'disagreements (census label, field, runtime, census how): {uniq[:8]}')
    if uniq:
        ck.tie_broken.append('copy census disagrees with the run-time behaviour of copy(): ' + repr(uniq[:4]))



def corr_flows_runtime(ck: Ck, side: dict) -> None:
    """The translator's ARGUMENT-FLOW census (static) against the real constructors (dynamic): for every census with a
    run-time probe and every immutable scalar field the census says is carried over by identity (kind KImm, how HShare,
    flows = [(the field itself, ident)]), each boundary value of the field's run-time type (falsy values, the values a
    constructor flag would map to, a value no editor writes) is stored in the original, the object is copied, and the
    field OF THE COPY must be that very value (same type, same repr) — whether or not export shows the field.  A field
    stored after construction only under `if <test on self>` is probed in the states where the test holds.
    Guards the translator's specialisation of the constructor (defaults, partial evaluation, properties)."""
    from harness import c09_util as U
    census, flows, guards = side.get('census', {}), side.get('flows', {}), side.get('post_guards', {})
    makers: dict[str, tuple[str, Any]] = {
        'EntityFixup_copy': ('EntityFixup', lambda o: _copy.copy(o)),
        'EntityFixup_deepcopy': ('EntityFixup', lambda o: _copy.deepcopy(o)),
        'EntityFixup_pickle': ('EntityFixup', lambda o: pickle.loads(pickle.dumps(o))),
        'Keyvalues_deepcopy': ('Keyvalues', lambda o: _copy.deepcopy(o)),
        'Keyvalues_pickle': ('Keyvalues', lambda o: pickle.loads(pickle.dumps(o))),
    }
    for k in ('Camera', 'Cordon', 'VisGroup', 'Solid', 'UVAxis', 'Side', 'Entity', 'EntityGroup', 'Output', 'Keyvalues'):
        makers[k] = (k, lambda o: o.copy())
    n = _budget(ck, 5, 40)
    bad: list[tuple] = []
    seen: set[tuple[str, str]] = set()
    skipped: set[tuple[str, str, str]] = set()
    for lab, rows in census.items():
        nested = None
        if lab in makers:
            kind, mk = makers[lab]
        elif lab == 'DispVertex_in_Side':
            kind, mk, nested = 'Side', (lambda o: o.copy()), (lambda o: o._disp_verts[0] if o._disp_verts else None)
        else:
            continue        # FixupValue rows: an immutable named tuple, no field can be stored into (census_vs_runtime covers them)
        todo = [r[0] for r in rows if r[1] == 'KImm' and r[2] == 'HShare' and flows.get(lab, {}).get(r[0]) == [[r[0], 'ident']]]
        for _ in range(n):
            r = random.Random(ck.rng.randrange(1 << 30))
            with warnings.catch_warnings():
                warnings.simplefilter('ignore')
                o = U.g_side(r, U.VMF(), r.choice([1, 2])) if nested else U.generate(kind, r, U.VMF())
                tgt = nested(o) if nested else o
                if tgt is None:
                    continue
                for f in todo:
                    try:
                        val = getattr(tgt, f)
                    except AttributeError:
                        bad.append((lab, f, 'attribute missing at run time', ''))
                        continue
                    bvals = boundary_values(tgt, f, val)
                    if bvals is None:
                        skipped.add((lab, f, type(val).__name__))
                        continue
                    for b in bvals:
                        try:
                            setattr(tgt, f, b)
                        except (AttributeError, TypeError, ValueError):
                            skipped.add((lab, f, 'read-only'))
                            break
                        try:
                            if not all(eval(g, {'self': tgt, 'isinstance': isinstance, 'list': list}) for g in guards.get(lab, {}).get(f, [])):
                                continue
                            c = mk(o)
                            got = getattr(nested(c) if nested else c, f)
                        except Exception:
                            continue      # not a state the object can be in / the guard needs a copy() parameter
                        finally:
                            setattr(tgt, f, val)
                        ck.count('flow_runtime_probes')
                        seen.add((lab, f))
                        if type(got) is not type(b) or got != b or repr(got) != repr(b):
                            bad.append((lab, f, repr(b), repr(got)))
    uniq = sorted(set(bad))
    for lab, f in sorted(seen):
        ck.hist('flow_runtime_field', f'{lab}.{f}')
    ck.obligation('correspondence:flows_vs_runtime', not uniq,
                  f'{len(seen)} (census, scalar field) pairs whose flow census says "carried over by identity": each boundary '
                  f'value stored in the original arrives unchanged in the copy; disagreements (census, field, value stored, '
                  f'value in the copy): {uniq[:8]}; not probed (run-time type without boundary values / read-only): '
                  f'{sorted(skipped)[:12]}')
    ck.extra['flow_runtime_not_probed'] = sorted(skipped)
    if uniq:
        ck.tie_broken.append('argument-flow census disagrees with the run-time behaviour of copy(): ' + repr(uniq[:4]))


def corr_export_reads(ck: Ck, side: dict, eside: dict) -> None:
    """The translator's export-reads census (static) against the attribute reads traced while the real export runs
    on generated objects (every reachable map object switched to a logging subclass): every data field really read
    must be in the static census (the static census over-approximates, which is what copy_export_equal needs)."""
    from harness import c09_util as U
    reads = eside.get('reads', {})
    fields: dict[str, set[str]] = {}
    for lab, rows in side.get('census', {}).items():
        fields.setdefault(side.get('class_of', {}).get(lab, lab), set()).update(r[0] for r in rows)
    n = _budget(ck, 12, 80)
    missing: set[tuple[str, str]] = set()
    seen: set[tuple[str, str]] = set()
    for kind in U.KINDS:
        for _ in range(n):
            r = random.Random(ck.rng.randrange(1 << 30))
            o = U.generate(kind, r, U.VMF())
            before = U.observe(o)
            got = U.traced_export_reads(o)
            if U.observe(o) != before:
                missing.add((kind, '<tracing changed the export>'))
            ck.count('export_read_traces')
            for cname, attr in got:
                if attr in fields.get(cname, ()):
                    seen.add((cname, attr))
                    ck.hist('export_reads_runtime', f'{cname}.{attr}')
                    if attr not in reads.get(cname, []):
                        missing.add((cname, attr))
    never = sorted((c, f) for c, fs in reads.items() for f in fs if (c, f) not in seen and f in fields.get(c, ()))
    ck.obligation('correspondence:export_reads_vs_runtime', not missing,
                  f'{len(seen)} (class, field) pairs read by the real export on generated objects, all must be in the static '
                  f'export-reads census; missing from the census: {sorted(missing)[:8]}; in the census but never read at run '
                  f'time (over-approximation, harmless): {never[:8]}')
    ck.extra['export_reads_static_never_read_at_runtime'] = never
    if missing:
        ck.tie_broken.append('export-reads census misses fields the real export reads: ' + repr(sorted(missing)[:4]))


# ------------------------------------------------------------------------------------------------ operators
def operand_expr(x: Any) -> str:
    """A Python expression (namespace of srctools.math) that rebuilds an operand for a replay."""
    n = type(x).__name__
    if n in ('Matrix', 'FrozenMatrix'):
        a = x.to_angle()
        return f'Matrix.from_angle(Angle({a.pitch!r}, {a.yaw!r}, {a.roll!r}))' + ('.freeze()' if n == 'FrozenMatrix' else '')
    return repr(x)


def search_operators(ck: Ck) -> None:
    try:
        with deadline(180):
            _search_operators(ck)
    except ImplHang as e:
        ck.violation('hang:operators', f'an operator of math.py did not return ({e})', {'how': 'checks.c09.search_operators'})


def _search_operators(ck: Ck) -> None:
    from harness.c09_util import bits
    from srctools.math import Angle, FrozenAngle, FrozenMatrix, FrozenVec, Matrix, Vec
    r = ck.rng
    n = _budget(ck, 40, 400)

    def operands():
        f = lambda: r.choice([0.0, -0.0, 1.0, -1.5, 90.0, 359.5, 1e-3, 37.25, 1024.0])
        m = Matrix.from_angle(Angle(f(), f(), f()))
        return [Vec(f(), f(), f()), FrozenVec(f(), f(), f()), Angle(f(), f(), f()), FrozenAngle(f(), f(), f()),
                m, m.freeze(), Matrix.from_yaw(f()).freeze(), 2.5, 3, (1.0, 2.0, 3.0), -1]
    binops = {'+': operator.add, '-': operator.sub, '*': operator.mul, '/': operator.truediv, '//': operator.floordiv,
              '%': operator.mod, '@': operator.matmul, 'divmod': divmod, '==': operator.eq, '<': operator.lt,
              '>=': operator.ge}
    unops = {'neg': operator.neg, 'pos': operator.pos, 'abs': abs, 'round': round, 'bool': bool, 'str': str, 'repr': repr,
             'hash': lambda x: hash(x) if type(x).__name__.startswith('Frozen') else None, 'iter': lambda x: list(x) if hasattr(x, '__iter__') else None,
             'copy': lambda x: x.copy() if hasattr(x, 'copy') else None,
             # the generic copy entry points (__copy__ / __deepcopy__ / __reduce__ of the six classes)
             'copy.copy': lambda x: _copy.copy(x), 'copy.deepcopy': lambda x: _copy.deepcopy(x),
             'pickle': lambda x: pickle.loads(pickle.dumps(x)),
             'transpose': lambda x: x.transpose() if hasattr(x, 'transpose') else None,
             'inverse': lambda x: x.inverse() if hasattr(x, 'inverse') else None,
             'to_angle': lambda x: x.to_angle() if hasattr(x, 'to_angle') else None,
             'norm': lambda x: x.norm() if hasattr(x, 'norm') and bool(x) else None,
             'cross': lambda x: x.cross(Vec(1, 2, 3)) if hasattr(x, 'cross') else None,
             'dot': lambda x: x.dot(Vec(1, 2, 3)) if hasattr(x, 'dot') else None,
             'rotate_by': lambda x: (x @ Angle(0, 90, 0)) if hasattr(x, 'mag') else None,
             'thaw/freeze': lambda x: (x.thaw() if hasattr(x, 'thaw') else x.freeze() if hasattr(x, 'freeze') else None)}
    for _ in range(n):
        ops = operands()
        for (name, fn) in binops.items():
            for a, b in itertools.product(ops, ops):
                if not (hasattr(a, 'copy') or hasattr(b, 'copy')):
                    continue
                sa, sb = bits(a), bits(b)
                ea, eb = operand_expr(a), operand_expr(b)
                try:
                    with warnings.catch_warnings():
                        warnings.simplefilter('ignore')
                        res = fn(a, b)
                except (TypeError, ZeroDivisionError, ValueError, NotImplementedError):
                    res = None
                except ImplHang:
                    raise
                except Exception as e:       # no operator of math.py raises anything else on these operands
                    res = None
                    ck.violation(f'operator-raised:{type(a).__name__}{name}{type(b).__name__}:{type(e).__name__}',
                                 f'{type(a).__name__} {name} {type(b).__name__} raised {type(e).__name__}: {e}',
                                 {'op': name, 'a_expr': ea, 'b_expr': eb, 'how': 'a = eval(a_expr); b = eval(b_expr); a <op> b'})
                ck.count('operator_applications')
                ck.hist('operator', name)
                ta, tb = type(a).__name__, type(b).__name__
                ck.seen(('op', name, ta, tb, sa if not isinstance(sa, tuple) else sa[1:], sb if not isinstance(sb, tuple) else sb[1:]))
                if bits(a) != sa or bits(b) != sb:
                    side = 'left' if bits(a) != sa else 'right'
                    cat = 'rotation' if tb.endswith(('Angle', 'Matrix')) else 'vector' if tb.endswith('Vec') else 'scalar-or-tuple'
                    ck.violation(f'operand-changed:{ta}{name}{cat}',
                                 f'{ta} {name} {tb} changed its {side} operand', {'op': name, 'a_expr': ea, 'b_expr': eb,
                                 'a_after': repr(a), 'b_after': repr(b), 'how': 'a = eval(a_expr); b = eval(b_expr); a <op> b; compare'})
                elif res is not None and (res is a or res is b) and hasattr(res, 'copy') and not type(res).__name__.startswith('Frozen'):
                    ck.violation(f'operator-returns-operand:{ta}{name}{tb}',
                                 f'{ta} {name} {tb} returned one of its (mutable) operands', {'op': name, 'a': repr(a), 'b': repr(b)})
        for name, fn in unops.items():
            for a in ops:
                if not hasattr(a, 'copy'):
                    continue
                sa = bits(a)
                try:
                    with warnings.catch_warnings():
                        warnings.simplefilter('ignore')
                        res = fn(a)
                except (TypeError, ZeroDivisionError, ValueError, ArithmeticError):
                    res = None
                except ImplHang:
                    raise
                except Exception as e:
                    res = None
                    ck.violation(f'operator-raised:{name}({type(a).__name__}):{type(e).__name__}',
                                 f'{name}({type(a).__name__}) raised {type(e).__name__}: {e}', {'op': name, 'a': repr(a)})
                ck.count('operator_applications')
                if bits(a) != sa:
                    ck.violation(f'operand-changed:{name}({type(a).__name__})', f'{name} changed its operand',
                                 {'op': name, 'a_before': repr(sa), 'a': repr(a)})
                elif res is a and not type(a).__name__.startswith('Frozen') and name not in ('pos',):
                    ck.violation(f'operator-returns-operand:{name}({type(a).__name__})',
                                 f'{name} returned its mutable operand itself', {'op': name, 'a': repr(a)})
                elif name in ('copy', 'copy.copy', 'copy.deepcopy', 'pickle') and res is not None and bits(res) != sa:
                    ck.violation(f'copy-incomplete:{type(a).__name__}:{name}',
                                 f'{name}({type(a).__name__}) is not bit-identical to its operand (same class, same components)',
                                 {'op': name, 'a': repr(a), 'result': repr(res)})


def corr_op_census(ck: Ck, oside: dict) -> None:
    """Every row of the operator census (Class.method, pure / in-place) is CALLED on generated operands: a row the
    census calls pure must leave receiver and argument bit-identical and (mutable classes) return neither of them;
    an in-place row may change only the receiver.  Guards the translator; a disagreement where the census says
    'pure' is also reported as a concrete violation."""
    from harness.c09_util import bits
    import srctools.math as M
    rows = oside.get('rows', [])
    if not rows:
        return
    r = ck.rng
    f = lambda: r.choice([0.0, -0.0, 1.0, -1.5, 90.0, 359.5, 1e-3, 37.25, 1024.0])

    def make(cname: str):
        if cname == 'Vec':
            return M.Vec(f(), f(), f())
        if cname == 'FrozenVec':
            return M.FrozenVec(f(), f(), f())
        if cname == 'Angle':
            return M.Angle(f(), f(), f())
        if cname == 'FrozenAngle':
            return M.FrozenAngle(f(), f(), f())
        m = M.Matrix.from_angle(M.Angle(f(), f(), f()))
        return m if cname == 'Matrix' else m.freeze()
    arg_makers = [None, lambda: 2.5, lambda: 2, lambda: (1.0, 2.0, 3.0), lambda: 'x', lambda: 0] + \
        [(lambda c=c: make(c)) for c in ('Vec', 'FrozenVec', 'Angle', 'FrozenAngle', 'Matrix', 'FrozenMatrix')]
    bad: list[tuple] = []
    never: list[str] = []
    for fam, cname, meth, kind, writes, rets in rows:
        pure_row = kind == 'OpPure' and not (set(writes) & {'self', 'unknown'} or any(w.startswith('p') for w in writes))
        called = 0
        for mk in arg_makers:
            for _ in range(2):
                a = make(cname)
                args = () if mk is None else (mk(),)
                sa, sb = bits(a), tuple(bits(x) for x in args)
                try:
                    with warnings.catch_warnings():
                        warnings.simplefilter('ignore')
                        res = getattr(a, meth)(*args)
                        if hasattr(res, '__next__'):
                            res = list(res)
                except Exception:
                    continue
                called += 1
                ck.count('op_census_calls')
                a_changed, b_changed = bits(a) != sa, tuple(bits(x) for x in args) != sb
                mutable = cname in ('Vec', 'Angle', 'Matrix')
                ret_operand = any(res is x for x in (a,) + args if hasattr(x, 'copy') and not type(x).__name__.startswith('Frozen'))
                if kind == 'OpPure' and (a_changed or b_changed or (mutable and ret_operand and 'self' not in rets and not any(x.startswith('p') for x in rets))):
                    what = 'receiver changed' if a_changed else 'argument changed' if b_changed else 'returned an operand'
                    bad.append((f'{cname}.{meth}', what, repr(args)))
                    if pure_row:
                        ck.violation(f'op-census-row:{cname}.{meth}', f'{cname}.{meth}{args!r}: {what} although the operator census '
                                     f'classifies the method as pure', {'class': cname, 'method': meth, 'args': repr(args),
                                                                       'receiver_before': repr(sa), 'receiver_after': repr(a)})
                if kind == 'OpInplace' and b_changed:
                    bad.append((f'{cname}.{meth}', 'in-place operator changed its argument', repr(args)))
        if not called:
            never.append(f'{cname}.{meth}')
        else:
            ck.seen(('oprow', cname, meth))
    ck.obligation('correspondence:op_census_vs_runtime', not bad,
                  f'{len(rows)} census rows (class, operator) called on generated operands: operands bit-identical afterwards for '
                  f'pure rows, only the receiver changed for in-place rows; disagreements: {bad[:6]}; rows that could not be '
                  f'called with any probe argument: {never[:12]}')
    ck.extra['op_census_rows_not_exercised'] = never
    if bad:
        ck.tie_broken.append('operator census disagrees with run-time behaviour: ' + repr(bad[:3]))


# ------------------------------------------------------------------------------------------------ Keyvalues + / += / extend
def kv_names(kv) -> list[str]:
    return [c.real_name for c in kv._value] if isinstance(kv._value, list) else ['<leaf>']


def run_kv_add(case_seed: int) -> list[dict]:
    try:
        with deadline(20):
            return _run_kv_add(case_seed)
    except ImplHang as e:
        return [{'key': 'hang:kv-add', 'what': f'Keyvalues + / += / extend or a mutation after it did not return ({e})', 'detail': []}]
    except Exception as e:
        return [{'key': f'kv-raised:{type(e).__name__}', 'what': f'Keyvalues + / += / extend on generated trees raised {type(e).__name__}: {e}',
                 'detail': []}]


def _run_kv_add(case_seed: int) -> list[dict]:
    from harness import c09_util as U
    from srctools.keyvalues import Keyvalues
    r = random.Random(case_seed)
    problems = []
    with warnings.catch_warnings():
        warnings.simplefilter('ignore')
        a = Keyvalues(U.g_word(r), [U.g_kv(r, 1) for _ in range(r.choice([0, 1, 3]))]) if r.random() < 0.7 else U.g_kv_root(r)
        mode = r.choice(['list', 'list', 'root', 'block', 'generator', 'empty'])
        items = [U.g_kv(r, 1) for _ in range(0 if mode == 'empty' else r.choice([1, 2, 3]))]
        if mode == 'root':
            b: Any = Keyvalues.root(*items)
        elif mode == 'block':
            b = Keyvalues('single', items)
        elif mode == 'generator':
            b = (x for x in items)
        else:
            b = list(items)
        opn = r.choice(['+', '+', '+=', 'extend'])
        sa = U.observe(a)
        sitems = [U.observe(x) for x in items]
        sb = U.observe(b) if isinstance(b, Keyvalues) else None
        expect_children = [U.observe(c) for c in a._value] + ([sb] if mode == 'block' and opn != 'extend' else sitems)
        if mode == 'block' and opn == 'extend':
            expect_children = [U.observe(c) for c in a._value] + sitems
        if opn == '+':
            res = a + b
            if U.observe(a) != sa:
                problems.append({'key': f'kv-add-changes-left-operand:{mode}', 'what': f'Keyvalues + {mode}: left operand changed',
                                 'detail': [sa, U.observe(a)]})
            if res is a:
                problems.append({'key': f'kv-add-returns-self:{mode}', 'what': 'Keyvalues + returned self', 'detail': []})
        else:
            if opn == '+=':
                res = a
                res += b
            else:
                a.extend(b)
                res = a
            if res is not a:
                problems.append({'key': f'kv-iadd-not-inplace:{mode}', 'what': '+= did not return self', 'detail': []})
        got = [U.observe(c) for c in res._value]
        if got != expect_children:
            problems.append({'key': f'kv-{"add" if opn == "+" else "iadd"}-result-incomplete:{mode}',
                             'what': f'Keyvalues {opn} {mode}: result has children {kv_names(res)}, expected the left children followed by the added ones',
                             'detail': [got, expect_children]})
        if [U.observe(x) for x in items] != sitems or (sb is not None and U.observe(b) != sb):
            problems.append({'key': f'kv-{opn}-changes-right-operand:{mode}', 'what': 'right operand changed', 'detail': []})
        # independence of the result from both operands
        shared = U.shared_mutables(res, b if isinstance(b, Keyvalues) else items)
        if opn == '+':
            shared += U.shared_mutables(res, a)
        if shared:
            problems.append({'key': f'kv-{opn}-shares:{mode}', 'what': f'result of Keyvalues {opn} {mode} shares {shared[0][2]} at {shared[0][0]} with an operand',
                             'detail': shared[:4]})
        snap_res = U.observe(res)
        for x in items:
            U.generic_mutation(r, x)
        if opn == '+':
            U.api_mutation(r, a)
        if U.observe(res) != snap_res:
            problems.append({'key': f'kv-{opn}-result-follows-operand:{mode}', 'what': 'mutating an operand afterwards changed the result',
                             'detail': U.first_diff(snap_res, U.observe(res))})
        snap_a, snap_items = U.observe(a), [U.observe(x) for x in items]
        U.api_mutation(r, res)
        U.generic_mutation(r, res)
        if (opn == '+' and U.observe(a) != snap_a) or [U.observe(x) for x in items] != snap_items:
            problems.append({'key': f'kv-{opn}-operand-follows-result:{mode}', 'what': 'mutating the result changed an operand',
                             'detail': []})
    return problems


def search_kv_add(ck: Ck) -> None:
    n = _budget(ck, 2400, 30000)
    found: dict[str, tuple[dict, int]] = {}
    seeds = [ck.rng.randrange(1 << 30) for _ in range(n)]
    for s in seeds:
        probs = run_kv_add(s)
        for p in probs:
            found.setdefault(p['key'], (p, s))
        if any(p['key'].startswith('hang:') for p in probs):
            break
        ck.count('kv_add_cases')
        ck.seen(('kvadd', s))
    for key, (p, s) in sorted(found.items()):
        ck.violation(key, p['what'], {'case_seed': s, 'how': 'checks.c09.run_kv_add(case_seed)', 'detail': p['detail']})


def corr_kv_add(ck: Ck, side: dict) -> None:
    """Model kv_add / kv_iadd with the receivers read from the source vs the implementation on child-name lists."""
    from srctools.keyvalues import Keyvalues
    recv = side.get('kv', {})
    if not recv:
        return
    r = ck.rng
    n = _budget(ck, 400, 2000)
    cases = []
    for _ in range(n):
        self_names = [r.randint(1, 9) for _ in range(r.choice([0, 1, 3]))]
        other_names = [r.randint(10, 19) for _ in range(r.choice([0, 1, 2]))]
        single = r.random() < 0.3
        iadd = r.random() < 0.4
        with warnings.catch_warnings():
            warnings.simplefilter('ignore')
            a = Keyvalues('a', [Keyvalues(f'k{i}', 'v') for i in self_names])
            if single:
                b: Any = Keyvalues('k99', [Keyvalues(f'k{i}', 'v') for i in other_names])
                added = [99]
            else:
                b = [Keyvalues(f'k{i}', 'v') for i in other_names]
                added = other_names
            if iadd:
                res = a
                res += b
            else:
                res = a + b
        nm = lambda kv: [int(c.real_name[1:]) for c in kv._value]
        cases.append((iadd, single, self_names, added, nm(a), nm(res)))
        ck.count('kv_add_correspondence')
        if self_names and added:
            ck.seen(('kvcorr', iadd, single, tuple(self_names), tuple(added)))
    nl = lambda l: '[' + ';'.join(map(str, l)) + ']%nat'
    lit = coq_list(f'((({"true" if i else "false"}, {"true" if s else "false"}), ({nl(sn)}, {nl(ad)})), ({nl(sa)}, {nl(rs)}))'
                   for i, s, sn, ad, sa, rs in cases)
    pre = '''Import ListNotations.
Fixpoint nl_eqb (a b : list nat) : bool := match a, b with [], [] => true | x :: a', y :: b' => Nat.eqb x y && nl_eqb a' b' | _, _ => false end.
Fixpoint bad_idx {A} (f : A -> bool) (n : nat) (l : list A) : list nat := match l with [] => [] | x :: r => (if f x then [] else [n]) ++ bad_idx f (S n) r end.
Definition model (c : (bool * bool) * (list nat * list nat)) : list nat * list nat :=
  let '((iadd, single), (s, o)) := c in
  if iadd then let s' := kv_iadd kv_iadd_recv_single kv_iadd_recv_iter single s o in (s', s')
  else kv_add kv_add_recv_single kv_add_recv_iter kv_add_ret single s o.
'''
    vals = ck.coq_eval(IMPORTS, [f'bad_idx (fun c => nl_eqb (fst (model (fst c))) (fst (snd c)) && nl_eqb (snd (model (fst c))) (snd (snd c))) 0 {lit}'],
                       name='kvadd', preamble=pre)
    if vals is None:
        ck.obligation('correspondence:kv_add', False, 'model could not be evaluated')
        ck.tie_broken.append('correspondence kv_add: model evaluation failed')
        return
    bad = hc.parse_coq_N_list(vals[0].replace('%nat', ''))
    ck.obligation('correspondence:kv_add', not bad,
                  f'{len(cases)} Keyvalues +/+= cases, model over the generated receiver census vs implementation: {len(bad)} disagreements')
    if bad:
        ck.tie_broken.append('correspondence kv_add (SM/KvAdd.v over Gen receivers vs Keyvalues.__add__/__iadd__)')
        ck.extra['kv_add_disagreement'] = cases[bad[0]]


# ------------------------------------------------------------------------------------------------ instancing
def run_instance_case(case_seed: int) -> list[dict]:
    try:
        with deadline(30):
            return _run_instance_case(case_seed)
    except ImplHang as e:
        return [{'key': 'hang:instance-collapse', 'what': f'collapse_one / export / an edit of the target did not return ({e})', 'detail': []}]
    except Exception as e:
        return [{'key': f'instance-raised:{type(e).__name__}', 'what': f'instance case raised {type(e).__name__}: {e}', 'detail': []}]


def _run_instance_case(case_seed: int) -> list[dict]:
    """Collapse an instance twice into a map; the template map must export exactly as before, and the first
    collapsed copy must not change when the second is made."""
    from harness import c09_util as U
    from srctools import instancing
    from srctools.vmf import VMF, Output
    from srctools.math import Vec, Angle
    import io
    import logging
    logging.getLogger('srctools').setLevel(logging.CRITICAL)
    logging.getLogger().setLevel(logging.CRITICAL)
    r = random.Random(case_seed)
    problems = []
    with warnings.catch_warnings():
        warnings.simplefilter('ignore')
        tmpl = VMF()
        for _ in range(r.choice([1, 2, 3])):
            e = U.g_entity(r, tmpl)
            e['classname'] = r.choice(['func_instance', 'info_target', 'func_detail'])
            if r.random() < 0.7:
                e.fixup['$inner'] = r.choice(['name_a', 'relay', '5'])
                e.fixup['target'] = 'door'
            e.hidden = False
            e.vis_shown = True
            e.visgroup_ids.clear()
            for s in e.solids:
                s.hidden = False
                s.visgroup_ids.clear()
            tmpl.add_ent(e)
        for _ in range(r.choice([0, 1, 2])):
            s = U.g_solid(r, tmpl)
            s.hidden = False
            s.vis_shown = True
            s.visgroup_ids.clear()
            tmpl.add_brush(s)
        with_proxy = r.random() < 0.5
        if with_proxy:
            # instance inputs / outputs: an io_proxy relaying `instance:door;Open`, and a named entity firing ProxyRelay
            proxy = tmpl.create_ent('func_instance_io_proxy', targetname='proxy', origin='0 0 0')
            proxy.add_out(Output('OnProxyRelay', 'door', 'Open', r.choice(['', 'p1']), r.choice([0.0, 0.5])))
            relay = tmpl.create_ent('logic_relay', targetname='relay', origin='8 8 8')
            relay.add_out(Output('OnTrigger', 'proxy', 'ProxyRelay', '', 0.0))
            relay.add_out(Output('OnSpawn', 'door', 'Close', '', 1.0))
        ifile = instancing.InstanceFile(tmpl)
        target = VMF()

        def dump(v):
            buf = io.StringIO()
            v.export(buf, inc_version=False)
            text = U._sort_runs(buf.getvalue())
            if v is tmpl:       # the parsed instance file also owns the proxy Output objects (removed from the map)
                text += ''.join(sorted(f'proxy_input {k}: {o.as_keyvalue()}' for k, o in ifile.proxy_inputs.items()))
                text += ''.join(sorted(f'proxy_output {k}: {o[1].as_keyvalue()}' for k, o in ifile.proxy_outputs.items()))
            return text
        before = dump(tmpl)
        snaps = []
        for k in range(2):
            ient = target.create_ent('func_instance', targetname=f'inst{k}', origin=f'{64 * k} 0 0', angles='0 90 0',
                                     file='x.vmf', fixup_style=str(r.choice([0, 1, 2])))
            ient.fixup['$outer'] = 'val'
            if with_proxy:
                ient.add_out(Output('OnTrigger', 'outside', 'Kill', '', 0.0, inst_out='relay'))
                trig = target.create_ent('trigger_once', targetname=f'trig{k}')
                trig.add_out(Output('OnStartTouch', f'inst{k}', 'Open', '', 0.0, inst_in='door'))
            inst = instancing.Instance.from_entity(ient)
            snap_ient = U.observe(ient)
            try:
                instancing.collapse_one(target, inst, ifile, visgroup=r.choice([False, True]))
            except Exception as e:
                problems.append({'key': f'instance-collapse-raised:{type(e).__name__}', 'what': f'{type(e).__name__}: {e}', 'detail': []})
                return problems
            inst.fixup['$outer'] = 'changed'
            if U.observe(ient) != snap_ient:
                problems.append({'key': 'instance-fixup-shared-with-entity',
                                 'what': 'Instance.from_entity shares FixupValue objects with the func_instance entity: '
                                         'editing inst.fixup changed the entity', 'detail': U.first_diff(snap_ient, U.observe(ient))})
            now = dump(tmpl)
            if now != before:
                where, la, lb = U.first_diff(before, now)
                problems.append({'key': f'instance-collapse-changes-template:{where_key(where)}',
                                 'what': f'collapse_one changed the instance template map at {where}: {la!r} -> {lb!r}',
                                 'detail': [where, la, lb]})
                break
            snaps.append(dump(target))
        # independence afterwards: in-place edits of what was collapsed into the target must not show in the template
        if not problems:
            pool = [o for o in list(target.entities) + list(target.brushes)]
            for _step in range(6):
                if not pool:
                    break
                victim = r.choice(pool)
                try:
                    desc = U.api_mutation(r, victim) if r.random() < 0.5 else U.generic_mutation(r, victim)
                except Exception as e:
                    problems.append({'key': f'instance-target-mutation-raised:{type(e).__name__}', 'what': f'{type(e).__name__}: {e}', 'detail': []})
                    break
                now = dump(tmpl)
                if now != before:
                    where, la, lb = U.first_diff(before, now)
                    problems.append({'key': f'instance-target-edit-visible-in-template:{where_key(where)}',
                                     'what': f'after collapse_one, editing the target map ({desc}) changed the instance template at '
                                             f'{where}: {la!r} -> {lb!r}', 'detail': [desc, where, la, lb]})
                    break
    return problems


def search_instancing(ck: Ck) -> None:
    n = _budget(ck, 120, 2000)
    found: dict[str, tuple[dict, int]] = {}
    for _ in range(n):
        s = ck.rng.randrange(1 << 30)
        probs = run_instance_case(s)
        for p in probs:
            found.setdefault(p['key'], (p, s))
        if any(p['key'].startswith('hang:') for p in probs):
            break
        ck.count('instance_collapse_cases')
        ck.seen(('inst', s))
    for key, (p, s) in sorted(found.items()):
        ck.violation(key, p['what'], {'case_seed': s, 'how': 'checks.c09.run_instance_case(case_seed)', 'detail': p['detail']})


# ------------------------------------------------------------------------------------------------ main
def proof_side_batched(ck: Ck, props_file: str, obs: dict[str, str]) -> dict[str, bool]:
    """The fixed proof-side work of a run in ONE coqc process instead of three: every instance obligation as
    `Theorem inst_k : <expr> = true. Proof. vm_compute. reflexivity. Qed.` and ONE `Print Assumptions` of the tuple of all
    theorems of the Props file (the assumptions of a tuple are the union of its components' assumptions: "Closed under the
    global context" for the tuple = closed for each; 75 separate walks of the same dependency closure cost 3x as much).
    Records exactly the obligations ck.theorems + ck.instance_obligations record.  Anything else than "process succeeded
    and the tuple is closed" (an obligation that is false, an axiom somewhere, a parse surprise) falls back to those two
    harness functions, which attribute the failure per theorem / per obligation."""
    import re as _re
    txt = (hc.ROCQ / props_file).read_text()
    names = _re.findall(r"^\s*(?:Theorem|Lemma|Corollary)\s+([A-Za-z0-9_\']+)", txt, _re.M)
    mod = 'SV.' + props_file[:-2].replace('/', '.')
    onames = list(obs)
    body = ''.join(f'Require Import {i}.\n' for i in IMPORTS) + f'Require Import {mod}.\n'
    for k, n in enumerate(onames):
        body += f'Theorem inst_{k} : ({obs[n]}) = true.\nProof. vm_compute. reflexivity. Qed.\n'
    body += 'Definition c09_every_theorem := (' + ',\n  '.join('@' + n for n in names) + ').\n'
    body += 'Print Assumptions c09_every_theorem.\n'
    rc, out = ck.coq_scratch(body, 'proof_side', timeout=900) if names and onames else (1, '')
    closed = [l for l in out.splitlines() if l.startswith('Closed under the global context')]
    if rc == 0 and len(closed) == 1 and 'Axioms:' not in out:
        for n in names:
            ck.axioms[n] = []
            ck.obligation(f'theorem:{n}', True, 'Qed; axioms: none (closed under the global context)')
        for n in onames:
            ck.obligation(f'instance:{n}', True, f'{obs[n]} = true')
        ck.extra['proof_side'] = 'one coqc process: %d instance obligations (Qed) + Print Assumptions of the tuple of %d theorems' % (len(onames), len(names))
        return {n: True for n in onames}
    ck.extra['proof_side'] = 'batched run did not succeed (rc=%d): per-theorem / per-obligation run' % rc
    ck.theorems(props_file)
    return ck.instance_obligations(IMPORTS, obs)


def run(ck: Ck) -> None:
    from translate import c09_copy
    _merge_known()
    ck.rule = ('copy cases: (kind, generator seed, copy variant) over 11 kinds of map objects built by a seeded generator '
               '(entities with keys/fixups/outputs/brushes, displacement sides with allowed_verts, multiblend and strata '
               'points, visgroup trees, Keyvalues trees ...); non-trivial = the object graph has at least 3 nodes; each case '
               'is followed by a random history of 3-12 in-place mutations (public API and generic stores into any reachable '
               'mutable object) on either side; operators: every (op, lhs type, rhs type, values) over Vec/Angle/Matrix and '
               'frozen twins, scalars and tuples, plus every row of the operator census called with 12 probe arguments; '
               'Keyvalues +/+=/extend with list/root/block/generator operands; instance collapse of generated templates '
               '(half of them with an io_proxy, instance inputs and outputs) twice, then 6 edits of the target map; export '
               'read traces of generated objects of every kind; boundary cases: every str/int/float/bool/Optional/flag/enum/Vec4 '
               'data field of every map object reachable from a generated object set to each boundary value of its type '
               '(falsy values, the values a constructor flag maps to, values no editor writes), then copied and exported; '
               'empty-container cases: every list/dict/set/array field of every reachable map object emptied in place, the '
               'object copied, the container filled again on either side; '
               'row certificates: (census label, generator seed) heaps of original + copy decided in the kernel against the '
               'generated census; distinct by full case tuple')
    ck.trusted.append('harness/c09_util.py object-graph walker (slots, __dict__, containers); the VMF back pointer is context')
    ck.trusted.append('translate/c09_copy.py, c09_export.py, c09_ops.py, c09_collapse.py: classification of Python expressions into '
                      'census rows (fail-closed; each census is compared with run-time behaviour on every run)')
    ck.assumptions.append('a census row means its heap relation (how_sem / how_complete, tstep / cstep tags): the theorems are '
                          'stated over these relations; for the independence relation (how_sem, kind_sem) the relation is DECIDED in '
                          'the kernel on heaps exported from real (original, copy) pairs of every census label '
                          '(certificate:census_rows_hold), and so is the completeness relation how_complete under the export masks '
                          '(certificate:export_rows_hold); immutable shared values (str, tuple, frozen objects) are atoms')
    ck.assumptions.append('argument flows: a flow mode means its value function (flow_fun: ident/presence = the value, ordefault = the '
                          'value when truthy, guard/derived = anything); the specialisation of the constructor to the call is '
                          'compared with the real constructor by flows_vs_runtime on boundary values')
    ck.assumptions.append('copy.deepcopy / pickle of a slot class that defines none of the copy-protocol hooks (Keyvalues today: checked '
                          'by the translator, fail-closed) builds a new object and fills every slot with a deep copy / the unpickled '
                          'value of the original slot (CPython copyreg); the resulting rows are decided on real heaps by the row certificates')
    ck.assumptions.append('pickle serialises the state __getstate__ returns, so every object below it comes back new (row HDeep of '
                          'EntityFixup_pickle; decided on real unpickled heaps by the row certificates); the short form of Output\'s '
                          'state is modelled over value classes (None / empty / non-empty string, +0.0 / -0.0 / other float, every '
                          'integer) and "the export writes a float with :g" (SM/StorePickleShort.v)')
    ck.assumptions.append('attrs generates the constructor from the field definitions as documented: converter, then validator, then '
                          '__attrs_post_init__; a default value is one object shared by all instances, a factory is called per instance')
    ck.assumptions.append('export is a function of the data fields it reads (export_reads census, static over-approximation '
                          'of the traced reads); IDs and the map back pointer are masked in the export comparison')
    ck.assumptions.append('the map back pointer (Entity.map, Solid.map, Side.map, VisGroup.vmf ...) is context: mutations '
                          'performed through the map (ID managers, indexes, entity lists) are outside C09 (see C07/C08)')
    ck.assumptions.append('observation = export text (Entity/Solid/Side/VisGroup/EntityGroup/Camera/Cordon/Output/EntityFixup '
                          'export, Keyvalues.serialise, str(UVAxis)), IDs masked, visgroup/group id runs sorted (sets)')
    from translate import c09_export
    import time as _time
    t_last = [_time.time()]
    phases: dict[str, float] = {}

    def lap(name: str) -> None:       # evidence only (where the wall time goes); never used in a decision
        now = _time.time()
        phases[name] = round(phases.get(name, 0.0) + now - t_last[0], 1)
        t_last[0] = now
        ck.extra['phase_wall_s'] = phases
    ok_t = ck.translate('CopyCensus_gen', c09_copy.translate)
    side = ck.extra.get('translated', {}).get('CopyCensus_gen', {})
    ok_e = ck.translate('CopyExportReads_gen', c09_export.translate)
    eside = ck.extra.get('translated', {}).get('CopyExportReads_gen', {})
    from translate import c09_ops
    ok_o = ck.translate('C09OpCensus_gen', c09_ops.translate)
    oside = ck.extra.get('translated', {}).get('C09OpCensus_gen', {})
    from translate import c09_collapse
    ok_c = ck.translate('C09Collapse_gen', c09_collapse.translate)
    cside = ck.extra.get('translated', {}).get('C09Collapse_gen', {})
    built = ok_t and ok_e and ok_o and ok_c and ck.build(['Props/C09.vo'])
    if ok_t:
        ck.sample({'census_Side(field, kind, how, source expression)': side.get('census', {}).get('Side')})
    if built:
        lap('translate+build')
        obs = {}
        for cls in side.get('classes', []):
            obs[f'copy_covers_fields:{cls}'] = f'copy_covers_fields census_{cls}'
            obs[f'copy_fresh_mutables:{cls}'] = f'copy_fresh_mutables census_{cls}'
            obs[f'copy_sources_match:{cls}'] = f'copy_sources_match census_{cls} sources_{cls}'
            obs[f'copy_args_lossless:{cls}'] = f'copy_args_lossless census_{cls} flows_{cls}'
            real = side.get('class_of', {}).get(cls, cls)
            obs[f'copy_export_equal:{cls}'] = f'copy_export_ok census_{cls} sources_{cls} export_reads_{real}'
            obs[f'export_reads_are_fields:{cls}'] = f'reads_are_fields census_{cls} export_reads_{real}'
        obs['kv_add_appends_to_copy_and_returns_it'] = 'recv_is_copy kv_add_recv_single && recv_is_copy kv_add_recv_iter && recv_is_copy kv_add_ret'
        obs['kv_iadd_appends_to_self'] = 'negb (recv_is_copy kv_iadd_recv_single) && negb (recv_is_copy kv_iadd_recv_iter)'
        obs['kv_added_items_are_copied'] = 'kv_add_args_copied && kv_iadd_args_copied && kv_extend_args_copied'
        obs['kv_add_single_branch_appends_copy'] = 'kv_add_single_copied'
        obs['kv_add_iter_branch_appends_copy'] = 'kv_add_iter_copied'
        obs['kv_iadd_single_branch_appends_copy'] = 'kv_iadd_single_copied'
        obs['kv_iadd_iter_branch_appends_copy'] = 'kv_iadd_iter_copied'
        for fam in ('Vec', 'Angle', 'Matrix'):
            obs[f'ops_store_nothing_to_operands:{fam}'] = f'ops_store_nothing_to_operands op_census_{fam}'
            obs[f'ops_return_fresh:{fam}'] = f'ops_return_fresh op_census_{fam}'
            obs[f'inplace_ops_write_only_self:{fam}'] = f'inplace_ops_write_only_self op_census_{fam}'
        obs['op_census_size'] = 'Nat.leb 150 (List.length op_census_all) && Nat.eqb (List.length op_census_all) %d' % oside.get('n_rows', -1)
        obs['collapse_never_writes_template'] = 'collapse_never_writes_template collapse_writes'
        obs['collapse_only_copies_enter_target'] = 'collapse_only_copies_enter collapse_enters'
        obs['collapse_copies_are_censused'] = ('collapse_copies_censused collapse_copies (List.map fst all_census) && '
                                               'Nat.eqb (List.length collapse_copies) %d' % len(cside.get('copies', [])))
        obs['instance_from_entity_shares_only_outputs'] = (
            'from_entity_shares_only ("outputs"%%string :: nil) instance_from_entity && from_entity_copies "fixup"%%string instance_from_entity && '
            'Nat.eqb (List.length instance_from_entity) %d' % len(cside.get('from_entity', [])))
        obs['collapse_census_size'] = 'Nat.leb 20 (List.length collapse_writes) && Nat.leb 10 (List.length collapse_enters)'
        obs['all_classes_export_ok'] = 'all_export_ok'
        obs['all_sources_present'] = 'Nat.eqb (List.length all_sources) %d && all_sources_match' % len(side.get('classes', []))
        obs['all_flows_present'] = 'Nat.eqb (List.length all_flows) %d && all_args_lossless' % len(side.get('classes', []))
        obs['all_classes_present'] = 'Nat.eqb (List.length all_census) %d' % len(side.get('classes', []))
        # premise of c09_pickle_state_roundtrip: __getstate__ / __setstate__ of Output agree position by position, cover every field
        obs['pickle_state_positions_match:Output'] = 'state_ok (names census_Output) output_state_put output_state_get'
        obs['pickle_state_short_form_matches:Output'] = ('state_short_ok output_state_put_short output_state_get_short '
                                                         'output_state_put output_state_get')
        # premise of c09_pickle_short_form_export_equal: every original that takes the short state gets export-equal constants back
        obs['pickle_short_form_restores_export_equal:Output'] = ('short_ok output_short_rows && short_rows_cover output_state_tail '
                                                                 'output_short_rows && Nat.eqb (List.length output_short_rows) %d'
                                                                 % len(side.get('pickle_state', {}).get('Output', {}).get('short_rows', [])))
        # copy.copy(x) of a map object whose class defines __copy__ must be x.copy() (a hook that is not a plain delegation is an
        # uncensused copy path; the search exercises the hook as copy variant 'copy.copy')
        obs['copy_hooks_delegate_to_copy'] = 'forallb snd copy_hooks && Nat.eqb (List.length copy_hooks) %d' % len(side.get('copy_hooks', []))
        # premise of c09_cond_rows_checked: every conditional row is the join (weaker) of its two branch rows
        obs['conditional_rows_are_joins'] = 'cond_rows_ok all_census cond_rows && Nat.eqb (List.length cond_rows) %d' % len(side.get('cond_rows', []))
        # premise of c09_labels_of_a_class_same_mask: the census label of an exported node may be derived from its type name
        obs['census_labels_of_a_class_agree'] = 'labels_agree all_census class_of_label'
        # premise of c09_all_classes_complete_and_independent (the whole property for every copy method of the table)
        obs['all_classes_complete_and_independent'] = 'all_fresh && all_sources_match && all_export_ok'
        res = proof_side_batched(ck, 'Props/C09.v', obs)
        failing = [k for k, v in res.items() if not v]
        if failing:
            ck.tie_broken.append('copy census obligations failed: ' + ', '.join(failing))
            detail = ck.coq_eval(IMPORTS, [f'(not_covered census_{c}, not_fresh census_{c}, wrong_source census_{c} sources_{c}, '
                                           f'export_broken census_{c} sources_{c} export_reads_{side.get("class_of", {}).get(c, c)}, '
                                           f'lossy_fields census_{c} flows_{c})'
                                           for c in side.get('classes', [])], name='census_detail')
            if detail:
                ck.extra['census_offending_fields(not_covered, not_fresh, wrong_source, export_broken, lossy_argument)'] = {
                    c: d for c, d in zip(side.get('classes', []), detail) if d.replace(' ', '') not in ('(nil,nil,nil,nil,nil)', '([],[],[],[],[])')}
                ck.extra['census_flows_of_offending_classes'] = {
                    c: {f: fl for f, fl in side.get('flows', {}).get(c, {}).items() if fl != [[f, 'ident']]}
                    for c in side.get('classes', []) if not res.get(f'copy_args_lossless:{c}', True)}
            bad_cl = ck.coq_eval(IMPORTS, ['(collapse_template_sites collapse_writes, collapse_template_sites collapse_enters)'],
                                 name='collapse_detail')
            if bad_cl:
                ck.extra['collapse_one_template_sites(writes, enters)'] = bad_cl[0]
            bad_ops = ck.coq_eval(IMPORTS, ['offending_ops op_census_all'], name='ops_detail')
            if bad_ops:
                ck.extra['op_census_offending_rows'] = bad_ops[0]
                ck.extra['op_census_offending_detail'] = [r for r in oside.get('rows', []) if f'"{r[1]}.{r[2]}"' in bad_ops[0]][:20]
            if detail:
                ck.extra['census_sources_of_offending_classes'] = {
                    c: side.get('sources', {}).get(c) for c in side.get('classes', []) if not res.get(f'copy_sources_match:{c}', True)}
        lap('theorems+instance_obligations')
        phase(ck, 'cert_cases', cert_cases)
        phase(ck, 'cert_rows', cert_rows, side, eside)
        lap('certificates')
        phase(ck, 'census_vs_runtime', corr_census_runtime, side,
              tuple(k for k, v in res.items() if k.startswith('copy_fresh_mutables:') and not v))
        phase(ck, 'flows_vs_runtime', corr_flows_runtime, side)
        phase(ck, 'export_reads_vs_runtime', corr_export_reads, side, eside)
        phase(ck, 'kv_add', corr_kv_add, side)
        phase(ck, 'op_census_vs_runtime', corr_op_census, oside)
        lap('correspondences')
    search_copies(ck)
    lap('search_copies')
    search_boundary(ck)
    lap('search_boundary')
    search_empty(ck)
    lap('search_empty')
    search_kv_add(ck)
    lap('search_kv_add')
    search_operators(ck)
    lap('search_operators')
    search_instancing(ck)
    lap('search_instancing')
    # explain failed obligations by concrete violations found by the search
    keys = {v['key'] for v in ck.violations}

    def any_key(*prefixes: str) -> bool:
        return any(k.startswith(p) for k in keys for p in prefixes)
    for cls in side.get('classes', []):
        base = cls.split('_')[0]
        owners = {'DispVertex': ['Side', 'Solid', 'Entity'], 'FixupValue': ['EntityFixup', 'Entity'],
                  'EntityFixup': ['EntityFixup', 'Entity'], 'Side': ['Side', 'Solid', 'Entity'], 'Solid': ['Solid', 'Entity']}.get(base, [base])
        if any_key(*[f'copy-incomplete:{o}:' for o in owners]):
            ck.explain(f'instance:copy_covers_fields:{cls}')
            ck.explain(f'instance:copy_sources_match:{cls}')
            ck.explain(f'instance:copy_export_equal:{cls}')
            ck.explain(f'instance:copy_args_lossless:{cls}')
        if any_key(*[f'shared-mutable:{o}:' for o in owners], *[f'mutation-visible:{o}:' for o in owners]):
            ck.explain(f'instance:copy_fresh_mutables:{cls}')
    if any_key('kv-add-'):
        ck.explain('instance:kv_add_appends_to_copy_and_returns_it')
    if any_key('kv-iadd-', 'kv-+=', 'kv-extend'):
        ck.explain('instance:kv_iadd_appends_to_self')
    if any_key('kv-'):
        ck.explain('correspondence:kv_add')
        ck.explain('instance:kv_added_items_are_copied')
        for b in ('kv_add_single', 'kv_add_iter', 'kv_iadd_single', 'kv_iadd_iter'):
            ck.explain(f'instance:{b}_branch_appends_copy')
    if any_key('copy-incomplete:Output:', 'copy-raised:Output:'):
        ck.explain('instance:pickle_state_')
        ck.explain('instance:pickle_short_form_')
    if any_key('copy-incomplete:'):
        ck.explain('correspondence:flows_vs_runtime')
        ck.explain('instance:all_sources_present')
        ck.explain('instance:all_flows_present')
        ck.explain('instance:all_classes_export_ok')
    if any_key('hang:', 'copy-raised:', 'raised:', 'kv-raised:', 'instance-raised:', 'instance-collapse-raised:', 'operator-raised:'):
        ck.explain('phase:')
        # a translator that failed closed on a loop / statement it does not know, while the search shows that the code in
        # front of it does not return or raises: the failing input is the explanation
        ck.explain('translate:CopyCensus_gen')
    if any_key('shared-mutable:', 'mutation-visible:'):
        ck.explain('certificate:export_ok')
        ck.explain('correspondence:census_vs_runtime')      # the census says "copied", the real copy shares: that input
    if any_key('shared-mutable:', 'mutation-visible:', 'copy-incomplete:'):
        ck.explain('instance:copy_hooks_delegate_to_copy')
        ck.explain('instance:all_classes_complete_and_independent')
        ck.explain('certificate:census_rows_hold')
        ck.explain('certificate:export_rows_hold')
    if any_key('instance-collapse-changes-template:', 'instance-'):
        ck.explain('instance:collapse_never_writes_template')
        ck.explain('instance:collapse_only_copies_enter_target')
        ck.explain('instance:collapse_copies_are_censused')
        ck.explain('instance:instance_from_entity_shares_only_outputs')
    if any_key('operand-changed:', 'operator-returns-operand:', 'op-census-row:'):
        for fam in ('Vec', 'Angle', 'Matrix'):
            ck.explain(f'instance:ops_store_nothing_to_operands:{fam}')
            ck.explain(f'instance:ops_return_fresh:{fam}')
            ck.explain(f'instance:inplace_ops_write_only_self:{fam}')
        ck.explain('correspondence:op_census_vs_runtime')


def replay(data: dict) -> int:
    r = data['replay']
    if r.get('empty_container'):
        for p in run_empty_case(r['kind'], r['case_seed'], r['variant']):
            if p.get('key'):
                print(p['key'], '--', p['what'])
        return 0
    if r.get('boundary'):
        for p in run_boundary_case(r['kind'], r['case_seed'], r['variant']):
            if p.get('key'):
                print(p['key'], '--', p['what'])
        return 0
    if 'kind' in r:
        for p in run_copy_case(r['kind'], r['case_seed'], r['variant'], r.get('n_mut', 12)):
            print(p['key'], '--', p['what'])
        return 0
    if 'how' in r and 'run_kv_add' in r['how']:
        for p in run_kv_add(r['case_seed']):
            print(p['key'], '--', p['what'])
        return 0
    if 'how' in r and 'run_instance_case' in r['how']:
        for p in run_instance_case(r['case_seed']):
            print(p['key'], '--', p['what'])
        return 0
    if 'a_expr' in r and 'b_expr' in r:
        import srctools.math as M
        from harness.c09_util import bits
        ns = {k: getattr(M, k) for k in ('Vec', 'FrozenVec', 'Angle', 'FrozenAngle', 'Matrix', 'FrozenMatrix')}
        a, b = eval(r['a_expr'], ns), eval(r['b_expr'], ns)
        sa, sb = bits(a), bits(b)
        ops = {'+': operator.add, '-': operator.sub, '*': operator.mul, '/': operator.truediv, '//': operator.floordiv,
               '%': operator.mod, '@': operator.matmul, 'divmod': divmod, '==': operator.eq, '<': operator.lt, '>=': operator.ge}
        print('before:', a, '|', b)
        try:
            print('result:', ops[r['op']](a, b))
        except Exception as e:
            print('raised', type(e).__name__, e)
        print('after: ', a, '|', b)
        print('left operand changed:', bits(a) != sa, ' right operand changed:', bits(b) != sb)
        return 0
    print(json.dumps(r, indent=1))
    return 0
