"""C18 — a constrained RawFileSystem never reaches outside its root."""
from __future__ import annotations

import contextlib
import functools
import itertools
import os
import posixpath
import shutil
import subprocess
import sys
import tempfile
import threading
import time
import zlib
from concurrent.futures import ThreadPoolExecutor
from pathlib import Path

from harness.common import ROCQ, Ck, _split_evals, _unlimit_stack, coq_list, coq_str, parse_coq_N_list
from translate import c18_census, c18_guard, c18_ops

MANIFEST = dict(
    technique='Rocq proof (POSIX join/normpath/abspath on character lists; soundness of every segment-wise guard form by '
              'induction on a guard language; data-flow model of every OS call of RawFileSystem/FileSystemChain incl. File '
              'handles; os.walk as a Section variable; memo tables and whole histories over several objects by induction) + '
              'two fail-closed ast translators (guard by path conditions, operations by abstract interpretation with helper '
              'inlining; wrapper and shared-state censuses) + exhaustive vm_compute correspondence + operations-model and '
              'history-model correspondences against audit-hook observations + audit-hook oracle incl. histories; round 4: one '
              'statement of the whole property (c18_property) over a record of all generated objects, package-wide censuses '
              '(third translator), entry-point and route correspondences, symbolic links modelled (lexical vs real)',
    text='Theorems in Props/C18.v: for every guard expression accepted by the recogniser raise_sound (abs == root, '
         'startswith(root + sep) in four spellings, commonpath == root, closed under and/or/not), every working directory '
         '(also a different one at call time), root argument and path string, a path that RawFileSystem._resolve_path does '
         'not reject is absolute, contains no ".." component and its segments extend the segments of the root, i.e. the '
         'directory walk from / reaches the root and never leaves it; the plain string-prefix guard and the character-wise '
         'os.path.commonprefix guard are refuted (root /t/root, path ../root_evil/secret.txt). Operations: the path '
         'expression of every call of RawFileSystem that reaches the OS (open, os.walk, os.stat, os.path.isfile) is '
         'regenerated from filesys.py by abstract interpretation of the method bodies (isinstance(x, File) narrowing, '
         'local variables, .replace, os.path.join, _get_data, file.path); if each is a _resolve_path result (instance '
         'obligation) then for every string argument and every File handle whatever strings it carries (built from a name '
         'with the slashes changed, taken from an unconstrained system, written by hand) every path handed to the OS is '
         'inside the root; trusting a handle because its name was validated is refuted with the name "..\\secret.txt"; '
         'FileSystemChain and File touch no file system themselves and chain calls into a constrained member stay inside '
         'the member root for every prefix (the prefix itself is not a jail: refuted, observation); for os.walk as an '
         'arbitrary function obeying the entry-name contract every directory listed and every file found by walk_folder is '
         'inside the root. normpath of an absolute path leaves no ".."; packlist.unify_path: an accepted path followed from '
         'any base directory ends in it or below without leaving it, ".." can only be its last segment, the bare ".." '
         'corner is exactly the parent (observation). normpath, _resolve_path and unify_path are compared with the model '
         'exhaustively over two segment alphabets (plain; backslash-carrying and non-ASCII look-alikes) by checksums '
         'computed inside the kernel VM; the operations model is compared with the accesses observed by an audit hook. '
         'Histories (round 3): for any list of steps (a step = one access site of the generated table run by one of any '
         'number of RawFileSystem objects, constrained or not, on arbitrary strings) with a memo table under any '
         'entry-dropping replacement policy in front of _resolve_path whose key covers every step (it contains the '
         'constrain flag, or all objects are constrained), the history equals the step-by-step model and every path a '
         'constrained object hands to the OS is inside its root; a key without the flag (functools.lru_cache on the '
         'method: FileSystem.__eq__/__hash__ ignore constrain_path) is refuted by the history "unconstrained object '
         'resolves ../secret.txt, constrained object on the same folder is asked". That today\'s source has no such table '
         'is an instance obligation over three censuses regenerated on every run: no decorator / rebinding / attribute '
         'hook / subclass override on _resolve_path, on any method of File, FileSystem, RawFileSystem, FileSystemChain, '
         'and no module-level or class-level mutable object, mutable parameter default or method-object state used by '
         'those methods. The guard translator reads _resolve_path by path conditions (early returns, else branches, '
         'renamed or aliased locals give the same guard); the constructor is read symbolically (locals, base '
         'constructor). The history model is compared with the accesses observed step by step on two objects sharing a '
         'folder. Real temporary trees (with literal backslash file names inside the root) are searched with every '
         'open/stat/scandir observed, through strings, File handles, chains and after an unconstrained object on the '
         'same folder has performed the same operations. '
         'Round 4: c18_property states the whole property once: for every record of generated objects passing source_ok '
         '(sound guard; every OS call of RawFileSystem validated and none in File / FileSystem / FileSystemChain; constructor '
         'facts; entry points and chain calls land on access methods; every census empty) and every history of steps — a '
         'step is a call by user code reaching, through any route of entry points (fs[x], x in fs, read_kv1, read_prop, '
         'iteration, File.open_bin/open_str/cache_key) and chain calls with any prefixes (chains inside chains), any OS call '
         'site of any RawFileSystem object on arbitrary strings — with a memo table under any entry-dropping policy whose '
         'key covers the steps, or with no table: the table is invisible, every path a constrained object hands to the OS is '
         'inside its root, and so is everything a folder walk started there lists and finds under the os.walk contract; '
         'hypotheses satisfiable (example with a chain inside a chain) and each load-bearing one needed (refuted without). '
         'A third translator reads every module below src/srctools: monkey patches of the classes or of the path library, '
         'subclasses of RawFileSystem redefining methods, origin of the decorators taken as neutral, cached functions of '
         'other modules reached from the classes, containers / outside state kept on the objects, constructor signature, '
         'RawFileSystem(...) calls that switch the constraint off, mixins / metaclasses, stores into constrain_path, and '
         'the table of entry points (compared with observed accesses, as are routes through nested chains). Symbolic '
         'links: containment is lexical (abspath); a component-wise realpath model proves that lexical containment is real '
         'containment when no entry below the root on the way is a link, and refutes it with a link inside the root. '
         'Drive-letter / UNC / NUL / non-existing-component inputs are computed instances and part of the search. '
         'Round 5: the guard language carries the string transformations of the name-normalising helpers (casefold / lower, '
         'backslash replacement, normpath, conditional strings), so a containment test made through _norm_name / '
         '_folder_prefix on case-folded strings is read faithfully and rejected by the recogniser (named obligation; '
         'c18_casefold_guard_refuted: root /t/Maps lets ../maps/secret.txt through), while the same helper on the un-folded '
         'root is recognised as sound (the root "/" gives the empty prefix); a containment method that hands the decision '
         'to a module-level function taking the file system as a parameter is read through the call, and a decoration of '
         'that function (functools.lru_cache keyed by the object, whose __eq__ / __hash__ ignore constrain_path) is a '
         'wrapper and shared state in the censuses. The search builds the chain Game(gameinfo tree).get_filesystem() and has '
         'siblings equal to the root after compatibility normalisation (fullwidth letter) and after stripping.',
    note='Trusted: Coq kernel + vm_compute, translate/c18_guard.py and translate/c18_ops.py, the hand model SM/PathNorm.v of '
         'CPython posixpath (tied by the exhaustive correspondence, POSIX only; Windows path semantics not covered) and the '
         'evaluation of path expressions SM/PathOps.v (tied by the operations correspondence), Adler-32 as the block '
         'comparison, CPython audit events + a wrapper of os.stat as the observation of file-system access. Containment '
         'is lexical (symbolic links inside the root are outside the quantifier). The os.walk contract (dirpaths are the '
         'top joined with entry names; names contain no separator and are not "", ".", "..") is a hypothesis of the walk '
         'theorem, not checked. Which string walk_folder stores in a yielded handle (os.path.relpath) is not modelled: the '
         'theorems hold for any stored string because every consumer re-validates. Escaping the *subfolder prefix* of a '
         'FileSystemChain member while staying inside the RawFileSystem root is counted, not reported (the property speaks '
         'about the root directory). unify_path("..") == ".." is an observation, carved out of the theorem. '
         'constrain_path=False and assignments to fs.path / fs.constrain_path from outside the class are exempt. '
         'The censuses are syntactic (filesys.py in depth, every other module of the package for patches, subclasses, '
         'constructions, flag stores): code outside the package, dynamically computed attribute names and C extensions are '
         'not seen; the history search on the implementation (which imports the package modules naming the classes and '
         'shares constructor extras between objects) is the backstop. Symbolic links inside the root pointing out are '
         'followed (lexical reading, observed and counted, not reported). The census booleans in source_ok state that the '
         'model applies (no table, no wrapper); the proof of c18_property uses guard_ok and calls_ok. '
         'Hypotheses of c18_property that are not generated objects: is_abs cwd (os.getcwd() is absolute), the os.walk '
         'entry-name contract, and step_covered / only_drops for a memo table (vacuous for today\'s source: no table). '
         'fold_char models str.casefold on ASCII letters only (identity elsewhere); no accepted guard contains it.',
)

IMPORTS = ['SV.SM.PathNorm', 'SV.SM.PathNormEnum', 'SV.SM.PathOps', 'SV.SM.PathWalkRel', 'SV.SM.PathMemo', 'SV.SM.PathHistory', 'SV.SM.PathProperty', 'SV.Gen.Containment_gen', 'SV.Gen.FsOps_gen', 'SV.Gen.FsCensus_gen', 'SV.Props.C18', 'Coq.NArith.NArith',
           'Coq.Lists.List']
PRE = 'Import ListNotations.\n'
CWD = '/w/cwd'
ALPHA = ['..', '.', '', 'a', 'root', 'root_evil', 'root/x']
# second alphabet: segments that CONTAIN backslashes (ordinary characters on POSIX), and non-ASCII look-alikes of '.', '..'
# and '/' (fullwidth full stop U+FF0E, two dot leader U+2025, division slash U+2215) which must stay ordinary characters;
# all are invariant under str.casefold (unify_path's model leaves casefold out)
ALPHA2 = ['..', '.', 'a', '\\', '..\\', 'a\\..', '\u00e9', '\uff0e\uff0e', 'x\u2215y', '\u2025']
ALPHABETS = {'alpha': ALPHA, 'alpha2': ALPHA2}
PREFIXES = ['', '/', '//', '///', '/t/', '/t/root/../', '\\']
ROOTS = ['/t/root', '/t/root/', '/', 't/root', '//t/root', '/t/root/x/..']
KINDS = [0, 1, 2, 3]
PINNED_DIGESTS = {'0c705014a388', '6306d55cde22'}      # ast digests of _resolve_path (pinned tree, repaired tree)
ESCALATE: list = []
RESOLVE_METHOD = ['_resolve_path']      # the method that raises RootEscapeError, as found by the translator
DISAGREE: dict = {}                    # stage -> names of functions on which model and implementation disagree


# ------------------------------------------------------------------------------------------------ implementation side
@contextlib.contextmanager
def fake_cwd(cwd: str):
    """os.path.abspath consults os.getcwd(); pin it so RawFileSystem(relative root) is a pure string function."""
    old = os.getcwd
    os.getcwd = lambda: cwd
    try:
        yield
    finally:
        os.getcwd = old


def join_kind(kind: int, segs) -> str:
    out = []
    for i, s in enumerate(segs):
        if i:
            j = {0: '/', 1: '\\'}.get(kind)
            if j is None:
                j = ('/' if i % 2 == 1 else '\\') if kind == 2 else ('\\' if i % 2 == 1 else '/')
            out.append(j)
        out.append(s)
    return ''.join(out)


def paths_of(prefix: str, kind: int, n: int, alpha: str = 'alpha') -> list[str]:
    return [prefix + join_kind(kind, t) for t in itertools.product(ALPHABETS[alpha], repeat=n)]


def impl_resolve(fs, p: str) -> str:
    from srctools.filesys import RootEscapeError
    try:
        return getattr(fs, RESOLVE_METHOD[0])(p)
    except RootEscapeError:
        return '!'
    except Exception as e:          # a fault may make it fail in another way: a result the model will not agree with
        return '?' + type(e).__name__


def impl_unify(p: str) -> str:
    from srctools.packlist import unify_path
    try:
        return '=' + unify_path(p)
    except ValueError:
        return '!'
    except Exception as e:
        return '?' + type(e).__name__


def path_shape(p: str) -> str:
    """Coarse class of an input path, for the printed distribution."""
    comps = p.split('/')
    tags = ['abs' if p.startswith('/') else 'rel']
    if '..' in comps:
        tags.append('dotdot')
    if '\\' in p:
        tags.append('backslash')
    if any('..' in c and c != '..' for c in comps):
        tags.append('dotdot-inside-name')
    if '//' in p:
        tags.append('empty-seg')
    if any(ord(c) > 127 for c in p):
        tags.append('non-ascii')
    return '+'.join(tags)


def impl_relpath(p: str) -> str:
    try:
        return posixpath.relpath(p, '/t/root')
    except ValueError:          # relpath('') : "no path specified"
        return '!'


def adler(results) -> int:
    text = '\n'.join(results) + '\n'
    try:
        return zlib.adler32(text.encode('latin-1'))
    except UnicodeEncodeError:
        # same recurrence over code points as SM/PathNormEnum.v (ad_char), which is Adler-32 when all are < 256
        a, b = 1, 0
        for ch in text:
            a = (a + ord(ch)) % 65521
            b = (b + a) % 65521
        return (b << 16) | a


def functions():
    """(name, Coq function text, implementation function) for every compared function."""
    from srctools.filesys import RawFileSystem
    fns = [('normpath', 'normpath', posixpath.normpath),
           ('unify_path', '(fun p => enc_opt (unify_path p))', impl_unify),
           ('relpath[/t/root]', f'(fun p => match p with [] => bang | _ => relpath {coq_str(CWD)} p {coq_str("/t/root")} end)',
            impl_relpath)]
    with fake_cwd(CWD):
        for r in ROOTS:
            fs = RawFileSystem(r)
            fns.append((f'resolve[{r}]', f'(fun p => enc_res (resolve raise_if true {coq_str(CWD)} {coq_str(r)} p))',
                        (lambda p, fs=fs: impl_resolve(fs, p))))
    return fns


class Inconclusive(RuntimeError):
    """The machine was too slow for a stage of the check: nothing is claimed (INTERNAL-ERROR), in particular no violation."""


def coq_run(ck: Ck, tag: str, exprs: list[str], timeout: int = 1500, preamble: str = '') -> list[str] | None:
    """Like ck.coq_eval, but safe to call from several threads (own directory per call).  A coqc process that does not finish
    within `timeout` (far above what any block takes on a loaded machine: seconds in the quick tier, a minute or two in the
    thorough one) makes the whole check inconclusive instead of failing an obligation."""
    d = Path(tempfile.mkdtemp(prefix=f'coq_{tag}_', dir=ck.scratch))
    body = ''.join(f'Require Import {i}.\n' for i in IMPORTS) + PRE
    body += 'Set Printing Width 1000000.\nSet Printing Depth 1000000.\n'
    body += f'Definition alpha : list str := {coq_list(coq_str(a) for a in ALPHA)}.\n'
    body += f'Definition alpha2 : list str := {coq_list(coq_str(a) for a in ALPHA2)}.\n' + preamble
    for e in exprs:
        body += f'Eval vm_compute in ({e}).\n'
    f = d / 'blk.v'
    f.write_text(body)
    try:
        r = subprocess.run(['coqc', '-Q', str(ROCQ), 'SV', str(f)], capture_output=True, text=True, timeout=timeout, cwd=d,
                           preexec_fn=_unlimit_stack)
    except subprocess.TimeoutExpired:
        ck.notes.append(f'coqc timeout in {tag}')
        raise Inconclusive(f'coqc did not finish block {tag} within {timeout} s (machine too slow / too busy): inconclusive') from None
    if r.returncode != 0:
        ck.notes.append(f'coq_run {tag} failed: {(r.stdout + r.stderr)[-1200:]}')
        return None
    vals = _split_evals(r.stdout)
    return vals if len(vals) == len(exprs) else None


def _int(v: str) -> int:
    v = v.split('%')[0].strip()
    return int(v, 16) if v.startswith('0x') else int(v)


def corr_exhaustive_start(ck: Ck):
    """Model vs implementation over the whole segment domain: per block one Adler-32 computed by vm_compute.
    Runs the implementation side, starts the coqc processes and returns; corr_exhaustive_finish compares."""
    fns = functions()
    full = ck.thorough or bool(ck.tie_broken) or bool(ESCALATE)
    # a job = one coqc process: (prefix, separator kind, [(alphabet, segment count, indexes of the functions compared)])
    allf = list(range(len(fns)))
    jobs = []
    for pi, prefix in enumerate(PREFIXES):
        for kind in KINDS:
            c = pi * 4 + kind
            # quick tier: <= 4 segments; the big blocks compare normpath, unify_path and two of the six roots (rotating
            # with the combination, so every root meets every separator pattern); 5 segments only when escalated
            some = [0, 1, 2, 3 + c % 6, 3 + (c + 3) % 6]
            # escalated quick tier (a tie is broken / _resolve_path changed): all functions on every block
            parts = [('alpha', n, allf if (full or n <= 3) else some) for n in range(0, 5)]
            if ck.thorough:
                parts.append(('alpha', 5, allf))
            # second alphabet (backslash-carrying and non-ASCII segments): <= 3 segments, 4 in the thorough tier
            parts += [('alpha2', n, allf if (full or n <= 2) else some) for n in range(1, (4 if ck.thorough else 3) + 1)]
            jobs.append((prefix, kind, parts))
    if ck.thorough:     # six segments: relative with plain separators, absolute with alternating separators
        jobs += [(prefix, kind, [('alpha', 6, allf)]) for prefix, kind in (('', 0), ('/', 2))]

    # the implementation runs here (sequentially, under the pinned cwd); the coqc processes run in parallel below
    import time
    t_impl = time.time()
    prepared = []
    with fake_cwd(CWD):
        for job in jobs:
            prefix, kind, parts = job
            exprs, exp, meta = [], [], []
            for alpha, n, fidx in parts:
                ps = paths_of(prefix, kind, n, alpha)
                for p in ps:
                    ck.hist('corr_path_shape', path_shape(p))
                for fi in fidx:
                    name, coqf, impl = fns[fi]
                    res = [impl(p) for p in ps]
                    exp.append(adler(res))
                    meta.append((name, n, coqf, len(ps), alpha))
                    exprs.append(f'block_adler {coqf} (paths_of {coq_str(prefix)} {kind} {alpha} {n})')
                    ck.count('corr_exhaustive_cases', len(ps))
                    ck.hist('corr_function', name, len(ps))
                    ck.hist('corr_segments', f'{alpha}:{n}', len(ps))
                    ck.hist('corr_alphabet', alpha, len(ps))
                    esc = sum(1 for x in res if x == '!')
                    if name not in ('normpath', 'relpath[/t/root]'):
                        ck.hist('corr_outcome', f'{name.split("[")[0]}:rejected', esc)
                        ck.hist('corr_outcome', f'{name.split("[")[0]}:accepted', len(res) - esc)
                    if n >= 2:
                        ck.seen(('blk', name, prefix, kind, n, alpha))
            prepared.append((job, exprs, exp, meta))
    import time
    ck.extra['corr_exhaustive_impl_side_s'] = round(time.time() - t_impl, 1)
    # the coqc processes start now and run while the caller goes on (run() searches the real trees meanwhile)
    ex = ThreadPoolExecutor(max_workers=8)
    futs = [ex.submit(coq_run, ck, f'p{PREFIXES.index(pr[0][0])}k{pr[0][1]}', pr[1]) for pr in prepared]
    ex.shutdown(wait=False)
    return prepared, futs


def corr_exhaustive_finish(ck: Ck, started) -> None:
    prepared, futs = started
    outs = [f.result() for f in futs]
    bad_blocks = []
    failed_eval = 0
    nblocks = 0
    for (job, exprs, exp, meta), vals in zip(prepared, outs):
        if vals is None:
            failed_eval += 1
            continue
        for v, e, m in zip(vals, exp, meta):
            nblocks += 1
            if _int(v) != e:
                bad_blocks.append((job, m))
    ck.extra['corr_blocks'] = nblocks
    if failed_eval:
        ck.obligation('correspondence:paths_exhaustive', False, f'{failed_eval} block groups could not be evaluated by coqc')
        ck.tie_broken.append('correspondence paths: model evaluation failed')
        return
    detail = []
    for (job, (name, n, coqf, cnt, alpha)) in bad_blocks[:4]:
        detail.append(locate_disagreement(ck, job[0], job[1], n, name, coqf, alpha))
    ck.obligation('correspondence:paths_exhaustive', not bad_blocks,
                  f'{nblocks} blocks ({ck.counts.get("corr_exhaustive_cases", 0)} cases) of normpath / unify_path / '
                  f'RawFileSystem._resolve_path over 6 roots: {len(bad_blocks)} blocks disagree ' + '; '.join(map(str, detail))
                  + f'; paths by alphabet {ck.distribution.get("corr_alphabet")}, by shape {ck.distribution.get("corr_path_shape")}')
    if bad_blocks:
        ck.tie_broken.append('correspondence paths (SM/PathNorm.v vs posixpath / _resolve_path / unify_path)')
        DISAGREE.setdefault('exhaustive', set()).update(m[0] for _, m in bad_blocks)
        ck.extra['path_disagreements'] = detail


def model_predicted_escapes(ck: Ck) -> None:
    """When the generated guard is not a sound form: let the model enumerate paths it lets out of the root, and run them
    on the implementation (they feed the evidence; the tree search reports the violation itself)."""
    from srctools.filesys import RawFileSystem
    two = coq_str('2')
    exprs = [f'firstn 4 (filter (fun p => str_eqb (verdict raise_if {coq_str(CWD)} {coq_str("/t/root")} p) {two}) '
             f'(paths_of {coq_str(pre)} 0 alpha {n}))' for pre in ('', '/t/') for n in (1, 2, 3)]
    vals = coq_run(ck, 'pred', exprs)
    if vals is None:
        return
    from harness.common import parse_coq_nested
    out = []
    with fake_cwd(CWD):
        fs = RawFileSystem('/t/root')
        for v in vals:
            for w in parse_coq_nested(v):
                p = ''.join(chr(c) for c in w)
                out.append({'root': '/t/root', 'path': p, 'implementation_resolves_to': impl_resolve(fs, p)})
    ck.extra['model_predicted_escapes'] = out[:12]


def locate_disagreement(ck: Ck, prefix: str, kind: int, n: int, name: str, coqf: str, alpha: str = 'alpha'):
    """Find the first case of a disagreeing block and show both results."""
    fn = {f[0]: f[2] for f in functions()}[name]
    ps = paths_of(prefix, kind, n, alpha)
    vals = coq_run(ck, 'loc', [f'case_adlers {coqf} (paths_of {coq_str(prefix)} {kind} {alpha} {n})'])
    if vals is None:
        return {'function': name, 'prefix': prefix, 'kind': kind, 'n': n, 'case': 'could not locate'}
    got = [_int(x) for x in vals[0].strip('[]').split(';') if x.strip()]
    with fake_cwd(CWD):
        for p, g in zip(ps, got):
            r = fn(p)
            if adler([r]) != g:
                mv = coq_run(ck, 'loc1', [f'{coqf} {coq_str(p)}'])
                model = ''.join(chr(c) for c in parse_coq_N_list(mv[0])) if mv else '?'
                return {'function': name, 'path': p, 'implementation': r, 'model': model}
    return {'function': name, 'prefix': prefix, 'kind': kind, 'n': n, 'case': 'checksums differ, no single case located'}


RAW_ALPHA = ['/', '/', '\\', '.', '.', 'a', 'r', '_', ' ', '~', 'é']


def corr_random(ck: Ck) -> None:
    """Unstructured strings (runs of dots, spaces, names containing dots) with explicit literals."""
    fns = functions()
    n = ck.budget(900, 4500)
    corpus = ['', '.', '..', '...', '..a', 'a..', '/..', '//..', '///..', 'a/./../..', '/a/../../b', ' /..', '../', '..\\',
              'a\\..', 'a\\..\\..', '\\..\\a', '~/..', '/.//./', 'r/../r_/..', 'é/../é']
    cases = list(corpus)
    while len(cases) < n:
        cases.append(''.join(ck.rng.choice(RAW_ALPHA) for _ in range(ck.rng.choice([1, 2, 3, 5, 8, 12]))))
    bad = []
    with fake_cwd(CWD):
        exp = [[f[2](p) for f in fns] for p in cases]
    for p in cases:
        ck.count('corr_random_cases', len(fns))
        if '..' in p and len(p) > 2:
            ck.seen(('rnd', p))
    ck.hist('corr_random_len', 'total', len(cases))
    # only the paths go to Coq; the model answers with one checksum per (function, case), compared here
    bad_fns: set[str] = set()
    los = list(range(0, len(cases), 300))

    def batch(lo):
        lit = coq_list(coq_str(p) for p in cases[lo:lo + 300])
        return coq_run(ck, f'rnd{lo}', [f'case_adlers {f[1]} rnd_paths' for f in fns],
                       preamble=f'Definition rnd_paths : list str := {lit}.\n')
    with ThreadPoolExecutor(max_workers=6) as ex:
        outs = list(ex.map(batch, los))
    for lo, vals in zip(los, outs):
        if vals is None:
            ck.obligation('correspondence:paths_random', False, 'model could not be evaluated')
            ck.tie_broken.append('correspondence random paths: model evaluation failed')
            return
        for fi, v in enumerate(vals):
            got = [_int(x) for x in v.strip('[]').split(';') if x.strip()]
            for k, g in enumerate(got):
                if adler([exp[lo + k][fi]]) != g:
                    bad_fns.add(fns[fi][0])
                    bad.append((lo + k, fi))
    bad.sort()
    if bad:     # fetch the model's own answers for the first disagreeing case
        k0 = bad[0][0]
        mv = coq_run(ck, 'rnd_first', [f'{f[1]} {coq_str(cases[k0])}' for f in fns])
        bad = [(k0, [''.join(chr(c) for c in parse_coq_N_list(x)) for x in mv] if mv else ['?'])] + bad[1:]
    ck.obligation('correspondence:paths_random', not bad,
                  f'{len(cases)} raw strings x {len(fns)} functions, model vs implementation: {len(bad)} disagreements'
                  + (f' in {sorted(bad_fns)}; first: {cases[bad[0][0]]!r} -> impl {exp[bad[0][0]]!r} model {bad[0][1]!r}' if bad else ''))
    if bad:
        ck.tie_broken.append('correspondence random paths (SM/PathNorm.v vs posixpath / _resolve_path / unify_path)')
        ck.extra['random_path_disagreement'] = {'path': cases[bad[0][0]], 'implementation': exp[bad[0][0]], 'model': bad[0][1],
                                                'functions': [f[0] for f in fns]}
        DISAGREE.setdefault('random', set()).update(bad_fns)
    ck.sample({'path': cases[10], 'functions': [f[0] for f in fns], 'implementation_results': exp[10]})


def check_casefold(ck: Ck) -> None:
    """The unify_path model leaves str.casefold out: no code point may fold to or from '.', '/', '\\'."""
    special = set('./\\')
    bad = []
    for c in range(0x110000):
        ch = chr(c)
        f = ch.casefold()
        if (ch in special and f != ch) or (ch not in special and special & set(f)):
            bad.append(c)
    ck.extra['casefold_code_points_checked'] = 0x110000
    ck.obligation('assumption:casefold_neutral_on_path_syntax', not bad,
                  f'str.casefold maps no code point to or from . / \\ ({len(bad)} exceptions {bad[:5]})')


# ------------------------------------------------------------------------------------------------ oracle on real trees
TREE = {
    'top.txt', 't/above.txt', 't/a',
    't/root/in.txt', 't/root/a', 't/root/sub/deep.txt', 't/root/sub/in.txt', 't/root/root_evil/nested.txt',
    't/root/x/a', 't/root/sub_evil/x.txt',
    't/root_evil/secret.txt', 't/root_evil/a', 't/root_evil/sub/deep.txt', 't/root_evil/root/x',
    't/rootx', 't/root.bak/in.txt', 't/other/in.txt', 't/roo/in.txt',
    # siblings that differ from the root only in case (a case-folding comparison would take them for the root)
    't/Root/in.txt', 't/ROOT/sub/in.txt',
    # round 5: siblings whose names equal the root's name after a transformation other than case folding: Unicode
    # compatibility normalisation (fullwidth 'r', U+FF52: NFKC('\uff52oot') == 'root') and stripping (trailing blank)
    't/\uff52oot/in.txt', 't/root /in.txt',
    'elsewhere/data.txt',
    # files INSIDE the root whose literal names contain backslashes (ordinary characters on POSIX): the name validates as
    # inside, the File handle built from it stores the name with '\\' turned into '/', i.e. a path that leaves the root
    't/root/..\\above.txt', 't/root/..\\root_evil\\secret.txt', 't/root/sub\\..\\..\\above.txt',
    't/root/sub/..\\in.txt', 't/root/sub/..\\sub_evil\\x.txt',
}
# (label, root relative to BASE or spelled otherwise, how it is passed)
ROOT_CONFIGS = [
    ('abs', '{BASE}/t/root'),
    ('abs-trailing-sep', '{BASE}/t/root/'),
    ('relative', 't/root'),                    # cwd = BASE
    ('relative-trailing-sep', './t/root/'),
    ('unnormalised', '{BASE}/t/other/../root'),
    ('pathlib', 'Path:{BASE}/t/root'),
    ('nested', '{BASE}/t/root/sub'),           # sibling t/root/sub_evil extends its name
    # round 4: file systems made by the package's own factories (entry points that construct a RawFileSystem)
    ('factory-get_filesystem', 'Factory:get_filesystem:{BASE}/t/root'),
    ('factory-get_inst_locs', 'Factory:get_inst_locs:{BASE}/t/root/map.vmf'),
    # round 5: the chain Game(...).get_filesystem() builds from a gameinfo.txt whose search path names the root
    ('factory-Game', 'Factory:Game:{BASE}/t/game'),
    # ... and a file system the caller made and then handed to a consumer inside the package (PackList keeps the chain)
    ('factory-then-PackList', 'Consumer:PackList:{BASE}/t/root'),
]
GAMEINFO = '''"GameInfo"
{
    "Game" "verif"
    "Filesystem"
    {
        "SteamAppId" "620"
        "SearchPaths"
        {
            "game" "|gameinfo_path|../root"
        }
    }
}
'''
CHAIN_PREFIXES = [None, '', 'sub', 'sub/']
# round 4: a chain inside a chain (outer prefix, inner prefix) around the constrained member; and an UNconstrained member on
# another folder ({BASE}/t/root_evil/sub, consulted first) next to the constrained one
NESTED_CHAINS = [('nest', 'sub', ''), ('nest', '', 'sub'), ('nest', 'x/..', 'sub'), ('mixed', '', ''), ('mixed', '..', 'sub')]
LOOSE_MEMBER = '/t/root_evil/sub'      # folder of the unconstrained member of a mixed chain (deep enough that the relative spellings stay in the tree)
THIN_LABELS = ['abs-trailing-sep', 'relative-trailing-sep', 'unnormalised', 'pathlib', 'relative']
PLAIN_CONFIGS = 7           # the first seven root configurations are drawn by the random part (keeps the random stream of round 3)
ESCAPE_KEYS = ('escape-', 'handle-escape-', 'history-escape-')
# after_loose comes before handle_loose: both let an unconstrained system resolve the name, the history op wants to be first
OPS = ['contains', 'getitem', 'open_bin', 'open_str', 'walk', 'after_loose', 'handle_loose', 'handle_made']
SUB_OPS = ['contains', 'getitem', 'open_bin', 'open_str', 'walk']
HIST_SUB_OPS = SUB_OPS + ['read_kv1']       # what the history operation performs on both file systems
# round 4: the inherited entry points (FileSystem.read_kv1 / read_prop / __iter__), run by the targeted part only
ENTRY_OPS = ['read_kv1']
SEGS = ['..', '..', '.', '', 'in.txt', 'a', 'sub', 'deep.txt', 'root', 'root_evil', 'secret.txt', 't', 'rootx', 'root.bak',
        'sub_evil', 'x.txt', 'x', 'above.txt', 'top.txt', 'other', 'roo', 'nested.txt', 'elsewhere', 'data.txt',
        'Root', 'ROOT', ' ..', '.. ', '%2e%2e', '\uff0e\uff0e', '\uff52oot', 'root ']

_events: list | None = None
_obs_thread = 0
_hook_installed = False


def _audit(event: str, args) -> None:
    ev = _events
    if ev is None or threading.get_ident() != _obs_thread:      # worker threads (coqc runs of the correspondence) are not observed
        return
    if event in ('open', 'os.scandir', 'os.listdir', 'os.walk') and args and isinstance(args[0], (str, bytes, os.PathLike)):
        ev.append((event, os.fsdecode(args[0])))


@contextlib.contextmanager
def observe():
    """Record every path handed to open / scandir / listdir / walk (audit events) and to os.stat / os.lstat."""
    global _events, _hook_installed, _obs_thread
    _obs_thread = me = threading.get_ident()
    if not _hook_installed:
        sys.addaudithook(_audit)
        _hook_installed = True
    real_stat, real_lstat = os.stat, os.lstat
    ev: list = []

    def stat(path, *a, **k):
        if isinstance(path, (str, bytes, os.PathLike)) and threading.get_ident() == me:
            ev.append(('os.stat', os.fsdecode(path)))
        return real_stat(path, *a, **k)

    def lstat(path, *a, **k):
        if isinstance(path, (str, bytes, os.PathLike)) and threading.get_ident() == me:
            ev.append(('os.lstat', os.fsdecode(path)))
        return real_lstat(path, *a, **k)

    os.stat, os.lstat = stat, lstat
    _events = ev
    try:
        yield ev
    finally:
        _events = None
        os.stat, os.lstat = real_stat, real_lstat


def build_tree(base: Path) -> None:
    _real.cache_clear()
    for rel in sorted(TREE):
        p = base / rel
        p.parent.mkdir(parents=True, exist_ok=True)
        p.write_text(f'"CONTENT-OF:{rel}" "1"\n')      # a one-line keyvalues file naming itself (read_kv1 can parse it)


SHARED_CTOR_STATE: dict = {}


def _ctor_extras() -> dict:
    """Constructor parameters of RawFileSystem beyond (path, constrain_path): whatever can be handed in from outside is
    handed in SHARED between every object the search makes (one dict per parameter), as a caller wanting a cache would."""
    from srctools.filesys import RawFileSystem
    return {name: SHARED_CTOR_STATE.setdefault(name, {}) for name in _extra_params(RawFileSystem.__init__)}


@functools.lru_cache(maxsize=8)
def _extra_params(init) -> tuple:
    import inspect
    try:
        params = list(inspect.signature(init).parameters.values())[1:]
    except (TypeError, ValueError):
        return ()
    return tuple(prm.name for prm in params if prm.name not in ('path', 'constrain_path')
                 and prm.kind not in (prm.VAR_POSITIONAL, prm.VAR_KEYWORD))


def new_raw(path, constrain: bool = True):
    from srctools.filesys import RawFileSystem
    extras = _ctor_extras()
    if extras:
        try:
            return RawFileSystem(path, constrain_path=constrain, **extras)
        except TypeError:
            pass
    return RawFileSystem(path, constrain_path=constrain)


def content_paths(base: str, d: str) -> list[str]:
    """Which files of the tree a piece of returned data (file text, parsed key names, an error message) came from."""
    import re
    return [os.path.join(base, m.group(1).strip()) for m in re.finditer(r'CONTENT-OF:([^"\n]*)', d)]


def make_fs(base: str, root_spec: str, chain_prefix, constrain: bool = True):
    """(file system under test, its constrained RawFileSystem member)."""
    from srctools.filesys import FileSystemChain, RawFileSystem
    spec = root_spec.replace('{BASE}', base)
    if spec.startswith('Consumer:'):
        raw = new_raw(spec.split(':', 2)[2], constrain)
        if constrain:
            try:
                from srctools.packlist import PackList
                PackList(FileSystemChain(raw))
            except Exception:          # whatever the consumer does with it: the object is what is examined afterwards
                pass
    elif spec.startswith('Factory:') and constrain:
        _, how, arg = spec.split(':', 2)
        if how == 'get_filesystem':
            from srctools.filesys import get_filesystem
            raw = get_filesystem(arg)
        elif how == 'Game':
            # round 5: Game(<folder with gameinfo.txt>).get_filesystem(): the search path '|gameinfo_path|../root' arrives
            # as an un-normalised pathlib.Path ({BASE}/t/game/../root) at RawFileSystem
            from srctools.game import Game
            gdir = Path(arg)
            gdir.mkdir(parents=True, exist_ok=True)
            if not (gdir / 'gameinfo.txt').exists():
                (gdir / 'gameinfo.txt').write_text(GAMEINFO)
            made = Game(gdir).get_filesystem()
            raws = [m for m, _ in made.systems if isinstance(m, RawFileSystem)]
            if not raws:
                raise RuntimeError('Game.get_filesystem() made no RawFileSystem for the gameinfo tree of the check')
            raw = raws[0]
            if chain_prefix is None:
                return made, raw
        else:
            from srctools.instancing import get_inst_locs
            made = get_inst_locs(Path(arg))
            raw = made.systems[0][0]
            if chain_prefix is None:
                return made, raw
    else:
        if spec.startswith('Factory:'):
            how = spec.split(':', 2)[1]
            spec = os.path.dirname(spec.split(':', 2)[2]) if how == 'get_inst_locs' else \
                os.path.join(os.path.dirname(spec.split(':', 2)[2]), 'root') if how == 'Game' else spec.split(':', 2)[2]
        raw = new_raw(Path(spec[5:]) if spec.startswith('Path:') else spec, constrain)
    if chain_prefix is None:
        return raw, raw
    if isinstance(chain_prefix, tuple) and chain_prefix[0] == 'nest':
        return FileSystemChain((FileSystemChain((raw, chain_prefix[2])), chain_prefix[1])), raw
    if isinstance(chain_prefix, tuple) and chain_prefix[0] == 'mixed':
        return FileSystemChain((new_raw(base + LOOSE_MEMBER, False), chain_prefix[1]), (raw, chain_prefix[2])), raw
    return FileSystemChain((raw, chain_prefix)), raw


def chain_rel(chain_prefix, path: str) -> str:
    """The name a member receives for `path` (a chain joins its prefix first and then turns the slashes)."""
    if chain_prefix is None:
        return path.replace('\\', '/')
    if isinstance(chain_prefix, tuple):
        outer = os.path.join(chain_prefix[1], path).replace('\\', '/')
        return os.path.join(chain_prefix[2], outer).replace('\\', '/') if chain_prefix[0] == 'nest' else \
            os.path.join(chain_prefix[2], path).replace('\\', '/')
    return os.path.join(chain_prefix, path).replace('\\', '/')


HANGS: list = []        # paths on which the implementation did not come back
MAX_HANGS = 12          # after that many the search stops: the failing inputs are in hand, every further one costs seconds


class _Hang(BaseException):
    """An operation on the implementation did not come back in time."""


@contextlib.contextmanager
def time_limit(seconds: float):
    """Alarm around one call into the implementation (main thread only): a fault that makes it loop is a failing input,
    not a hung check.  The limit is far above (> 100x) what an operation takes on a loaded machine."""
    import signal
    if threading.current_thread() is not threading.main_thread():
        yield
        return
    if not _alarm_installed:
        signal.signal(signal.SIGALRM, _on_alarm)
        _alarm_installed.append(True)
    signal.setitimer(signal.ITIMER_REAL, seconds)
    try:
        yield
    finally:
        signal.setitimer(signal.ITIMER_REAL, 0)


_alarm_installed: list = []


def _on_alarm(signum, frame):
    raise _Hang()


@functools.lru_cache(maxsize=1 << 16)       # the tree does not change while it is searched
def _real(p: str) -> str:
    """os.path.realpath; a broken filesystem may have wandered into /proc, where entries vanish while being resolved."""
    try:
        return os.path.realpath(p)
    except (OSError, ValueError):       # ValueError: embedded null byte
        return os.path.normpath(os.path.abspath(p))


def is_inside(root: str, p: str) -> bool:
    """Independent containment test used by the oracle: whole-component comparison of normalised real paths."""
    r = _real(root).split('/')
    q = _real(p).split('/')
    r = [c for c in r if c]
    q = [c for c in q if c]
    return q[:len(r)] == r


def _handle_for(fs, raw, chain_prefix, h):
    """A File of the raw filesystem as the object under test would hand it out (wrapped for a FileSystemChain)."""
    from srctools.filesys import File
    return h if chain_prefix is None else File(fs, h.path, h)


def _sub_op(fs, sub: str, path: str, data: list, walk_limit: int, answers: list | None = None) -> str:
    """One plain operation, used by the history op after_loose on both filesystems."""
    if sub == 'contains':
        r = path in fs
        if r and answers is not None:
            answers.append('contains')
        return str(r)
    if sub == 'getitem':
        f = fs[path]
        if answers is not None:
            answers.append('getitem')
        with f.open_bin() as fh:
            data.append(fh.read(4096).decode(errors='replace'))
        f.cache_key()
        return 'file'
    if sub == 'open_bin':
        with fs.open_bin(path) as fh:
            data.append(fh.read(4096).decode(errors='replace'))
        return 'data'
    if sub == 'open_str':
        with fs.open_str(path) as fh2:
            data.append(fh2.read(4096))
        return 'data'
    if sub == 'read_kv1':       # the inherited entry points FileSystem.read_kv1 / read_prop (deprecated spelling)
        import warnings
        from srctools.tokenizer import TokenSyntaxError
        for how in ('read_kv1', 'read_prop'):
            try:
                with warnings.catch_warnings():
                    warnings.simplefilter('ignore')
                    kv = getattr(fs, how)(path)
                data.append('\n'.join(k.real_name or '' for k in kv.iter_tree()))
            except TokenSyntaxError as e:
                data.append(str(e))
        return 'keyvalues'
    n = 0
    for f in fs.walk_folder(path):      # lazily: an unconstrained walk of '../../..' must not list the whole disk
        n += 1
        if n > walk_limit:
            break
        try:                            # a yielded handle may itself be refused (literal backslash names); keep walking
            with f.open_bin() as fh:
                data.append(fh.read(4096).decode(errors='replace'))
        except ValueError:
            pass
    return f'{n} files'


@functools.lru_cache(maxsize=1)
def _ignored_prefixes() -> tuple:
    """Files the interpreter itself opens (lazy imports) are not accesses of the filesystem under test."""
    from harness.common import REPO, VERIF
    return tuple(x.rstrip('/') + '/' for x in {sys.prefix, sys.base_prefix, os.path.dirname(os.__file__), str(REPO), str(VERIF)})


def run_op(base: str, root_spec: str, chain_prefix, op: str, path_t: str, cold: bool = True, entry_hist: bool = True) -> dict:
    """Run one operation on a fresh filesystem object; returns outcome, data and the observed accesses.

    handle_loose: a File produced by an UNconstrained RawFileSystem on the same folder (its lookup is not observed, it
    is exempt) is opened through the constrained one.  handle_made: a File built by hand, File(fs, path, path).
    Both call open_bin, open_str and the cache key separately, each may raise RootEscapeError."""
    from srctools.filesys import File, RawFileSystem, RootEscapeError
    path = path_t.replace('{BASE}', base)
    old = os.getcwd()
    os.chdir(base)
    data: list[str] = []
    answers: list[str] = []     # positive answers of the constrained filesystem about this name: `in` said True, [] returned a File
    hist_ops = HIST_SUB_OPS if entry_hist else SUB_OPS      # does the history operation include the inherited entry points?
    handle = raw = unexpected = None
    cold_escape = exempt_answers = False
    exempt: set = set()
    exempt_tops: list = []
    # one alarm around the whole case (preparation included); an operation takes milliseconds.  After the first hang the
    # limit drops (every further hanging case costs its full limit)
    limit = time_limit(30 if not HANGS else 3)
    limit.__enter__()
    try:
        fs, raw = make_fs(base, root_spec, chain_prefix)
        root = raw.path
        handle = None
        prep = None
        cold_escape = False
        if isinstance(chain_prefix, tuple) and chain_prefix[0] == 'mixed':
            # what the UNconstrained member of the chain touches on its own (it is exempt): the same operation on a chain
            # that holds only such a member
            from srctools.filesys import FileSystemChain
            alone = FileSystemChain((new_raw(base + LOOSE_MEMBER, False), chain_prefix[1]))
            ans_u: list = []
            if op == 'walk' and not is_inside(base, os.path.normpath(os.path.join(
                    base + LOOSE_MEMBER, os.path.join(chain_prefix[1], path).replace('\\', '/')))):
                # the unconstrained member would walk folders outside the scratch tree (other people's files): not run
                prep = 'skipped:the unconstrained member would walk out of the scratch tree'
            with observe() as ev_u:
                try:
                    if op in SUB_OPS and prep is None:
                        _sub_op(alone, op, path, [], 400, ans_u)
                except Exception:
                    pass
            exempt = {_real(os.path.join(base, p)) for _, p in ev_u}
            # ... and everything below a folder it walks: a walk that climbs out of the tree meets folders other processes
            # are writing to (the scratch area), so two walks of it need not list the same files in the same order
            exempt_tops = [_real(os.path.join(base, p)) for k_, p in ev_u if k_ == 'os.walk']
            exempt_answers = bool(ans_u)
        if op == 'handle_loose' and chain_prefix is not None:
            prep = 'no-handle:chain'          # a chain would open the wrapped handle through the unconstrained system
        elif op == 'handle_loose':
            try:
                handle = _handle_for(fs, raw, chain_prefix, RawFileSystem(raw.path, constrain_path=False)[path])
            except Exception as e:
                prep = 'no-handle:' + type(e).__name__
        elif op == 'handle_made':
            handle = _handle_for(fs, raw, chain_prefix, File(raw, path, path))
        elif op == 'after_loose':
            # history: an UNconstrained filesystem on the same folder (same chain prefix) performs every plain operation
            # with this name first (not observed: it is exempt); then a NEW constrained one is asked the same.
            # Before that (cold=True; the targeted part of the search has run the plain operations on the same name already
            # and passes what they found instead) the constrained one is asked "cold": an escape that needs no history is
            # not a history matter.
            if cold:
                with observe() as ev0:
                    cold_data: list[str] = []
                    for sub in hist_ops:
                        try:
                            _sub_op(fs, sub, path, cold_data, 60)
                        except Exception:
                            pass
                seen0 = [os.path.normpath(os.path.join(base, p)) for _, p in ev0] + \
                    [w for d in cold_data for w in content_paths(base, d)]
                cold_escape = any(not is_inside(root, p) and not p.startswith(_ignored_prefixes()) for p in seen0)
                fs, raw = make_fs(base, root_spec, chain_prefix)
            loose, _ = make_fs(base, root_spec, chain_prefix, constrain=False)
            for sub in hist_ops:
                try:
                    _sub_op(loose, sub, path, [], 3)
                except Exception:
                    pass
        with observe() as ev:
            try:
                if prep is not None:
                    out = prep
                elif op == 'read_kv1':
                    # inherited entry point: FileSystem.read_kv1 -> self.open_str -> Keyvalues.parse; also through a handle
                    # and the deprecated read_prop spelling.  The files are not keyvalues: a parse error is expected and
                    # its text is kept (an error message quoting the file would be a leak as well)
                    import warnings
                    from srctools.tokenizer import TokenSyntaxError
                    done = []
                    for how in ('read_kv1', 'read_prop'):
                        try:
                            with warnings.catch_warnings():
                                warnings.simplefilter('ignore')
                                kv = getattr(fs, how)(path)
                            data.append('\n'.join(f'{k.real_name}' for k in kv.iter_tree()))
                            done.append(how)
                        except RootEscapeError:
                            pass
                        except TokenSyntaxError as e:
                            data.append(str(e))
                            done.append(how + ':parse-error')
                        except (OSError, ValueError, UnicodeError) as e:
                            done.append(how + ':' + type(e).__name__)
                    out = 'ok:' + ','.join(done) if done else 'RootEscapeError'
                elif op == 'contains':
                    out = 'ok:' + _sub_op(fs, 'contains', path, data, 0, answers)
                elif op == 'getitem':
                    f = fs[path]
                    answers.append('getitem')
                    with f.open_bin() as fh:
                        data.append(fh.read(4096).decode(errors='replace'))
                    with f.open_str() as fh2:
                        data.append(fh2.read(4096))
                    f.cache_key()
                    out = 'ok:file'
                elif op == 'open_bin':
                    with fs.open_bin(path) as fh:
                        data.append(fh.read(4096).decode(errors='replace'))
                    out = 'ok:data'
                elif op == 'open_str':
                    with fs.open_str(path) as fh2:
                        data.append(fh2.read(4096))
                    out = 'ok:data'
                elif op == 'walk':
                    n = rejected = 0
                    for f in fs.walk_folder(path):
                        n += 1
                        if n > 400:       # the tree has a few dozen files: a walk this long has left it (and may never end)
                            break
                        if n <= 60:
                            try:      # a yielded handle may itself be refused (literal backslash names); keep walking
                                with f.open_bin() as fh:
                                    data.append(fh.read(4096).decode(errors='replace'))
                            except RootEscapeError:
                                rejected += 1
                    out = f'ok:{n} files'
                elif op == 'after_loose':
                    done = []
                    for sub in hist_ops:
                        try:
                            done.append(sub + '=' + _sub_op(fs, sub, path, data, 60, answers))
                        except RootEscapeError:
                            pass
                        except (OSError, ValueError, UnicodeError) as e:
                            done.append(sub + ':' + type(e).__name__)
                    out = 'ok:after-unconstrained ' + ','.join(done) if done else 'RootEscapeError'
                elif op in ('handle_loose', 'handle_made'):
                    done = []
                    # a handle of the unconstrained system opens through ITS system when asked itself: only the calls
                    # made on the constrained filesystem count for handle_loose
                    hows = ('fs.open_bin', 'fs.open_str', 'fs._get_cache_key') if op == 'handle_loose' else \
                        ('fs.open_bin', 'fs.open_str', 'File.open_bin', 'File.open_str', 'File.cache_key')
                    for how in hows:
                        try:
                            if how == 'fs.open_bin':
                                with fs.open_bin(handle) as fh:
                                    data.append(fh.read(4096).decode(errors='replace'))
                            elif how == 'fs.open_str':
                                with fs.open_str(handle) as fh2:
                                    data.append(fh2.read(4096))
                            elif how == 'File.open_bin':
                                with handle.open_bin() as fh:
                                    data.append(fh.read(4096).decode(errors='replace'))
                            elif how == 'File.open_str':
                                with handle.open_str() as fh2:
                                    data.append(fh2.read(4096))
                            elif how == 'fs._get_cache_key':
                                fs._get_cache_key(handle)
                            else:
                                handle.cache_key()
                            done.append(how)
                        except RootEscapeError:
                            pass
                        except (OSError, ValueError, UnicodeError):
                            done.append(how + ':error')
                    out = 'ok:handle ' + ','.join(done) if done else 'RootEscapeError'
                else:
                    raise AssertionError(op)
            except RootEscapeError:
                out = 'RootEscapeError'
            except (OSError, ValueError, UnicodeError) as e:
                out = type(e).__name__
            except _Hang:
                out = 'hang'
                unexpected = 'no answer within the time limit (30 s, 3 s after the first hang)'
                HANGS.append(path_t)
            except Exception as e:          # a fault may make the implementation fail in ways nobody catches: a failing input
                out = 'unexpected:' + type(e).__name__
                unexpected = f'{type(e).__name__}: {e}'[:200]
        events = [(k, os.path.normpath(os.path.join(base, p))) for k, p in ev]
    except _Hang:                           # the alarm went off outside the observed block (preparation of the case)
        out, unexpected, events = 'hang', 'no answer within the time limit while preparing the case', []
        HANGS.append(path_t)
        root = os.path.normpath(os.path.join(base, 't/root'))
    except Exception as e:                  # constructing the file system / preparing the case failed in an unforeseen way
        out, unexpected, events = 'unexpected:' + type(e).__name__, f'while preparing the case: {type(e).__name__}: {e}'[:200], []
        root = os.path.normpath(os.path.join(base, 't/root'))
    finally:
        limit.__exit__(None, None, None)
        os.chdir(old)
    ignore = _ignored_prefixes()
    def exempted(p: str) -> bool:
        return _real(p) in exempt or any(is_inside(top, p) for top in exempt_tops)
    escapes = [(k, p) for k, p in events if not is_inside(root, p) and not p.startswith(ignore) and not exempted(p)]
    leaked = []
    for d in data:
        # contents name the file they are in ('CONTENT-OF:<path relative to BASE>'); an error message may quote them
        for where in content_paths(base, d):
            if not is_inside(root, where) and not exempted(where) \
                    and not (exempt and is_inside(base + LOOSE_MEMBER, where)):
                leaked.append('CONTENT-OF:' + os.path.relpath(where, base))
    # an existence test / lookup that answers (instead of raising) about a name that lexically leads out of the root has
    # told the caller something about the outside, even when a cache made the OS call unnecessary
    # (where the name leads: a chain joins its prefix first and then turns the slashes, so '\\in.txt' under prefix 'sub' is
    # 'sub//in.txt'; a RawFileSystem turns the slashes of the name and joins it to the root)
    rel = chain_rel(chain_prefix, path)
    target = os.path.normpath(os.path.join(root, rel))
    answered_outside = [[a, target] for a in answers if not is_inside(root, target) and not exempt_answers]
    pre_escapes = 0
    if chain_prefix and isinstance(chain_prefix, str):
        sub = os.path.join(root, chain_prefix)
        pre_escapes = sum(1 for k, p in events if is_inside(root, p) and not is_inside(sub, p))
    return {'outcome': out, 'root': root, 'events': events, 'escapes': escapes, 'leaked': leaked, 'data': data[:3],
            'answered_outside': answered_outside,
            'prefix_escapes': pre_escapes, 'handle_path': None if handle is None else handle.path, 'cold_escape': cold_escape,
            'unexpected': unexpected, 'constrained_flag': bool(getattr(raw, 'constrain_path', False))}


def classify(root: str, p: str) -> str:
    rp = _real(root)
    q = _real(p)
    if q.startswith(rp):
        return 'sibling-name-extends-root'
    if is_inside(q if os.path.isdir(q) else os.path.dirname(q), rp):
        return 'ancestor'
    if is_inside(os.path.dirname(rp), q):
        return 'sibling'
    return 'elsewhere'


def targeted_paths(base: str, root_abs_t: str) -> list[str]:
    """For every file and directory of the tree: spellings that reach it from the root."""
    out = []
    root_rel = root_abs_t.replace('{BASE}/', '')
    targets = sorted(TREE | {os.path.dirname(t) for t in TREE} | {''})
    for t in targets:
        rel = posixpath.relpath('/' + t, '/' + root_rel)
        out += [rel, rel.replace('/', '\\'), './' + rel, rel.replace('/', '//'), 'sub/../' + rel, 'nope/../' + rel,
                '{BASE}/' + t, '/{BASE}/' + t, '{BASE}/t/root/../../' + t, '{BASE}/' + t.replace('/', '\\'),
                rel + '/', rel + '/.', 'a/../' + rel.replace('/', '\\', 1)]
    return out


def search_trees(ck: Ck) -> None:
    n_random = ck.budget(2000, 40000)
    base_dir = Path(tempfile.mkdtemp(prefix='tree_', dir=ck.scratch))
    base = os.path.realpath(base_dir)
    build_tree(Path(base))
    found: dict[str, dict] = {}
    stats = {'prefix_escapes': 0}

    op_seconds: dict[str, float] = {}

    plain_escaped: set = set()       # (root configuration, chain prefix, path) on which a plain operation escaped

    def case(label, root_spec, cp, op, path_t, cold=True, entry_hist=True):
        if len(HANGS) >= MAX_HANGS:
            return False
        t0 = time.perf_counter()
        r = run_op(base, root_spec, cp, op, path_t, cold=cold, entry_hist=entry_hist)
        if op == 'after_loose' and not cold:
            r['cold_escape'] = (label, cp, path_t) in plain_escaped
        op_seconds[op] = op_seconds.get(op, 0.0) + time.perf_counter() - t0
        ck.count('tree_operations')
        ck.hist('tree_op', op)
        ck.hist('tree_root_config', label)
        ck.hist('tree_chain_prefix', repr(cp))
        ck.hist('tree_outcome', r['outcome'].split(':')[0])
        stats['prefix_escapes'] += r['prefix_escapes']
        path = path_t.replace('{BASE}', base)
        if ('..' in path or path.startswith('/') or '\\' in path) and r['events'] or r['outcome'] == 'RootEscapeError':
            ck.seen((label, cp, op, path_t))
        if r['unexpected'] is not None:
            # the implementation failed in a way no caller is prepared for (or did not come back): a failing input of its own
            kind = 'hang' if r['outcome'] == 'hang' else 'unexpected-exception'
            ukey = f'{kind}-{op}-{r["outcome"].split(":")[-1]}'
            if ukey not in found:
                found[ukey] = {'root': root_spec, 'root_config': label, 'chain_prefix': cp, 'op': op, 'path': path_t,
                               'file_handle_path': r['handle_path'], 'outcome': r['outcome'] + ' (' + r['unexpected'] + ')',
                               'accessed_outside_root': [], 'data_returned': [], 'answered_about_outside': [],
                               'how': 'checks.c18.replay: builds the tree TREE under a fresh {BASE} and runs the op', '_rank': (2, 0), '_n': 0}
            found[ukey]['_n'] += 1
        if label.startswith('factory-') and not r['constrained_flag'] and 'factory-makes-unconstrained-file-system' not in found:
            found['factory-makes-unconstrained-file-system'] = {
                'root': root_spec, 'root_config': label, 'chain_prefix': cp, 'op': op, 'path': path_t, 'file_handle_path': None,
                'outcome': 'the RawFileSystem made by the package factory (or handed to a consumer in the package) has constrain_path=False', 'accessed_outside_root': [],
                'data_returned': [], 'answered_about_outside': [], 'how': 'checks.c18.replay', '_rank': (2, 0), '_n': 1}
        if not r['escapes'] and not r['leaked'] and not r['answered_outside']:
            return False
        if op in SUB_OPS:
            plain_escaped.add((label, cp, path_t))
        where = r['escapes'][0][1] if r['escapes'] else r['answered_outside'][0][1] if not r['leaked'] \
            else os.path.join(base, r['leaked'][0][len('CONTENT-OF:'):])
        key = ('handle-' if op.startswith('handle_') else 'history-' if op == 'after_loose' and not r['cold_escape'] else '') + 'escape-' \
            + classify(r['root'], where)
        rep = {'root': root_spec, 'root_config': label, 'chain_prefix': cp, 'op': op, 'path': path_t,
               'file_handle_path': r['handle_path'],
               'outcome': r['outcome'], 'accessed_outside_root': [[k, p.replace(base, '{BASE}')] for k, p in r['escapes'][:4]],
               'data_returned': r['leaked'][:2],
               'answered_about_outside': [[a, p.replace(base, '{BASE}')] for a, p in r['answered_outside'][:2]], 'how': 'checks.c18.replay: builds the tree TREE under a fresh {BASE} and runs the op'}
        rank = (0 if r['leaked'] else 1, len(path_t))
        n_prev = found[key]['_n'] if key in found else 0
        if key not in found or rank < found[key]['_rank']:
            found[key] = dict(rep, _rank=rank)
        found[key]['_n'] = n_prev + 1
        return key

    # 1. corpus + targeted spellings of every tree entry, every root configuration
    for label, root_spec in ROOT_CONFIGS:
        root_abs_t = '{BASE}/t/root/sub' if label == 'nested' else '{BASE}/t/root'
        corpus = ['../root_evil/secret.txt', '..\\root_evil\\secret.txt', '../root_evil', '../rootx', '../root.bak/in.txt',
                  '{BASE}/t/root_evil/secret.txt', '../sub_evil/x.txt', '..\\above.txt', '..\\in.txt', '../above.txt',
                  '../in.txt', 'sub\\..\\..\\above.txt',
                  # names that are inside the root as they stand and lead out of it after a transformation somebody might
                  # apply between the check and the use (strip, Unicode NFKC, URL unquoting, case folding, ~ / $VAR expansion)
                  ' ../above.txt', '../above.txt ', '\uff0e\uff0e/above.txt', '%2e%2e/above.txt', '..%2fabove.txt',
                  '../Root/in.txt', '../ROOT/sub/in.txt', '{BASE}/T/ROOT/../above.txt', '~/../above.txt', '$PWD/../above.txt',
                  '..\u2215above.txt', 'sub/\u2025/above.txt',
                  # round 4: path syntax of other systems (drive letters, UNC, device paths: ordinary characters here), NUL
                  # bytes, '..' after components that do not exist, names and paths beyond NAME_MAX / PATH_MAX
                  'C:\\..\\..\\above.txt', 'C:/../../above.txt', 'C:..\\above.txt', 'C:\\in.txt', 'c:/{BASE}/t/above.txt',
                  '\\\\server\\share\\..\\..\\above.txt', '//server/share/../../{BASE}/t/above.txt', '\\\\?\\{BASE}\\t\\above.txt',
                  '\\\\.\\..\\above.txt', '//{BASE}/t/above.txt', '///{BASE}/t/above.txt', 'file:///{BASE}/t/above.txt',
                  'in.txt\x00/../../above.txt', '../above.txt\x00', '\x00/../above.txt', '..\x00/above.txt', 'in.txt\x00',
                  'nope/../../above.txt', 'nope/nope/../../../above.txt', 'nope/../in.txt', 'in.txt/../../above.txt',
                  'in.txt/../a', 'sub/deep.txt/../../../above.txt',
                  'n' * 300 + '/../../above.txt', 'n' * 300 + '/../in.txt', 'x/' * 2500 + '../' * 2501 + 'above.txt',
                  'x/' * 2500 + '../' * 2500 + 'in.txt', '../' * 3000 + '{BASE}/t/above.txt'.lstrip('/')]
        n_corpus = len(corpus)
        tp = corpus + targeted_paths(base, root_abs_t)
        factory = label.startswith('factory-')
        for cp in CHAIN_PREFIXES + NESTED_CHAINS:
            if cp is not None and label not in ('abs', 'relative', 'nested'):
                continue
            if isinstance(cp, tuple) and label == 'relative':
                continue
            for k, path_t in enumerate(tp):
                full = ck.thorough or bool(ck.tie_broken) or k < n_corpus
                if isinstance(cp, tuple):
                    if not (full or k % 6 == 1) or (not ck.thorough and not ck.tie_broken and cp in NESTED_CHAINS[1:4:2]):
                        continue
                    ops = ['contains', 'getitem', 'open_bin', 'walk'] + (['handle_made'] if cp[0] == 'nest' else [])
                elif factory:
                    if not (full or k % 6 == 2):
                        continue
                    ops = (OPS if label == 'factory-get_filesystem' else SUB_OPS) + ENTRY_OPS
                else:
                    # root spellings that differ from 'abs' only in how the same folder is written: every second targeted
                    # spelling in the quick tier (the parity alternates between them, so each spelling meets two of the four)
                    if label in THIN_LABELS and not (full or k % 2 == THIN_LABELS.index(label) % 2):
                        continue
                    ops = OPS if cp is None or label == 'abs' else ['getitem', 'walk', 'handle_made', 'after_loose']
                    if cp is None and (full or k % 4 == 0):
                        ops = ops + ENTRY_OPS
                for op in ops:
                    # the history op costs ten operations: in the quick tier on the corpus and every third spelling; the
                    # plain operations on the same name come first in `ops` and say whether an escape needs the history
                    if op == 'after_loose' and not (ck.thorough or ck.tie_broken or k < n_corpus or k % 3 == 0):
                        continue
                    case(label, root_spec, cp, op, path_t, cold=False, entry_hist=full)
    # 2. random segment paths
    rng = ck.rng
    for _ in range(n_random):
        label, root_spec = rng.choice(ROOT_CONFIGS[:PLAIN_CONFIGS])
        cp = rng.choice(CHAIN_PREFIXES) if rng.random() < 0.3 else None
        k = rng.choice([1, 2, 3, 4, 5, 6])
        segs = [rng.choice(SEGS) for _ in range(k)]
        kind = rng.choice([0, 0, 1, 2, 3])
        pre = rng.choice(['', '', '', '/', '//', '{BASE}/', '{BASE}/t/', '{BASE}/t/root/', '\\'])
        path_t = pre + join_kind(kind, segs)
        op = rng.choice(OPS)
        ck.hist('tree_random_segments', k)
        hit = case(label, root_spec, cp, op, path_t, entry_hist=ck.thorough or bool(ck.tie_broken))
        if hit and found[hit]['_n'] <= 4:
            # shrink (the first hits of every class only: on a broken tree thousands of random paths escape):
            # drop segments while the same class of escape remains
            cur = segs
            changed = True
            while changed and len(cur) > 1:
                changed = False
                for i in range(len(cur)):
                    cand = cur[:i] + cur[i + 1:]
                    if case(label, root_spec, cp, op, pre + join_kind(kind, cand)) == hit:
                        cur, changed = cand, True
                        break
    ck.extra['chain_prefix_escapes_inside_root(observation)'] = stats['prefix_escapes']
    ck.extra['tree_op_seconds'] = {k: round(v, 1) for k, v in op_seconds.items()}
    ck.sample({'root': '{BASE}/t/root', 'op': 'open_bin', 'path': 'sub/../in.txt',
               'result': {k: v for k, v in run_op(base, '{BASE}/t/root', None, 'open_bin', 'sub/../in.txt').items()
                          if k in ('outcome', 'data')}})
    ck.sample({'root': '{BASE}/t/root', 'op': 'getitem', 'path': '../root_evil/secret.txt',
               'result': {k: (v if k != 'escapes' else [[a, b.replace(base, '{BASE}')] for a, b in v])
                          for k, v in run_op(base, '{BASE}/t/root', None, 'getitem', '../root_evil/secret.txt').items()
                          if k in ('outcome', 'data', 'escapes')}})
    for key, rep in sorted(found.items()):
        n = rep.pop('_n', 1)
        rep.pop('_rank', None)
        what = (f'{rep["op"]}({rep["path"]!r}) on RawFileSystem({rep["root"]!r})'
                + (f' through FileSystemChain prefix {rep["chain_prefix"]!r}' if rep['chain_prefix'] is not None else '')
                + f' -> {rep["outcome"]}; touched {rep["accessed_outside_root"][:1]} outside the root'
                + (f', answered {rep["answered_about_outside"][:1]}' if rep['answered_about_outside'] else '') + f' ({n} such cases)')
        ck.violation(key, what, rep)
    ck.extra['tree_violation_keys'] = sorted(found)
    shutil.rmtree(base_dir, ignore_errors=True)


def import_package_modules(ck: Ck) -> None:
    """Import every module of the package that mentions the file-system classes (what an application using srctools has
    loaded): a monkey patch applied from another module at import time is then in force during the search."""
    import importlib
    loaded, failed = [], []
    for rel in ck.extra.get('translated', {}).get('FsCensus_gen', {}).get('modules_mentioning_the_classes', []):
        name = 'srctools.' + rel[:-3].replace('/', '.')
        if name.endswith('.__init__'):
            name = name[:-9]
        try:
            with time_limit(60):
                importlib.import_module(name)
            loaded.append(name)
        except _Hang:
            failed.append(name + ': import did not finish')
        except Exception as e:      # optional dependencies, scripts that want arguments ...
            failed.append(f'{name}: {type(e).__name__}')
    ck.extra['package_modules_imported_before_the_search'] = loaded
    if failed:
        ck.extra['package_modules_not_importable'] = failed


def observe_symlinks(ck: Ck) -> None:
    """The reading of C18 is lexical (os.path.abspath never consults the file system; Props/C18.v c18_symlink_*): what a
    symbolic link INSIDE the root points to is content of the root.  Observed on a real tree, reported only if a path handed
    to the OS is LEXICALLY outside the root: (1) a link inside the root to a folder / file outside is followed; (2) '..'
    after a link is taken lexically; (3) a root reached through a link keeps the link's spelling, and the real spelling of
    the same folder is refused; (4) os.walk does not descend into linked folders."""
    from srctools.filesys import RootEscapeError
    base_dir = Path(tempfile.mkdtemp(prefix='links_', dir=ck.scratch))
    base = os.path.realpath(base_dir)
    for rel in ('t/root/in.txt', 't/root/sub/deep.txt', 't/outside/secret.txt', 't/above.txt', 't/in.txt'):
        q = Path(base) / rel
        q.parent.mkdir(parents=True, exist_ok=True)
        q.write_text(f'"CONTENT-OF:{rel}" "1"\n')
    try:
        os.symlink('../outside', base + '/t/root/link')
        os.symlink('../above.txt', base + '/t/root/flink')
        os.symlink('root', base + '/t/rootlink')
        os.symlink(base + '/t/outside', base + '/t/root/sub/abslink')
    except OSError as e:
        ck.extra['symlink_observations'] = f'symbolic links cannot be created here: {e}'
        shutil.rmtree(base_dir, ignore_errors=True)
        return
    obs: dict = {}
    bad: list = []

    def lexically_inside(root: str, p: str) -> bool:
        r = [c for c in os.path.normpath(root).split('/') if c]
        q = [c for c in os.path.normpath(p).split('/') if c]
        return q[:len(r)] == r and '..' not in q

    def ask(label: str, root: str, op: str, name: str):
        fs = new_raw(root)
        data: list = []
        with observe() as ev:
            try:
                with time_limit(60):
                    out = _sub_op(fs, op, name, data, 50)
            except RootEscapeError:
                out = 'RootEscapeError'
            except _Hang:
                out = 'hang'
            except Exception as e:
                out = type(e).__name__
        handed = [os.path.normpath(os.path.join(os.getcwd(), p)) if not os.path.isabs(p) else p for _, p in ev]
        for p in handed:
            ck.count('symlink_tree_accesses')
            if not lexically_inside(fs.path, p) and not p.startswith(_ignored_prefixes()):
                bad.append({'root': root.replace(base, '{BASE}'), 'op': op, 'path': name, 'handed_to_os': p.replace(base, '{BASE}')})
        srcs = sorted({w.replace(base + '/', '') for d in data for w in content_paths(base, d)})
        obs[label] = {'outcome': out, 'content_from': srcs}
        ck.seen(('symlink', label))
        return out, srcs

    root = base + '/t/root'
    ask('folder link inside the root, pointing out: link/secret.txt', root, 'open_bin', 'link/secret.txt')
    ask('file link inside the root, pointing out: flink', root, 'open_bin', 'flink')
    ask('absolute folder link below the root: sub/abslink/secret.txt', root, 'getitem', 'sub\\abslink\\secret.txt')
    ask('".." after a link is lexical: link/../in.txt', root, 'open_bin', 'link/../in.txt')
    ask('".." out through a link: link/../../above.txt', root, 'open_bin', 'link/../../above.txt')
    ask('walk of the root (os.walk does not descend into linked folders)', root, 'walk', '')
    ask('walk of a linked folder', root, 'walk', 'link')
    ask('root given through a link: in.txt', base + '/t/rootlink', 'open_bin', 'in.txt')
    ask('root given through a link, real spelling of a file inside it', base + '/t/rootlink', 'open_bin', base + '/t/root/in.txt')
    ask('root given through a link: ../root/in.txt', base + '/t/rootlink', 'open_bin', '../root/in.txt')
    ck.extra['symlink_observations(lexical reading, not violations)'] = obs
    for b in bad[:1]:
        ck.violation('escape-lexical-through-link', f'{b["op"]}({b["path"]!r}) on RawFileSystem({b["root"]!r}) handed '
                     f'{b["handed_to_os"]} to the OS: lexically outside the root', dict(b, how='checks.c18.observe_symlinks'))
    shutil.rmtree(base_dir, ignore_errors=True)


# ------------------------------------------------------------------------------------------------ ops model vs observed accesses
OPS_CASES = [  # (label, method of RawFileSystem, branch)
    ('contains', '_file_exists', 'str'), ('lookup', '_get_file', 'str'), ('open_bin', 'open_bin', 'str'),
    ('open_str', 'open_str', 'str'), ('walk', 'walk_folder', 'str'), ('handle_open_bin', 'open_bin', 'File'),
    ('handle_open_str', 'open_str', 'File'), ('handle_cache_key', '_get_cache_key', 'File'),
]
KCODE = {'open': 1, 'os.walk': 2, 'os.stat': 3, 'os.lstat': 3}
# round 4: the inherited entry points and the methods of File: (label, name in Gen/FsCensus_gen.v entry_points, branch)
ENTRY_CASES = [
    ('e_getitem', '__getitem__', 'str'), ('e_contains', '__contains__', 'str'), ('e_read_kv1', 'read_kv1', 'str'),
    ('e_read_kv1_handle', 'read_kv1', 'File'), ('e_read_prop', 'read_prop', 'str'), ('e_iter', '__iter__', 'str'),
    ('e_file_open_bin', 'File.open_bin', 'File'), ('e_file_open_str', 'File.open_str', 'File'),
    ('e_file_cache_key', 'File.cache_key', 'File'),
]


def _parse_option_list(v: str) -> list:
    """`[Some [47; 116]; None; Some []]` (a Coq `list (option (list N))`) -> [str | None]."""
    import re
    out = []
    for m in re.finditer(r'None|Some\s*\[([^\]]*)\]', v):
        if m.group(0) == 'None':
            out.append(None)
        else:
            out.append(''.join(chr(int(x.split('%')[0])) for x in m.group(1).split(';') if x.strip()))
    return out


def corr_ops(ck: Ck) -> None:
    """The data-flow model of the operations (Gen/FsOps_gen.v + peval) against what the implementation really hands to
    the OS: for (method, branch, argument, handle strings) the model lists (callee, path) of every access; the audit
    hook observes the real ones.  Handles are built with DIFFERENT path and data strings, so a model that confuses the
    two fields disagrees."""
    from srctools.filesys import File, RawFileSystem, RootEscapeError
    base_dir = Path(tempfile.mkdtemp(prefix='ops_', dir=ck.scratch))
    base = os.path.realpath(base_dir)
    build_tree(Path(base))
    root = base + '/t/root'
    rng = ck.rng
    pool = ['in.txt', 'sub/in.txt', 'sub/../in.txt', '../above.txt', '..\\above.txt', 'sub\\..\\in.txt', '../root_evil/secret.txt',
            '', '.', 'sub', '../rootx', base + '/t/root/a', base + '/t/above.txt', '/', 'nope', 'sub//deep.txt', './a',
            '..', 'x/../../root/in.txt', 'root_evil/nested.txt', '..\\root_evil\\secret.txt', 'sub/..\\in.txt']
    cases = []
    for label, m, b in OPS_CASES:
        for p in pool:
            cases.append((label, m, b, p, rng.choice(pool), rng.choice(pool)))
    for _ in range(ck.budget(120, 1500)):
        label, m, b = rng.choice(OPS_CASES)
        mk = lambda: rng.choice(['', '/', base + '/t/']) + join_kind(rng.choice([0, 0, 1, 2]), [rng.choice(SEGS) for _ in range(rng.choice([1, 2, 3, 4]))])
        cases.append((label, m, b, mk(), mk(), mk()))
    ecases = []
    for label, m, b in ENTRY_CASES:
        for p in pool:
            ecases.append((label, m, b, p, rng.choice(pool), rng.choice(pool)))
    for _ in range(ck.budget(60, 600)):
        label, m, b = rng.choice(ENTRY_CASES)
        mk2 = lambda: rng.choice(['', '/', base + '/t/']) + join_kind(rng.choice([0, 0, 1, 2]), [rng.choice(SEGS) for _ in range(rng.choice([1, 2, 3, 4]))])
        ecases.append((label, m, b, mk2(), mk2(), mk2()))
    # routes: user code indexing / walking a FileSystemChain, also a chain inside a chain, around the constrained member
    from srctools.filesys import FileSystemChain
    rprefixes = ['', 'sub', 'sub/', 'x/..', '..', 'sub\\..', '/', 'root_evil']
    rcases = []
    for k in range(ck.budget(150, 900)):
        depth = 1 + k % 2
        rcases.append((('getitem', 'walk')[(k // 2) % 2], [rng.choice(rprefixes) for _ in range(depth)],
                       pool[k % len(pool)] if k < 4 * len(pool) else mk()))
    robserved = []
    eobserved = []
    observed = []
    old = os.getcwd()
    os.chdir(base)

    def perform_route(op, prefixes, arg):
        fs = RawFileSystem(root)
        for pre_ in reversed(prefixes):          # prefixes[0] is the outermost chain
            fs = FileSystemChain((fs, pre_))
        with observe() as ev:
            try:
                if op == 'getitem':
                    fs[arg]
                else:
                    for _f in fs.walk_folder(arg):
                        break
            except Exception:
                pass
        return sorted({(KCODE[k], p) for k, p in ev if k in KCODE})

    def perform_entry(fs, label, arg, hpath, data):
        """One call of an inherited entry point / a method of File; the (callee code, path) set the audit hook saw."""
        import warnings
        h = File(fs, hpath, data)
        with observe() as ev:
            try:
                with warnings.catch_warnings():
                    warnings.simplefilter('ignore')
                    if label == 'e_getitem':
                        fs[arg]
                    elif label == 'e_contains':
                        arg in fs
                    elif label == 'e_read_kv1':
                        fs.read_kv1(arg)
                    elif label == 'e_read_kv1_handle':
                        fs.read_kv1(h)
                    elif label == 'e_read_prop':
                        fs.read_prop(arg)
                    elif label == 'e_iter':
                        for _f in fs:
                            break
                    elif label == 'e_file_open_bin':
                        h.open_bin().close()
                    elif label == 'e_file_open_str':
                        h.open_str().close()
                    else:
                        h.cache_key()
            except Exception:       # RootEscapeError, OSError, parse errors of the non-keyvalues files ...
                pass
        return sorted({(KCODE[k], p) for k, p in ev if k in KCODE})

    def perform(fs, label, arg, hpath, data):
        """One operation on one object; the (callee code, path) set the audit hook saw."""
        h = File(fs, hpath, data)
        with observe() as ev:
            try:
                if label == 'contains':
                    arg in fs
                elif label == 'lookup':
                    fs[arg]
                elif label == 'open_bin':
                    fs.open_bin(arg).close()
                elif label == 'open_str':
                    fs.open_str(arg).close()
                elif label == 'walk':
                    for _f in fs.walk_folder(arg):
                        break
                elif label == 'handle_open_bin':
                    fs.open_bin(h).close()
                elif label == 'handle_open_str':
                    fs.open_str(h).close()
                else:
                    fs._get_cache_key(h)
            except Exception:       # RootEscapeError, OSError, ValueError ...: what was handed to the OS before it is what counts
                pass
        return sorted({(KCODE[k], p) for k, p in ev if k in KCODE})

    # histories: two or three objects on the same folder (constrained and not), two to four steps; the names repeat between
    # the steps of a history, so whatever an earlier step (of another object) left behind would be visible in a later one
    hist_pool = ['../above.txt', '..\\above.txt', '../root_evil/secret.txt', 'in.txt', 'sub/../in.txt', '../rootx', '..',
                 base + '/t/above.txt', 'sub\\..\\..\\above.txt', '', '../../top.txt', 'sub/deep.txt']
    histories = []
    for k in range(ck.budget(60, 400)):
        name = hist_pool[k % len(hist_pool)]
        steps = []
        for j in range(rng.choice([2, 2, 3, 4])):
            label, m, b = rng.choice(OPS_CASES)
            con = (j % 2 == 1) if j < 2 else rng.random() < 0.5         # first an unconstrained object, then a constrained one
            pick = lambda: name if rng.random() < 0.7 else rng.choice(hist_pool)
            steps.append((con, label, m, b, pick(), pick(), pick()))
        histories.append(steps)
    hist_observed = []
    try:
        for label, m, b, arg, hpath, data in cases:
            observed.append(perform(RawFileSystem(root), label, arg, hpath, data))
            ck.count('ops_model_cases')
            ck.hist('ops_model_case', f'{label}:{"access" if observed[-1] else "no-access"}')
            if observed[-1] and ('..' in arg + hpath + data or '\\' in arg + hpath + data):
                ck.seen(('ops', label, arg, hpath, data))
        for op_, prefixes, arg in rcases:
            robserved.append(perform_route(op_, prefixes, arg))
            ck.count('route_model_cases')
            ck.hist('route_model_case', f'{op_}:depth{len(prefixes)}:{"access" if robserved[-1] else "no-access"}')
            if robserved[-1] and ('..' in arg + ''.join(prefixes) or '\\' in arg):
                ck.seen(('route', op_, tuple(prefixes), arg))
        for label, m, b, arg, hpath, data in ecases:
            eobserved.append(perform_entry(RawFileSystem(root), label, arg, hpath, data))
            ck.count('entry_point_model_cases')
            ck.hist('entry_point_model_case', f'{label}:{"access" if eobserved[-1] else "no-access"}')
            if eobserved[-1] and ('..' in arg + hpath + data or '\\' in arg + hpath + data):
                ck.seen(('entry', label, arg, hpath, data))
        for steps in histories:
            objs = {True: RawFileSystem(root), False: RawFileSystem(root, constrain_path=False)}
            hist_observed.append([perform(objs[con], label, arg, hpath, data) for con, label, m, b, arg, hpath, data in steps])
            ck.count('history_model_steps', len(steps))
            ck.hist('history_model_shape', ''.join('C' if st[0] else 'u' for st in steps))
            if any(o and st[0] for o, st in zip(hist_observed[-1], steps)) and len({st[4] for st in steps}) < len(steps):
                ck.seen(('hist', tuple((st[0], st[1], st[4]) for st in steps)))
    finally:
        os.chdir(old)
        shutil.rmtree(base_dir, ignore_errors=True)
    from harness.common import parse_coq_nested
    pre = ('Require Import Coq.Strings.String.\n'
           'Definition kcode (c : string) : N := if String.eqb c "open" then 1%N else if String.eqb c "os.walk" then 2%N else 3%N.\n'
           f'Definition o_cwd : str := {coq_str(base)}.\nDefinition o_root : str := {coq_str(root)}.\n'
           'Definition predict (m b : string) (arg hpath data : str) : list (N * str) :=\n'
           '  map (fun x => (kcode (fst x), snd x)) (site_accesses raise_if o_cwd o_root '
           '{| i_arg := arg; i_data := data; i_hpath := hpath; i_prefix := []; i_walked := [] |} m b raw_sites).\n')
    pre += ('Definition epredict (name b : string) (arg hpath data : str) : list (N * str) :=\n'
            '  map (fun x => (kcode (fst x), snd x)) (entry_accesses 4 raise_if o_cwd o_root entry_points raw_sites name b '
            '{| i_arg := arg; i_data := data; i_hpath := hpath; i_prefix := []; i_walked := [] |}).\n')
    pre += ('Definition rstep (m : string) (hops : list hop) (arg : str) : list (N * str) :=\n'
            '  flat_map (fun s => if (String.eqb (st_method s) m && String.eqb (st_branch s) "str")%bool then\n'
            '    match step_plain raise_if o_cwd {| sp_root := o_root; sp_con := true; sp_route := hops; sp_site := s;\n'
            '      sp_in := {| i_arg := arg; i_data := []; i_hpath := []; i_prefix := []; i_walked := [] |} |} with\n'
            '    | Some a => [(kcode (st_callee s), a)] | None => [] end else []) raw_sites.\n'
            'Definition chain_hop (m : string) (prefix : str) : list hop :=\n'
            '  map (fun c => {| h_call := c; h_prefix := prefix |}) (filter (fun c => String.eqb (cc_method c) m) chain_calls).\n'
            'Definition entry_hop (m : string) : list hop :=\n'
            '  map (fun c => {| h_call := c; h_prefix := [] |})\n'
            '      (filter (fun c => (String.eqb (cc_method c) m && negb (reads_handle (cc_arg c)))%bool) entry_points).\n')
    pre += ('Definition hstep (con : bool) (m b : string) (arg hpath data : str) : list opcall :=\n'
            '  map (fun s => {| oc_root := o_root; oc_con := con; oc_site := s; oc_in := {| i_arg := arg; i_data := data; '
            'i_hpath := hpath; i_prefix := []; i_walked := [] |} |})\n'
            '      (filter (fun s => (String.eqb (st_method s) m && String.eqb (st_branch s) b)%bool) raw_sites).\n'
            '(* today\'s source has no table in front of _resolve_path: the policy that keeps nothing *)\n'
            'Definition hrun (ops : list opcall) : list (option str) := hist_run true raise_if o_cwd (fun _ => []) [] ops.\n')
    bad = []
    missing = set()
    chunks = [list(range(lo, min(lo + 150, len(cases)))) for lo in range(0, len(cases), 150)]
    # sites per (method, branch), in table order, from the translator's side information (to split the flat answer)
    table = {}
    for m_, c_, b_, p_, _ln in ck.extra.get('translated', {}).get('FsOps_gen', {}).get('raw_sites', []):
        table.setdefault((m_, b_), []).append(c_)

    def hist_batch(lo):
        exprs = ['hrun (' + ' ++ '.join(f'hstep {"true" if con else "false"} "{m}" "{b}" {coq_str(arg)} {coq_str(hp)} {coq_str(da)}'
                                        for con, _l, m, b, arg, hp, da in steps) + ')' for steps in histories[lo:lo + 40]]
        return coq_run(ck, f'hist{lo}', exprs, preamble=pre)
    hist_los = list(range(0, len(histories), 40))

    def batch(idx):
        exprs = ['[' + '; '.join(f'predict "{cases[k][1]}" "{cases[k][2]}" {coq_str(cases[k][3])} {coq_str(cases[k][4])} '
                                 f'{coq_str(cases[k][5])}' for k in idx) + ']',
                 '[' + '; '.join(f'has_method "{m}" "{b}" raw_sites' for _, m, b in OPS_CASES) + ']']
        return coq_run(ck, f'ops{idx[0]}', exprs, preamble=pre)
    echunks = [list(range(lo, min(lo + 150, len(ecases)))) for lo in range(0, len(ecases), 150)]

    def ebatch(idx):
        return coq_run(ck, f'entry{idx[0]}', ['[' + '; '.join(
            f'epredict "{ecases[k][1]}" "{ecases[k][2]}" {coq_str(ecases[k][3])} {coq_str(ecases[k][4])} {coq_str(ecases[k][5])}'
            for k in idx) + ']'], preamble=pre)
    rchunks = [list(range(lo, min(lo + 150, len(rcases)))) for lo in range(0, len(rcases), 150)]

    def rexpr(k):
        op_, prefixes, arg = rcases[k]
        if op_ == 'getitem':
            hops = ' ++ '.join(['entry_hop "__getitem__"'] + [f'chain_hop "_get_file" {coq_str(p_)}' for p_ in prefixes])
            return f'rstep "_get_file" ({hops}) {coq_str(arg)}'
        hops = ' ++ '.join(f'chain_hop "walk_folder_repeat" {coq_str(p_)}' for p_ in prefixes)
        return f'rstep "walk_folder" ({hops}) {coq_str(arg)}'

    def rbatch(idx):
        return coq_run(ck, f'route{idx[0]}', ['[' + '; '.join(rexpr(k) for k in idx) + ']'], preamble=pre)
    with ThreadPoolExecutor(max_workers=6) as ex:
        hist_futs = [ex.submit(hist_batch, lo) for lo in hist_los]
        efuts = [ex.submit(ebatch, idx) for idx in echunks]
        rfuts = [ex.submit(rbatch, idx) for idx in rchunks]
        outs = list(ex.map(batch, chunks))
        hist_outs = [f.result() for f in hist_futs]
        eouts = [f.result() for f in efuts]
        routs = [f.result() for f in rfuts]
    rbad = []
    rfailed = False
    for idx, vals in zip(rchunks, routs):
        if vals is None:
            rfailed = True
            continue
        for k, pred in zip(idx, parse_coq_nested(vals[0])):
            model = sorted({(int(c), ''.join(chr(x) for x in a)) for c, a in pred})
            if model != robserved[k]:
                rbad.append({'op': rcases[k][0], 'chain_prefixes_outermost_first': rcases[k][1], 'arg': rcases[k][2].replace(base, '{BASE}'),
                             'observed': [[c, p.replace(base, '{BASE}')] for c, p in robserved[k]],
                             'model': [[c, p.replace(base, '{BASE}')] for c, p in model]})
    ck.obligation('correspondence:route_model', not rbad and not rfailed,
                  f'{len(rcases)} lookups / walks through a FileSystemChain and a chain inside a chain (prefixes {rprefixes}) around '
                  f'a constrained member: step_plain of SM/PathProperty.v over the route built from Gen entry_points and '
                  f'chain_calls vs the accesses observed: {len(rbad)} disagreements'
                  + ('; model could not be evaluated' if rfailed else '') + (f'; first: {rbad[0]}' if rbad else ''))
    if rbad or rfailed:
        ck.tie_broken.append('correspondence routes (SM/PathProperty.v step_plain vs observed OS accesses through nested chains)')
        ck.extra['route_model_disagreements'] = rbad[:5]
        DISAGREE.setdefault('route', set()).update(b_['op'] for b_ in rbad)
    ebad = []
    efailed = False
    for idx, vals in zip(echunks, eouts):
        if vals is None:
            efailed = True
            continue
        for k, pred in zip(idx, parse_coq_nested(vals[0])):
            model = sorted({(int(c), ''.join(chr(x) for x in a)) for c, a in pred})
            if model != eobserved[k]:
                ebad.append({'entry_point': ecases[k][1], 'branch': ecases[k][2], 'arg': ecases[k][3].replace(base, '{BASE}'),
                             'handle_path': ecases[k][4].replace(base, '{BASE}'), 'handle_data': ecases[k][5].replace(base, '{BASE}'),
                             'observed': [[c, p.replace(base, '{BASE}')] for c, p in eobserved[k]],
                             'model': [[c, p.replace(base, '{BASE}')] for c, p in model]})
    ck.obligation('correspondence:entry_points_model', not ebad and not efailed,
                  f'{len(ecases)} calls of the inherited entry points (fs[x], x in fs, read_kv1, read_prop, iteration) and of '
                  f'File.open_bin / open_str / cache_key: the accesses the model derives by following Gen/FsCensus_gen.v '
                  f'entry_points down to the sites of Gen/FsOps_gen.v vs the accesses observed by the audit hook: '
                  f'{len(ebad)} disagreements' + ('; model could not be evaluated' if efailed else '')
                  + (f'; first: {ebad[0]}' if ebad else ''))
    if ebad or efailed:
        ck.tie_broken.append('correspondence entry points (Gen/FsCensus_gen.v entry_points + SM/PathProperty.v vs observed OS accesses)')
        ck.extra['entry_point_model_disagreements'] = ebad[:5]
        DISAGREE.setdefault('entry', set()).update(b_['entry_point'] for b_ in ebad)
    for idx, vals in zip(chunks, outs):
        if vals is None:
            ck.obligation('correspondence:operations_model', False, 'model could not be evaluated')
            ck.tie_broken.append('correspondence operations model: evaluation failed')
            return
        present = dict(zip([(m, b) for _, m, b in OPS_CASES], parse_coq_nested(vals[1])))
        for k, pred in zip(idx, parse_coq_nested(vals[0])):
            if not present[(cases[k][1], cases[k][2])]:
                # the interpreter found no OS call in this method (the access moved somewhere it cannot follow): the model
                # predicts no access at all, an observed one is a disagreement
                missing.add(cases[k][1])
            model = sorted({(int(c), ''.join(chr(x) for x in a)) for c, a in pred})
            if model != observed[k]:
                bad.append({'op': cases[k][0], 'method': cases[k][1], 'branch': cases[k][2], 'arg': cases[k][3],
                            'handle_path': cases[k][4], 'handle_data': cases[k][5], 'root': root.replace(base, '{BASE}'),
                            'observed': [[c, p.replace(base, '{BASE}')] for c, p in observed[k]],
                            'model': [[c, p.replace(base, '{BASE}')] for c, p in model]})
    if missing:
        ck.notes.append(f'operations correspondence: the interpreter found no OS call in {sorted(missing)}; the model predicts no access there')
    ck.extra['ops_model_methods_without_sites'] = sorted(missing)
    ck.obligation('correspondence:operations_model', not bad,
                  f'{len(cases)} (operation, argument, handle path, handle data) cases: the (callee, path) list of the model '
                  f'(Gen/FsOps_gen.v through peval) vs the accesses observed by the audit hook: {len(bad)} disagreements'
                  + (f'; first: {bad[0]}' if bad else ''))
    if bad:
        ck.tie_broken.append('correspondence operations model (SM/PathOps.v + Gen/FsOps_gen.v vs observed OS accesses)')
        ck.extra['ops_model_disagreements'] = bad[:5]
        DISAGREE.setdefault('ops', set()).update(b['method'] for b in bad)
    # histories: hist_run (SM/PathHistory.v, no table) against the accesses of every step
    hbad = []
    heval_failed = False
    for lo, vals in zip(hist_los, hist_outs):
        if vals is None:
            heval_failed = True
            continue
        for steps, obs, v in zip(histories[lo:lo + 40], hist_observed[lo:lo + 40], vals):
            flat = _parse_option_list(v)
            pos = 0
            model_steps = []
            for con, _l, m, b, *_ in steps:
                callees = table.get((m, b), [])
                part = flat[pos:pos + len(callees)]
                pos += len(callees)
                model_steps.append(sorted({(KCODE.get(c, 3), a) for c, a in zip(callees, part) if a is not None}))
            if pos != len(flat):
                continue                          # the answer does not match the site table the translator reported
            if model_steps != obs:
                k = next(i for i, (x, y) in enumerate(zip(model_steps, obs)) if x != y)
                hbad.append({'history': [{'constrained': st[0], 'op': st[1], 'arg': st[4].replace(base, '{BASE}'),
                                          'handle_path': st[5].replace(base, '{BASE}'), 'handle_data': st[6].replace(base, '{BASE}')}
                                         for st in steps], 'first_differing_step': k,
                             'observed': [[c, p.replace(base, '{BASE}')] for c, p in obs[k]],
                             'model': [[c, p.replace(base, '{BASE}')] for c, p in model_steps[k]]})
    ck.obligation('correspondence:history_model', not hbad and not heval_failed,
                  f'{len(histories)} histories ({ck.counts.get("history_model_steps", 0)} steps) over a constrained and an '
                  f'unconstrained RawFileSystem on the same folder: hist_run (SM/PathHistory.v, no table in front of '
                  f'_resolve_path) vs the accesses observed at every step: {len(hbad)} disagreements'
                  + ('; model could not be evaluated' if heval_failed else '') + (f'; first: {hbad[0]}' if hbad else '')
                  + f'; shapes (u = unconstrained, C = constrained step) {ck.distribution.get("history_model_shape")}')
    if hbad or heval_failed:
        ck.tie_broken.append('correspondence history model (SM/PathHistory.v vs observed OS accesses over several objects)')
        ck.extra['history_model_disagreements'] = hbad[:5]
        DISAGREE.setdefault('history', set()).update(st['op'] for h in hbad for st in h['history'])
    ck.sample({'operations_model_case': dict(zip(('op', 'method', 'branch', 'arg', 'handle_path', 'handle_data'), cases[2])),
               'observed_accesses': [[c, p.replace(base, '{BASE}')] for c, p in observed[2]]})


def search_unify(ck: Ck) -> None:
    """unify_path on every domain path + random ones: the result, joined under a base, must stay below it."""
    from srctools.packlist import unify_path
    bare = 0
    bad = {}
    cases = [p + join_kind(k, t) for p in ['', '/', '\\', '//'] for k in KINDS for n in range(0, 5)
             for t in itertools.product(['..', '.', '', 'a', 'B.vmt'], repeat=n)]
    for _ in range(ck.budget(2000, 30000)):
        cases.append(''.join(ck.rng.choice(['/', '\\', '.', '..', 'a', 'Mat', ' ']) for _ in range(ck.rng.choice([2, 4, 7, 10]))))
    for p in cases:
        ck.count('unify_path_cases')
        try:
            r = unify_path(p)
        except ValueError:
            ck.hist('unify_outcome', 'rejected')
            continue
        ck.hist('unify_outcome', 'accepted')
        if '..' in p:
            ck.seen(('unify', p))
        depth = 0
        ok = True
        for c in r.split('/'):
            if c in ('', '.'):
                continue
            if c == '..':
                depth -= 1
                ok = ok and depth >= 0
            else:
                depth += 1
        if r.startswith('/'):
            ok = False
        if not ok:
            if [c for c in r.split('/') if c not in ('', '.')] == ['..']:     # the carved-out corner of the theorem
                bare += 1
            else:
                bad.setdefault('unify-path-escapes', {'path': p, 'result': r})
    ck.extra['unify_path_bare_parent_results(observation)'] = bare
    for k, v in bad.items():
        ck.violation(k, f'unify_path({v["path"]!r}) == {v["result"]!r} steps above the pack root', v)


# ------------------------------------------------------------------------------------------------ main
def _stage(ck: Ck, name: str, t0: float) -> float:
    import time
    t1 = time.time()
    ck.extra.setdefault('stage_wall_s', {})[name] = round(t1 - t0, 1)
    return t1


def guarded(ck: Ck, name: str, fn, *args):
    """Run a stage that calls into the implementation; if the implementation fails there in a way the stage does not expect
    (a fault may make constructors or helpers raise anything), the stage's obligation fails and the search is escalated —
    the check itself does not fall over.  Inconclusive (a coqc timeout) is passed on."""
    try:
        # the implementation side of a correspondence takes seconds (quick) to a minute or two (thorough)
        with time_limit(1800 if ck.thorough else 400):
            return fn(ck, *args)
    except Inconclusive:
        raise
    except _Hang:
        ck.obligation(name, False, 'the implementation did not come back while the stage ran its cases (time limit of the stage)')
        ck.tie_broken.append(f'{name}: the implementation hangs')
        return None
    except Exception as e:
        import traceback
        tb = traceback.extract_tb(e.__traceback__)[-1]
        ck.obligation(name, False, f'the stage could not be completed: {type(e).__name__}: {e} (at {tb.filename.split("/")[-1]}:{tb.lineno})'[:600])
        ck.tie_broken.append(f'{name}: {type(e).__name__} while running the implementation')
        return None


def run(ck: Ck) -> None:
    import time
    t = time.time()
    ck.rule = ('correspondence: EVERY path prefix + join(segments) with segments from {.., ., "", a, root, root_evil, root/x}, '
               '<= 5 segments (quick: <= 4, and on the 4-segment blocks two of the six roots per prefix/separator '
               'combination, rotating), and from the second alphabet of backslash-carrying and non-ASCII look-alike '
               'segments {.., ., a, \\, ..\\, a\\.., e-acute, fullwidth "..", x<division slash>y, two-dot-leader} <= 3 '
               '(thorough 4) segments, 4 separator patterns (/, \\, alternating), 7 prefixes, for normpath, unify_path and '
               '_resolve_path under 6 roots; a block (function, prefix, separators, alphabet, length >= 2) is one distinct '
               'non-trivial case; plus raw random strings, non-trivial = contains ".." and longer than 2; plus the '
               'operations model: (method, branch, argument, handle path, handle data) cases compared with the '
               'audit-hook observation, non-trivial = reached the OS and carries ".." or a backslash; plus histories of 2-4 '
               'such steps over a constrained and an unconstrained object on one folder with repeating names, non-trivial = '
               'a constrained step reached the OS and a name repeats. Oracle: operations on real trees, distinct by (root configuration, chain '
               'prefix, operation, path), non-trivial = the path contains "..", a backslash or is absolute and the '
               'operation reached the file system, or it was rejected with RootEscapeError; the history operation '
               'after_loose asks a new constrained object after an unconstrained one on the same folder performed every plain '
               'operation with the name (quick: corpus + every third targeted spelling + random); round 4: file systems made by '
               'the package factories (get_filesystem, get_inst_locs), chains inside chains and chains with an unconstrained '
               'member on another folder (its own accesses, observed on a chain holding only it, are exempt), the inherited entry '
               'points read_kv1 / read_prop, names with drive letters, UNC / device prefixes, NUL bytes, components that do not '
               'exist, names beyond NAME_MAX / PATH_MAX; entry-point cases (entry point, argument, handle strings) and route '
               'cases (operation, chain prefixes outermost first, name) compared with the model, non-trivial = reached the OS '
               'and carries ".." or a backslash; ten symbolic-link situations observed under the lexical reading')
    ck.trusted.append('hand-written model SM/PathNorm.v of posixpath.join/normpath/abspath/commonpath and of _resolve_path / '
                      'unify_path (tied by exhaustive correspondence on every run); Adler-32 block comparison')
    ck.trusted.append('CPython audit events (open, os.scandir, os.listdir, os.walk) and a wrapper around os.stat/os.lstat as '
                      'the observation of which paths an operation touches')
    ck.trusted.append('translate/c18_ops.py (abstract interpretation of the RawFileSystem / FileSystemChain method bodies into '
                      'path expressions) and their evaluation SM/PathOps.v peval, tied by the operations correspondence; '
                      'SM/PathHistory.v hist_run tied by the history correspondence; the wrapper / shared-state censuses of '
                      'translate/c18_guard.py are syntactic over filesys.py')
    ck.assumptions.append('os.walk contract (hypothesis of c18_walk_found_inside, not checked): every dirpath is the top joined '
                          'with directory-entry names; entry names contain no separator and are not "", ".", ".."')
    ck.assumptions.append('File handles may carry any strings; fs.path / fs.constrain_path are not assigned from outside the class')
    ck.assumptions.append('POSIX path semantics (os.sep == "/", backslash is an ordinary character); containment is lexical '
                          'on normalised absolute paths (os.path.abspath): what a symbolic link inside the root points to '
                          'counts as content of the root (c18_symlink_free_lexical_is_real / c18_symlink_inside_root_leaves_refuted)')
    ck.trusted.append('translate/c18_census.py (package-wide censuses and the entry-point table; entry points and routes tied '
                      'by correspondences, the censuses are syntactic)')
    ck.assumptions.append('the working directory is absolute (hypothesis is_abs cwd of the theorems); os.getcwd() always is')
    assert os.sep == '/'
    searched, ties_before = False, 0
    ok_t = ck.translate('Containment_gen', c18_guard.translate)
    ok_t = ck.translate('FsOps_gen', c18_ops.translate) and ok_t
    ok_t = ck.translate('FsCensus_gen', c18_census.translate) and ok_t
    side = ck.extra.get('translated', {}).get('Containment_gen', {})
    RESOLVE_METHOD[0] = side.get('resolve_method', '_resolve_path')
    t = _stage(ck, 'translate', t)
    if not ok_t:
        # One translator failed closed, so nothing is built and no instance obligation is evaluated.  The censuses the
        # OTHER translators did finish are lists computed here anyway ("wanted: empty"): report the non-empty ones under
        # the names of the instance obligations they feed, so that a fault which both defeats the guard reader and
        # installs a table / wrapper (a hand-written memo inside a helper of _resolve_path) still names what is wrong.
        tr_all = ck.extra.get('translated', {})
        for gen, key, name in (
                ('Containment_gen', 'resolve_path_wrappers', 'resolve_path_is_called_unwrapped'),
                ('FsOps_gen', 'method_wrappers', 'no_method_of_the_file_system_classes_is_wrapped'),
                ('FsOps_gen', 'shared_mutable_state', 'file_system_methods_share_no_mutable_state'),
                ('FsCensus_gen', 'foreign_patches', 'no_monkey_patch_of_the_file_system_classes_or_path_library_in_the_package'),
                ('FsCensus_gen', 'foreign_subclasses', 'no_subclass_of_raw_file_system_redefines_a_method_in_the_package'),
                ('FsCensus_gen', 'decorator_origins', 'neutral_decorators_are_the_library_ones'),
                ('FsCensus_gen', 'unexpected_bases', 'file_system_classes_have_no_mixin_metaclass_or_class_decorator'),
                ('FsCensus_gen', 'reachable_foreign_caches', 'no_cached_function_of_another_module_is_reached'),
                ('FsCensus_gen', 'per_object_state', 'file_system_objects_keep_no_table_or_outside_state'),
                ('FsCensus_gen', 'entry_unread', 'entry_points_land_on_access_methods')):
            found = tr_all.get(gen, {}).get(key) or []
            if found:
                ck.obligation('census:' + name, False,
                              f'{key} (wanted: empty) = ' + '; '.join(' / '.join(map(str, w)) for w in found)[:500]
                              + ' - evaluated outside the kernel because another translator failed closed')
                ck.notes.append(f'census {key}: ' + '; '.join(' / '.join(map(str, w)) for w in found)[:300])
    built = ok_t and ck.build(['Props/C18.vo', 'SM/PathNormEnum.vo'])
    t = _stage(ck, 'build', t)
    th = None
    if built:
        res = ck.instance_obligations(IMPORTS, {
            'guard_is_a_sound_segmentwise_form': 'raise_sound raise_if',
            'root_is_stored_as_abspath': 'root_is_abspath',
            'root_not_reassigned_by_the_class': 'negb root_reassigned_in_class',
            'constrain_flag_is_the_constructor_argument': 'constrain_flag_is_the_constructor_argument',
            'every_fs_access_goes_through_resolve_path': 'all_access_sites_resolved',
            # data flow of every OS call (Gen/FsOps_gen.v): hypotheses of c18_every_access_inside / c18_chain_accesses_inside
            'every_os_call_receives_a_resolve_path_result': 'every_os_call_receives_a_resolve_result',
            'file_handle_consumers_revalidate_the_stored_string': 'handle_consumers_revalidate_stored_string',
            'chain_and_file_classes_touch_no_file_system_themselves': 'chain_and_file_classes_touch_no_file_system',
            # nothing (decorator / cache / rebinding / attribute hook / subclass override) between a caller and the bodies read
            'resolve_path_is_called_unwrapped': 'resolve_path_is_not_wrapped',
            'no_method_of_the_file_system_classes_is_wrapped': 'no_method_of_the_file_system_classes_is_wrapped',
            # no module / class level table, mutable default or method-object state readable by a second file-system object
            'file_system_methods_share_no_mutable_state': 'file_system_methods_share_no_mutable_state',
            # round 4: the same questions asked of every module below src/srctools (Gen/FsCensus_gen.v)
            'no_monkey_patch_of_the_file_system_classes_or_path_library_in_the_package': 'nilb foreign_patches',
            'no_subclass_of_raw_file_system_redefines_a_method_in_the_package': 'nilb foreign_subclasses',
            'neutral_decorators_are_the_library_ones': 'nilb decorator_origins',
            'file_system_classes_have_no_mixin_metaclass_or_class_decorator': 'nilb unexpected_bases',
            'no_cached_function_of_another_module_is_reached': 'nilb reachable_foreign_caches',
            'file_system_objects_keep_no_table_or_outside_state': 'objects_keep_no_table_or_outside_state',
            'entry_points_land_on_access_methods': 'entry_points_land_on_access_methods',
            'package_factories_construct_constrained_systems': 'package_factories_construct_constrained_systems',
            # the hypothesis of c18_property / c18_property_today for the record of all generated objects
            'c18_property_hypotheses_hold_for_todays_source': 'c18_property_hypotheses_hold_today',
        })
        cen_side = ck.extra.get('translated', {}).get('FsCensus_gen', {})
        for w in cen_side.get('raw_file_system_constructions', []):
            ck.hist('raw_file_system_construction', f'{w[0]}:{w[2].split(":")[0]}')
            if w[2] != 'constrained':
                ck.notes.append('package census constructions: ' + ' / '.join(w))
        for k in ('foreign_patches', 'foreign_subclasses', 'decorator_origins', 'reachable_foreign_caches', 'per_object_state',
                  'entry_unread', 'unexpected_bases'):
            for w in cen_side.get(k, []):
                ck.notes.append(f'package census {k}: ' + ' / '.join(w))
        for c_, m_, mm_, p_ in cen_side.get('entry_points', []):
            ck.hist('entry_point', f'{c_}.{m_}->{mm_}({p_})')
        for w in side.get('resolve_path_wrappers', []) + ck.extra.get('translated', {}).get('FsOps_gen', {}).get('method_wrappers', []):
            ck.notes.append('wrapper between callers and a method body: ' + ' / '.join(w))
        ops_side = ck.extra.get('translated', {}).get('FsOps_gen', {})
        for w in ops_side.get('shared_mutable_state', []):
            ck.notes.append('state shared between file-system objects: ' + ' / '.join(w))
        for m, c, b, p, _ in ops_side.get('raw_sites', []):
            ck.hist('os_call_site', f'{m}:{c}:{b}:{p}')
        info = ck.coq_eval(IMPORTS, ['handles_store_the_validated_string', 'length (handle_sites raw_sites)'], name='opsinfo')
        if info is not None:
            ck.extra['handles_store_the_validated_string(informational)'] = info[0]
            ck.extra['handle_consuming_sites'] = info[1]
        if not res['guard_is_a_sound_segmentwise_form']:
            guarded(ck, 'model_predicted_escapes', model_predicted_escapes)
        if side.get('resolve_digest') not in PINNED_DIGESTS:
            # DESIGN 5.4: a changed hand-modelled function escalates the correspondence budget, it is not an alarm
            ck.notes.append('RawFileSystem._resolve_path differs from the texts the model was written against: '
                            'correspondence compares every function on every block (escalated budget)')
            ESCALATE.append(True)
        t = _stage(ck, 'instance_obligations', t)
        started = guarded(ck, 'correspondence:paths_exhaustive', corr_exhaustive_start)
        t = _stage(ck, 'corr_exhaustive_implementation_side', t)
        # Print Assumptions of every theorem (one coqc process) runs next to the search as well; nothing else uses
        # ck.coq_scratch until it is joined
        th = threading.Thread(target=ck.theorems, args=('Props/C18.v',), daemon=True)
        th.start()
        # the search on real trees runs in this thread while the coqc processes of the correspondence run
        ties_before = len(ck.tie_broken)
        import_package_modules(ck)
        search_trees(ck)
        searched = True
        observe_symlinks(ck)
        t = _stage(ck, 'search_trees(while coqc runs)', t)
        th.join()
        t = _stage(ck, 'theorems(Print Assumptions)_wait', t)
        if started is not None:
            corr_exhaustive_finish(ck, started)
        t = _stage(ck, 'corr_exhaustive_wait', t)
        guarded(ck, 'correspondence:paths_random', corr_random)
        t = _stage(ck, 'corr_random', t)
        check_casefold(ck)
        t = _stage(ck, 'casefold', t)
        guarded(ck, 'correspondence:operations_model', corr_ops)
        t = _stage(ck, 'corr_ops', t)
    if not searched:
        import_package_modules(ck)
        search_trees(ck)
        observe_symlinks(ck)
        t = _stage(ck, 'search_trees', t)
    elif len(ck.tie_broken) > ties_before and not ck.thorough and not ck.violations:
        # a correspondence disagreed after the search had run with the small budget: search again with the escalated one
        search_trees(ck)
        t = _stage(ck, 'search_trees_escalated', t)
    search_unify(ck)
    t = _stage(ck, 'search_unify', t)
    keys = {v['key'] for v in ck.violations}
    if any(k.startswith(ESCAPE_KEYS) for k in keys):
        ck.explain('instance:guard_is_a_sound_segmentwise_form')
        ck.explain('instance:every_fs_access_goes_through_resolve_path')
        ck.explain('instance:every_os_call_receives_a_resolve_path_result')
        ck.explain('instance:file_handle_consumers_revalidate_the_stored_string')
        ck.explain('instance:chain_and_file_classes_touch_no_file_system_themselves')
        ck.explain('instance:resolve_path_is_called_unwrapped')
        ck.explain('instance:no_method_of_the_file_system_classes_is_wrapped')
        ck.explain('instance:file_system_methods_share_no_mutable_state')
        for nm in ('no_monkey_patch_of_the_file_system_classes_or_path_library_in_the_package',
                   'no_subclass_of_raw_file_system_redefines_a_method_in_the_package', 'neutral_decorators_are_the_library_ones',
                   'file_system_classes_have_no_mixin_metaclass_or_class_decorator',
                   'no_cached_function_of_another_module_is_reached', 'file_system_objects_keep_no_table_or_outside_state',
                   'entry_points_land_on_access_methods', 'c18_property_hypotheses_hold_for_todays_source',
                   'package_factories_construct_constrained_systems'):
            ck.explain('instance:' + nm)
        ck.explain('translate:FsCensus_gen')
        ck.explain('translate:FsOps_gen')
        ck.explain('instance:root_')
        ck.explain('instance:constrain_flag')
        ck.explain('translate:Containment_gen')
        ck.explain('census:')
    if any(k.startswith(('hang-', 'unexpected-exception-')) for k in keys):
        # the statement the translators could not read is the one that hangs / raises: the failing input is in hand
        ck.explain('translate:Containment_gen')
        ck.explain('translate:FsOps_gen')
    # A model/implementation disagreement is explained only when every disagreeing function belongs to the part whose
    # concrete violation was exhibited (unify_path by an escaping pack path, _resolve_path by an observed escape).
    if DISAGREE.get('ops') and any(k.startswith(ESCAPE_KEYS) for k in keys):
        ck.explain('correspondence:operations_model')
    if DISAGREE.get('history') and any(k.startswith(ESCAPE_KEYS) for k in keys):
        ck.explain('correspondence:history_model')
    if DISAGREE.get('route') and any(k.startswith(ESCAPE_KEYS) for k in keys):
        ck.explain('correspondence:route_model')
    if DISAGREE.get('entry') and any(k.startswith(ESCAPE_KEYS) for k in keys):
        ck.explain('correspondence:entry_points_model')
    for stage, ob in (('exhaustive', 'correspondence:paths_exhaustive'), ('random', 'correspondence:paths_random')):
        fs = DISAGREE.get(stage, set())
        if fs and all(f == 'unify_path' and 'unify-path-escapes' in keys
                      or f.startswith('resolve[') and any(k.startswith(ESCAPE_KEYS) for k in keys) for f in fs):
            ck.explain(ob)


def replay(data: dict) -> int:
    r = data['replay']
    if 'op' in r:
        base_dir = tempfile.mkdtemp(prefix='c18_replay_', dir=os.environ.get('VERIF_SCRATCH', '/var/tmp'))
        try:
            base = os.path.realpath(base_dir)
            build_tree(Path(base))
            cp = tuple(r['chain_prefix']) if isinstance(r['chain_prefix'], list) else r['chain_prefix']
            out = run_op(base, r['root'], cp, r['op'], r['path'])
            print('root          :', out['root'].replace(base, '{BASE}'))
            print('operation     :', r['op'], repr(r['path']), 'chain prefix', repr(r['chain_prefix']))
            print('outcome       :', out['outcome'])
            print('data returned :', out['data'])
            print('accesses      :', [(k, p.replace(base, '{BASE}')) for k, p in out['events']])
            print('outside root  :', [(k, p.replace(base, '{BASE}')) for k, p in out['escapes']])
            print('answered about:', [(a, p.replace(base, '{BASE}')) for a, p in out['answered_outside']])
            print('unexpected    :', out['unexpected'])
            bad = bool(out['escapes'] or out['leaked'] or out['answered_outside'] or out['unexpected'])
            print('VIOLATION reproduced' if bad else 'no escape on this tree')
            return 1 if bad else 0
        finally:
            shutil.rmtree(base_dir, ignore_errors=True)
    if 'path' in r and 'result' in r:
        from srctools.packlist import unify_path
        print('unify_path(%r) = %r' % (r['path'], unify_path(r['path'])))
        return 0
    print(r)
    return 0
